"""C17 — parsed diagrams are geometrically sound and independent of absolute position.

Two ties, one monitor each:

(a2-a4, round 3) edge chain, box nesting, circle: Lean `Model/GeomEdge|GeomTree|GeomCircle` against the real
    `aird._edge_factories.generic_factory` / `snaptarget`, `aird._box_factories.generic_factory` (both driven through the XML
    attributes the parser reads) and `Circle.vector_snap`; monitors: ends on outlines, nesting, translation of the implementation.
(a2b, a5, round 5) `generic_factory` with an Edge as source/target (`Model/GeomEdgeEnd`); float-boundary robustness: the comparison sites of the
    code (`Gen/GeomCmp`, AST pass) classified in `Model/GeomSites`, inputs exactly on each boundary +-1 ulp / translated by non-representable vectors.
(a) kernel: Lean `Capella.Geom` (vectorSnap, boxsnap, lineIntersect, closestaxis, snapPort, snapChild,
    bounds/viewport, edgeSnap, route_*) against the real `capellambse.diagram` code on an exhaustive
    integer lattice and on seeded rational-/real-valued cases.  Monitor: the statement itself on the
    implementation's answers (no exception, finite, on the outline / top-or-bottom side, port attached,
    viewport encloses), written here in plain Python with `fractions.Fraction`.
(b) whole parser (NOT modelled): every diagram of the corpus models is parsed, then parsed again with the
    stored layout translated by integer vectors (also into negative coordinates) and with one top-level
    node moved; results are compared element by element.  Monitor: finite coordinates, edge ends on the
    outlines of what they connect, ports on their parent's border, viewport encloses the visible elements,
    no exception.
"""

from __future__ import annotations

import itertools
import logging
import math
import os
import sys
from fractions import Fraction as F

import common
from common import Ctx, Outcome

DRIVERS = ["Geom"]
TABLES = True
LEVEL = "proof"
RULE = ("kernel: every (box, point, source, style, port) with proper boxes having corners in {0..N}^2 and point, source "
        "in {-M..N+M}^2 - quick N=3, M=1 (233 280 cases); thorough N=4, M=2 complete (3.28 M) plus 16 seeded boxes of the "
        "N=6, M=2 family with their complete point x source grid (1.17 M) - plus seeded dyadic-rational structured cases "
        "(corners, border points, centre, aimed through each corner, diagonals, axis-aligned, coincident, source=None), "
        "binary64 cases in general position and binary64 cases aimed at a corner up to rounding; snap_to_parent, boxsnap, "
        "line_intersect, closestaxis, bounds, viewport, Edge.vector_snap, route_* on seeded cases; parser: every diagram "
        "of every corpus model x (3 fixed + 3 seeded | thorough: 5 fixed + 15 seeded) integer translation vectors in "
        "+-10^4, and one-node moves of 4 seeded (thorough: every) top-level nodes.  distinct = distinct input tuple; non-trivial = some guard of the code is on its boundary, i.e. NOT (point "
        "strictly inside the box, source different from point and off both centre lines) for the kernel, resp. the diagram "
        "has at least one edge or nested box for the parser.  Since round 3 also: the kernel boundary lattice at several magnitudes (box (o, o-m, 2m, 4m) for scales "
        "m = 2^-10, 1, 2^10 (thorough: 2^-20 .. 2^20) and offsets o = 0, -2^20 (thorough: +-2^20, 2^30), all (point, source) pairs from the 5x5 grid of corners / side "
        "midpoints / centre / outside positions plus 4 points on the diagonals); the edge chain: seeded inputs of generic_factory (two boxes on the integer grid, "
        "ports, floating labels, source anchor, 0-6 stored bend points placed on the boundaries of the case distinctions, every routing style; quick 1400, thorough "
        "14000) and snaptarget on an exhaustive lattice (2 boxes (thorough 4) x 5 style/port combinations x end point and neighbour in {-1..3}^2 x two/three points, "
        "alternating first/last end) plus seeded dyadic cases; box nesting: seeded trees of notation nodes up to depth 5 through _box_factories.generic_factory "
        "(quick 700, thorough 7000); Circle.vector_snap on seeded dyadic cases (quick 600, thorough 6000).  Since round 5: generic_factory with an EDGE as source and/or "
        "target (axis-parallel / oblique / zero-length-segment polylines, labels, 0-5 stored bend points, every style; quick 600, thorough 6000); the boundary-directed "
        "robustness run: for every family of comparison boundaries of the snap code (generated table Gen/GeomCmp, 12 families) seeded boxes at scales 2^-6 .. 2^8 and "
        "offsets up to 2^16 with point/source placed EXACTLY on the boundary, each with +-1 ulp on every coordinate and 4 translations by non-representable vectors "
        "(quick 24 boxes = 13 variants x ~1100 bases, thorough 240); parser: additionally every corner (quick: top-left, bottom-right) of every box that carries a "
        "visible edge end translated onto the origin, and 3 (thorough 6) large odd vectors 2^k+1 per diagram, for ALL corpus models")
ASSUMPTIONS = [
    "floats: the model is exact over Q; implementation answers are compared exactly when they are exactly the model's rational, else within 1e-9 (kernel) / 1e-6 (parser)",
    "the atan2-based side choice of Box.__vector_snap_closest is modelled by its sign form; on the model-declared ties (source on a diagonal of the box) the intersection with either neighbouring side that faces the source is accepted (both are the corner)",
    "of the parser the edge chain (aird/_edge_factories.generic_factory for an edge between two boxes: bend point decoding, default routes, snaptarget) and box nesting (_box_factories.generic_factory + snap_to_parent down a tree of boxes with positive stored sizes) are modelled; XML walking, labels, text extents (PIL), automatic box sizes, StackingBox, edges that end on edges, and filters are not: they are covered by the metamorphic run on the corpus models only (C17 stays partial)",
    "math.isclose(a, b) in snap_manhattan/snap_tree is a = b in the model; snap_oblique's `abs(delta) >= 1` (atan2) is a parameter of the model (theorems hold for every decision function), instantiated in the driver by cos^2(angle) <= c for a rational c within 1e-9 of cos^2(1); the driver declares the inputs on which these differ from the float code (none occurred) and the harness does not compare them",
    "box nesting: a child clamped to a non-positive size component is outside the model (Err.degenerate; the real size property then recomputes it from text extents); a 10x10 port in a parent not larger than 6 px (no proper mid box) is outside the port theorem; both are counted in the evidence, not judged",
    "Circle.vector_snap (sqrt) is modelled as a relation (on the circle, non-negative multiple of the direction); the float result is checked against the relation with residual bounds 1e-9",
    "SNAPPING is on (AIRD_NOSNAP unset)",
    "float boundaries: the exact model and the binary64 code are compared on inputs exactly on a comparison boundary and on agree/jumpTol boundaries also one ulp beside it; one ulp beside a DECLARED JUMP (Model/GeomSites.lean: the branches of the code disagree there) and inside the 1e-6 containment band of 47523e4 the branch the float code takes is not tied to the model - only soundness and the recorded flips are judged there",
    "edges attached to edges: Edge.center is modelled for polylines with axis-parallel segments only (sqrt otherwise); default routes to other polylines are judged by the monitor only",
]
TRUSTED = ["C17: fractions.Fraction / float conversion of CPython; lxml for editing the stored layout in memory"]
MANIFEST = dict(
    text=("PARTIAL (kernel, edge chain and box nesting proved; rest of the parser sampled). Lean theorems over an exact rational model of the snapping "
          "kernel (Box.vector_snap for oblique/closest, Manhattan and tree routing, ports; Vector2D.boxsnap, line_intersect, closestaxis; "
          "Box.snap_to_parent; bounds and the viewport fold; Edge.vector_snap; route_*; Circle.vector_snap as a relation), of the edge chain "
          "(aird/_edge_factories: bend point decoding, default routes, snaptarget with snap_oblique/_manhattan/_tree incl. bend insertion and the "
          "re-snap decision as a parameter) and of box nesting (_box_factories.generic_factory + snap_to_parent down a tree): every snap of a proper "
          "box returns without error a point on its outline (tree: on the top/bottom line, on the side only for ports and for points within the box's "
          "x-range with point != source - recorded finding); every straight/Manhattan edge between two proper boxes, with any stored bend points, is "
          "built without error and starts/ends on the outlines; snaptarget changes only the end; ports end attached to the parent's border and "
          "children inside every ancestor, to any depth; the viewport encloses every element; every kernel function, the whole edge route, a whole "
          "box tree and the circle snap commute with translation. Tied to /repo by an exhaustive integer-lattice differential run, boundary lattices "
          "at several magnitudes, differential runs of the real generic_factory functions (edges, box trees) built from XML attributes, and seeded "
          "rational cases; the rest of the aird parser is checked by a metamorphic run (translate the stored layout, move one node) over every "
          "diagram of the corpus models with an independent soundness monitor. Round 5: every comparison of computed coordinates in the five source files is "
          "listed by an AST pass and classified (kernel-checked: none unclassified); the snaps are proved Lipschitz in the end point on every branch with branch "
          "verdicts locally constant off their boundaries, the boundaries where the branches disagree are proved to be jumps and are the declared ties of a "
          "boundary-directed run (inputs exactly on each boundary, +-1 ulp, translation-induced rounding); edges attached to edges are in the edge-chain model."),
    design_ref="§6 C17",
    note=("Partial: XML walking, labels and text extents (PIL), automatic box sizes, StackingBox, edges ending on edges, float rounding, atan2 and sqrt "
          "are outside the theorems (sampled on the corpus / bounded by residual checks). Trusted: Lean kernel; sign form of the atan2 regions and the "
          "rational enclosure of cos^2(1) (validated on the lattices); harness/props/c17.py."),
    technique="Lean 4 proof over Rat (case analysis, induction over point lists and box trees, linear/non-linear arithmetic) + exhaustive lattice differential testing + metamorphic testing of the parser",
)

TOL = 1e-9
PTOL = 1e-6

MODELS = [
    "tests/data/melodymodel/5_2/Melody Model Test.aird",
    "tests/data/melodymodel/5_0/Melody Model Test.aird",
    "tests/data/melodymodel/6_0/Melody Model Test.aird",
    "tests/data/parser/TestItems.aird",
    "tests/data/filtering/Filtered Project.aird",
    "tests/data/writemodel/WriteTestModel.aird",
    "tests/data/Library Test/Library Test.aird",
    "tests/data/Library Project/Library Project.aird",
    "tests/data/pvmt/PVMTTest.aird",
    "tests/data/decl/empty_project_52/empty_project_52.aird",
]

STYLES = ["oblique", "manhattan", "tree"]


class CountingSet(set):
    """`distinct` bookkeeping for the lattice: its cases are distinct by construction, so they are
    counted (`bulk`) instead of stored (millions of tuples in the thorough tier)."""

    bulk = 0

    def __len__(self) -> int:
        return super().__len__() + self.bulk


# ------------------------------------------------------------------ helpers


def _imports():
    sys.path.insert(0, str(common.REPO))
    os.environ.pop("AIRD_NOSNAP", None)
    logging.disable(logging.CRITICAL)
    import capellambse  # noqa: F401
    from capellambse import diagram

    return diagram


def q(x) -> list[int] | int:
    """protocol encoding of an exact number"""
    f = F(x)
    return f.numerator if f.denominator == 1 else [f.numerator, f.denominator]


def fr4(a) -> tuple[F, F]:
    """model answer [xn, xd, yn, yd] -> (x, y)"""
    return F(a[0], a[1]), F(a[2], a[3])


def close(impl: float, model: F, tol: float = TOL) -> bool:
    if isinstance(impl, float) and not math.isfinite(impl):
        return False
    if F(impl) == model:
        return True
    return abs(float(F(impl) - model)) <= tol * max(1.0, abs(float(model)))


def vclose(iv, mv, tol: float = TOL) -> bool:
    return close(iv[0], mv[0], tol) and close(iv[1], mv[1], tol)


def exact(iv, mv) -> bool:
    return F(iv[0]) == mv[0] and F(iv[1]) == mv[1]


def err_kind(e: BaseException) -> str:
    msg = str(e)
    if isinstance(e, AssertionError):
        if "doesn't have a direction" in msg:
            return "noDirection"
        if "doesn't intersect" in msg:
            return "noIntersection"
        if "intersects multiple" in msg:
            return "multiIntersection"
        if "returned (0,0)" in msg:
            return "axisZero"
        return "assert"
    if isinstance(e, ValueError) and "parallel" in msg:
        return "parallel"
    if isinstance(e, ZeroDivisionError):
        return "zeroSegment"
    return type(e).__name__


def on_outline(bx, by, bw, bh, x, y, tol=0.0) -> bool:
    """independent statement of 'on the outline' (works for Fraction and float)"""
    inx = bx - tol <= x <= bx + bw + tol
    iny = by - tol <= y <= by + bh + tol
    if not (inx and iny):
        return False
    return min(abs(x - bx), abs(x - bx - bw), abs(y - by), abs(y - by - bh)) <= tol


def on_top_or_bottom(bx, by, bw, bh, x, y, tol=0.0) -> bool:
    return bx - tol <= x <= bx + bw + tol and min(abs(y - by), abs(y - by - bh)) <= tol


def port_attached(px, py, pw, ph, x, y, w, h, tol=0.0) -> bool:
    """closed port rectangle meets the closed parent box and is not inside its open interior"""
    overlap = x <= px + pw + tol and px <= x + w + tol and y <= py + ph + tol and py <= y + h + tol
    sticks = x <= px + tol or px + pw <= x + w + tol or y <= py + tol or py + ph <= y + h + tol
    return overlap and sticks


def style_enum(diagram, s: str):
    return {"oblique": diagram.RoutingStyle.OBLIQUE, "manhattan": diagram.RoutingStyle.MANHATTAN,
            "tree": diagram.RoutingStyle.TREE}[s]


def impl_snap(diagram, box, port, p, s, style):
    """the real Box.vector_snap; -> ('r', (x, y)) | ('e', kind)"""
    b = diagram.Box((box[0], box[1]), (box[2], box[3]), port=port)
    try:
        r = b.vector_snap(diagram.Vector2D(*p), source=diagram.Vector2D(*s), style=style_enum(diagram, style))
    except (AssertionError, ValueError, ZeroDivisionError) as e:
        return ("e", err_kind(e))
    return ("r", (r.x, r.y))


def classify_snap(box, p, s, style, res) -> str | None:
    """Monitor for one snap: the property statement on the implementation's answer.
    Returns a finding signature or None.  Exact arithmetic on the inputs, no model."""
    bx, by, bw, bh = (F(v) for v in box)
    px, py, sx, sy = F(p[0]), F(p[1]), F(s[0]), F(s[1])
    if res[0] == "e":
        if style == "oblique":
            inside = bx <= px <= bx + bw and by <= py <= by + bh
            cx, cy = bx + bw / 2, by + bh / 2
            ex, ey = (px, py) if inside else (cx, cy)
            if (ex, ey) == (sx, sy):
                return "Box.vector_snap|oblique|raises|source-at-centre-point-outside"
            corners = [(bx, by), (bx + bw, by), (bx, by + bh), (bx + bw, by + bh)]
            if any((kx - sx) * (ey - sy) == (ky - sy) * (ex - sx) for kx, ky in corners):
                return "Box.vector_snap|oblique|raises|aimed-through-corner"
        return f"Box.vector_snap|{style}|raises|{res[1]}"
    x, y = res[1]
    if not (math.isfinite(x) and math.isfinite(y)):
        return f"Box.vector_snap|{style}|non-finite"
    tol = TOL * max(1, abs(bx) + bw, abs(by) + bh)
    fx, fy = F(x), F(y)
    if style == "tree":
        if on_top_or_bottom(bx, by, bw, bh, fx, fy, tol):
            return None
        if (px, py) == (sx, sy):
            return "Box.vector_snap|tree|off-side|point-eq-source"
        if not (bx <= px <= bx + bw):
            return "Box.vector_snap|tree|off-side|point-x-outside-box"
        return "Box.vector_snap|tree|off-side|other"
    if on_outline(bx, by, bw, bh, fx, fy, tol):
        return None
    return f"Box.vector_snap|{style}|off-outline"


def compare_snap(out: Outcome, stream: str, case, res, ans) -> None:
    """correspondence for one snap case"""
    if "err" in ans:
        out.disagree(stream, case, res, ans)
        return
    a = ans["ok"] if "ok" in ans else ans
    if "e" in a:
        mres = ("e", a["e"])
    else:
        mres = ("r", fr4(a["r"]))
    label = case[-1] if stream.startswith("snap.") else stream
    out.hit(f"model:{label}:{'err-' + mres[1] if mres[0] == 'e' else 'ok'}")
    if res[0] == "e" or mres[0] == "e":
        if res[0] != mres[0] or res[1] != mres[1]:
            out.disagree(stream, case, res, [mres[0], str(mres[1])])
        return
    if exact(res[1], mres[1]):
        out.hit("agree:exact")
        return
    if vclose(res[1], mres[1]):
        out.hit("agree:within-1e-9")
        return
    if "tie" in a and any(vclose(res[1], fr4(t)) for t in a["tie"]):
        out.hit("agree:tie-neighbour")
        return
    out.disagree(stream, case, list(res[1]), [str(mres[1][0]), str(mres[1][1])])


# ------------------------------------------------------------------ (a) kernel


def proper_boxes(n: int) -> list[tuple[int, int, int, int]]:
    r = range(n + 1)
    return [(x0, y0, x1 - x0, y1 - y0) for x0 in r for x1 in r if x0 < x1 for y0 in r for y1 in r if y0 < y1]


def lattice(ctx: Ctx, out: Outcome, diagram) -> None:
    plans = []  # (boxes, lo, hi)
    if ctx.thorough:
        plans.append((proper_boxes(4), -2, 6))
        big = [b for b in proper_boxes(6) if b[0] + b[2] > 4 or b[1] + b[3] > 4]
        plans.append((ctx.rng.sample(big, 16), -2, 8))
    else:
        plans.append((proper_boxes(3), -1, 4))
    combos = [("oblique", False), ("manhattan", False), ("manhattan", True), ("tree", False), ("tree", True)]
    n_cases = 0
    for boxes, lo, hi in plans:
        pts = [(x, y) for x in range(lo, hi + 1) for y in range(lo, hi + 1)]
        reqs, metas = [], []
        for box in boxes:
            for style, port in combos:
                reqs.append({"op": "snap.grid", "box": list(box), "lo": lo, "hi": hi, "style": style, "port": port})
                metas.append((box, style, port))
        answers = [] if os.environ.get("VERIF_NO_MODEL") == "1" else common.model(reqs, driver="Geom")
        for k, (box, style, port) in enumerate(metas):
            grid = answers[k].get("ok") if answers else None
            if answers and grid is None:
                out.disagree("snap.grid", [box, style, port], None, answers[k])
            i = 0
            cx2, cy2 = 2 * box[0] + box[2], 2 * box[1] + box[3]
            for p in pts:
                inside_strict = box[0] < p[0] < box[0] + box[2] and box[1] < p[1] < box[1] + box[3]
                for s in pts:
                    res = impl_snap(diagram, box, port, p, s, style)
                    sig = classify_snap(box, p, s, style, res)
                    if sig:
                        out.find(sig, f"Box({box[:2]}, {box[2:]}{', port=True' if port else ''}).vector_snap({p}, source={s}, "
                                      f"style={style}) -> {res[1]}",
                                 {"kind": "snap", "box": list(box), "port": port, "p": list(p), "s": list(s), "style": style})
                        out.hit("monitor:" + sig.split("|", 1)[1])
                    if grid is not None:
                        compare_snap(out, "snap.lattice", [list(box), port, list(p), list(s), style], res, grid[i])
                    i += 1
                    n_cases += 1
                    generic = inside_strict and p != s and (2 * s[0] - cx2) * (2 * s[1] - cy2) != 0
                    out.evaluations += 1
                    if not generic:
                        out.distinct.bulk += 1
            out.traces_validated += len(pts) ** 2 if grid is not None else 0
    out.samples.append({"stream": "snap.lattice", "cases": n_cases, "example": {"box": [0, 0, 2, 2], "p": [1, 1], "s": [-1, -1], "style": "oblique"}})
    out.extra["lattice_cases"] = n_cases


DY = [1, 2, 4, 8, 16]


def dyadic(rng, lo=-64, hi=64) -> F:
    d = rng.choice(DY)
    return F(rng.randint(lo * d, hi * d), d)


def structured_cases(ctx: Ctx) -> list[dict]:
    """dyadic-rational boxes; points/sources placed on every boundary the code distinguishes"""
    rng = ctx.rng
    cases = []
    for _ in range(ctx.pick(150, 1500)):
        bx, by = dyadic(rng), dyadic(rng)
        bw, bh = abs(dyadic(rng, 0, 40)) + F(1, rng.choice(DY)), abs(dyadic(rng, 0, 40)) + F(1, rng.choice(DY))
        cx, cy = bx + bw / 2, by + bh / 2
        corners = [(bx, by), (bx + bw, by), (bx, by + bh), (bx + bw, by + bh)]
        t = F(rng.randint(0, 16), 16)
        special_pts = corners + [(cx, cy), (bx + t * bw, by), (bx, by + t * bh), (bx + bw, by + t * bh), (bx + t * bw, by + bh),
                                 (bx + t * bw, by + (1 - t) * bh), (bx - dyadic(rng, 0, 8), cy), (cx, by + bh + dyadic(rng, 0, 8)),
                                 (dyadic(rng), dyadic(rng)), (bx + bw + 1, by - 1)]
        for p in rng.sample(special_pts, 5):
            inside = bx <= p[0] <= bx + bw and by <= p[1] <= by + bh
            e = p if inside else (cx, cy)
            k = F(rng.choice([-3, -2, -1, 1, 2, 3, 5]), rng.choice([1, 2, 4]))
            srcs = [p, (cx, cy), (dyadic(rng), dyadic(rng)), (e[0] + k, e[1]), (e[0], e[1] + k), (e[0] + k, e[1] + k), (e[0] + k, e[1] - k)]
            for c in corners:  # aimed through a corner, from both sides
                srcs.append((e[0] + k * (c[0] - e[0]), e[1] + k * (c[1] - e[1])))
            # on the diagonals through the centre (ties of the closest snap)
            srcs.append((cx + k * bw, cy + k * bh))
            srcs.append((cx + k * bw, cy - k * bh))
            for s in rng.sample(srcs, 6):
                for style in STYLES:
                    for port in ((False, True) if style != "oblique" else (False,)):
                        cases.append({"box": [bx, by, bw, bh], "port": port, "p": list(p), "s": list(s), "style": style, "gen": "dyadic"})
                # source=None path of vector_snap == source = point
                cases.append({"box": [bx, by, bw, bh], "port": False, "p": list(s), "s": list(s), "style": "oblique", "gen": "dyadic-closest"})
    return cases


def generic_cases(ctx: Ctx) -> list[dict]:
    """real-valued (binary64) inputs in general position; the model receives the exact value of each float"""
    rng = ctx.rng
    cases = []
    for _ in range(ctx.pick(2000, 20000)):
        scale = rng.choice([1.0, 10.0, 1000.0, 1e5])
        bx, by = rng.uniform(-scale, scale), rng.uniform(-scale, scale)
        bw, bh = rng.uniform(0.01, 1) * scale, rng.uniform(0.01, 1) * scale
        p = (bx + rng.uniform(-0.5, 1.5) * bw, by + rng.uniform(-0.5, 1.5) * bh)
        s = (bx + rng.uniform(-2, 3) * bw, by + rng.uniform(-2, 3) * bh)
        if rng.random() < 0.15:
            s = p
        style = rng.choice(STYLES)
        cases.append({"box": [bx, by, bw, bh], "port": rng.random() < 0.3 and style != "oblique", "p": list(p), "s": list(s), "style": style, "gen": "real"})
    # aimed at a corner up to rounding: both candidate borders are hit within an ulp of their end
    # (the float code used to find two intersections, or none)
    for _ in range(ctx.pick(400, 4000)):
        scale = rng.choice([1.0, 10.0, 1000.0, 1e5])
        bx, by = rng.uniform(-scale, scale), rng.uniform(-scale, scale)
        bw, bh = rng.uniform(0.01, 1) * scale, rng.uniform(0.01, 1) * scale
        cx, cy = rng.choice([(bx, by), (bx + bw, by), (bx, by + bh), (bx + bw, by + bh)])
        p = (bx + rng.random() * bw, by + rng.random() * bh) if rng.random() < 0.5 else (bx + bw / 2, by + bh / 2)
        k = rng.choice([0.5, 1, 2, 3, 0.1, 7])
        s = (cx + k * (cx - p[0]), cy + k * (cy - p[1]))
        cases.append({"box": [bx, by, bw, bh], "port": False, "p": list(p), "s": list(s), "style": "oblique", "gen": "real-corner"})
    return cases


def boundary_cases(ctx: Ctx) -> list[dict]:
    """exhaustive boundary lattice at several magnitudes: for every scale 2^k and offset, the box (o, o, 2m, 4m) and all
    (point, source) pairs from its 3x3 grid of corners / side midpoints / centre plus the 8 surrounding outside positions
    and the 4 points on the diagonals through the centre (ties of the closest snap) - all exactly representable"""
    cases = []
    # (the smallest scale was 2^-20 until /repo 47523e4: a box of 2e-6 px is smaller than the absolute tolerance 1e-6 the code has had in its
    # closing assertion since d4d6819 and in its containment test since 47523e4 - lattice points then fall INTO the band; 1e-6 px is the code's
    # resolution by design, the lattice stays above it)
    scales = [F(1, 1024), F(1), F(1024)] + ([F(1, 2**16), F(2**20)] if ctx.thorough else [])
    offsets = [F(0), F(-(2**20))] + ([F(2**20), F(2**30)] if ctx.thorough else [])
    for m in scales:
        for o in offsets:
            if abs(o) / m > 2**24:
                continue  # binary64 cannot hold the products of line_intersect exactly beyond that (observed: a box 2^30 times
                # smaller than its distance from the origin is missed by its own size; float conditioning, not modelled)
            bx, by, bw, bh = o, o - m, 2 * m, 4 * m
            xs = [bx - m, bx, bx + bw / 2, bx + bw, bx + bw + m]
            ys = [by - m, by, by + bh / 2, by + bh, by + bh + m]
            pts = [(x, y) for x in xs for y in ys]
            pts += [(bx + bw / 2 + k * bw, by + bh / 2 + k2 * bh) for k in (-1, 1) for k2 in (-1, 1)]  # on the diagonals, outside
            for p in pts:
                for s_ in pts:
                    for style in STYLES:
                        for port in ((False, True) if style != "oblique" else (False,)):
                            cases.append({"box": [bx, by, bw, bh], "port": port, "p": list(p), "s": list(s_), "style": style, "gen": "boundary"})
    return cases


def kernel_random(ctx: Ctx, out: Outcome, diagram) -> None:
    cases = structured_cases(ctx) + generic_cases(ctx) + boundary_cases(ctx)
    reqs = [{"op": "snap", "box": [q(v) for v in c["box"]], "port": c["port"], "p": [q(v) for v in c["p"]],
             "s": [q(v) for v in c["s"]], "style": c["style"]} for c in cases]
    answers = [] if os.environ.get("VERIF_NO_MODEL") == "1" else common.model(reqs, driver="Geom")
    for k, c in enumerate(cases):
        fl = lambda v: float(v) if isinstance(v, F) else v  # noqa: E731  (dyadic: exact conversion)
        box = [fl(v) for v in c["box"]]
        p = [fl(v) for v in c["p"]]
        s = [fl(v) for v in c["s"]]
        res = impl_snap(diagram, box, c["port"], p, s, c["style"])
        sig = classify_snap(c["box"], c["p"], c["s"], c["style"], res)
        rep = {"kind": "snap", "box": [str(F(v)) for v in c["box"]], "port": c["port"], "p": [str(F(v)) for v in c["p"]],
               "s": [str(F(v)) for v in c["s"]], "style": c["style"]}
        if sig:
            out.find(sig, f"Box({box[:2]}, {box[2:]}{', port=True' if c['port'] else ''}).vector_snap({p}, source={s}, style={c['style']}) -> {res[1]}", rep)
            out.hit("monitor:" + sig.split("|", 1)[1])
        if answers:
            compare_snap(out, "snap." + c["gen"], [rep["box"], c["port"], rep["p"], rep["s"], c["style"]], res, answers[k])
            out.traces_validated += 1
        out.case(("snap", tuple(rep["box"]), c["port"], tuple(rep["p"]), tuple(rep["s"]), c["style"]),
                 rep if k % 997 == 0 else None, nontrivial=c["gen"] != "real" or tuple(c["p"]) == tuple(c["s"]))
        out.hit("gen:" + c["gen"])
    out.extra["random_cases"] = {"dyadic": sum(1 for c in cases if c["gen"].startswith("dyadic")), "real": sum(1 for c in cases if c["gen"] == "real"),
                                  "boundary": sum(1 for c in cases if c["gen"] == "boundary"),
                                  "real-corner": sum(1 for c in cases if c["gen"] == "real-corner")}


def kernel_misc(ctx: Ctx, out: Outcome, diagram) -> None:
    """snap_to_parent, boxsnap, line_intersect, closestaxis, bounds, viewport, Edge.vector_snap, route_*"""
    rng = ctx.rng
    V = diagram.Vector2D
    reqs: list[dict] = []
    checks: list = []  # (stream, case, impl value, comparer)

    def add(stream, case, req, implval, kind):
        reqs.append(req)
        checks.append((stream, case, implval, kind))

    n = ctx.pick(300, 3000)
    small = lambda: F(rng.randint(-40, 40), rng.choice([1, 2, 4]))  # noqa: E731
    pos = lambda: F(rng.randint(1, 80), rng.choice([1, 2, 4]))  # noqa: E731
    fl = float

    # --- snap_to_parent, port branch
    for i in range(n):
        px, py, pw, ph = small(), small(), pos() + 8, pos() + 8
        cw, ch = rng.choice([(F(10), F(10)), (F(10), F(10)), (pos() + 2, pos() + 2), (F(4), F(6)), (F(2), F(2))])
        if not (pw + 4 > cw and ph + 4 > ch):
            continue  # mid box without positive width and height: outside the modelled domain
        where = rng.choice(["in", "out", "border", "centre", "diag"])
        if where == "centre":
            mx, my = px + pw / 2, py + ph / 2
        elif where == "diag":
            k = F(rng.randint(-6, 6), 4)
            mx, my = px + pw / 2 + k * (pw - cw + 4), py + ph / 2 + rng.choice([1, -1]) * k * (ph - ch + 4)
        elif where == "border":
            mx, my = px + rng.choice([0, pw]), py + F(rng.randint(0, 8), 8) * ph
        elif where == "in":
            mx, my = px + F(rng.randint(0, 16), 16) * pw, py + F(rng.randint(0, 16), 16) * ph
        else:
            mx, my = px + small(), py + small()
        cx, cy = mx - cw / 2, my - ch / 2
        parent = diagram.Box((fl(px), fl(py)), (fl(pw), fl(ph)))
        try:
            child = diagram.Box((fl(cx), fl(cy)), (fl(cw), fl(ch)), port=True, parent=parent)
            res = ("r", (child.pos.x, child.pos.y))
        except (AssertionError, ValueError) as e:
            res = ("e", err_kind(e))
        case = [str(v) for v in (px, py, pw, ph, cx, cy, cw, ch)]
        if res[0] == "e":
            out.find(f"Box.snap_to_parent|port|raises|{res[1]}", f"port {case[4:]} in parent {case[:4]}: {res[1]}", {"kind": "port", "v": case})
        elif not port_attached(px, py, pw, ph, F(res[1][0]), F(res[1][1]), cw, ch, F(1, 10**8)):
            out.find("Box.snap_to_parent|port|not-on-border", f"port {case[4:]} in parent {case[:4]} ends at {res[1]}, not attached", {"kind": "port", "v": case})
        add("snapPort", case, {"op": "snapPort", "parent": [q(v) for v in (px, py, pw, ph)], "child": [q(v) for v in (cx, cy, cw, ch)], "overhang": 2}, res, "snap")
        out.case(("port", *case), {"stream": "snapPort", "case": case} if i == 0 else None, nontrivial=where != "in")

    # --- snap_to_parent, child branch
    for i in range(n):
        px, py, pw, ph = small(), small(), pos(), pos()
        cx, cy, cw, ch = px + small() / 4, py + small() / 4, rng.choice([F(0), pos(), pos()]), rng.choice([F(0), pos(), pos()])
        if cw == 0 or ch == 0:
            continue  # automatic sizes depend on text extents (not modelled)
        parent = diagram.Box((fl(px), fl(py)), (fl(pw), fl(ph)))
        child = diagram.Box((fl(cx), fl(cy)), (fl(cw), fl(ch)), parent=parent)
        res = [child.pos.x, child.pos.y, child._size.x, child._size.y]
        case = [str(v) for v in (px, py, pw, ph, cx, cy, cw, ch)]
        # monitor: padding of CHILD_MARGIN on the top/left, and no overflow when a size is left
        if F(res[0]) < px + 2 or F(res[1]) < py + 2 or (res[2] > 0 and F(res[0]) + F(res[2]) > px + pw - 2) or (res[3] > 0 and F(res[1]) + F(res[3]) > py + ph - 2):
            out.find("Box.snap_to_parent|child|overflows-parent", f"child {case[4:]} in parent {case[:4]} -> {res}", {"kind": "child", "v": case})
        add("snapChild", case, {"op": "snapChild", "parent": [q(v) for v in (px, py, pw, ph)], "child": [q(v) for v in (cx, cy, cw, ch)],
                                "raw": [q(cw), q(ch)], "margin": 2}, res, "child")
        out.case(("child", *case), nontrivial=True)

    # --- boxsnap / line_intersect / closestaxis
    for i in range(n):
        a, b, c, d, e, f = (small() for _ in range(6))
        if rng.random() < 0.3:
            e, f = rng.choice([(a, F(rng.randint(-40, 40))), (min(a, c) + abs(a - c) / 2, min(b, d) + abs(b - d) / 2), (a, b), (c, d)])
        r = V(fl(e), fl(f)).boxsnap((fl(a), fl(b)), (fl(c), fl(d)))
        case = [str(v) for v in (e, f, a, b, c, d)]
        lo_x, hi_x, lo_y, hi_y = min(a, c), max(a, c), min(b, d), max(b, d)
        if not on_outline(lo_x, lo_y, hi_x - lo_x, hi_y - lo_y, F(r.x), F(r.y)):
            out.find("Vector2D.boxsnap|off-outline", f"({e},{f}).boxsnap(({a},{b}),({c},{d})) -> {tuple(r)}", {"kind": "boxsnap", "v": case})
        add("boxsnap", case, {"op": "boxsnap", "p": [q(e), q(f)], "c1": [q(a), q(b)], "c2": [q(c), q(d)]}, ("r", (r.x, r.y)), "vec")
        out.case(("boxsnap", *case), nontrivial=True)
        pts = [(small(), small()) for _ in range(4)]
        if rng.random() < 0.2:
            pts[3] = (pts[2][0] + (pts[1][0] - pts[0][0]) * 2, pts[2][1] + (pts[1][1] - pts[0][1]) * 2)  # parallel
        try:
            r = diagram.line_intersect(((fl(pts[0][0]), fl(pts[0][1])), (fl(pts[1][0]), fl(pts[1][1]))),
                                       ((fl(pts[2][0]), fl(pts[2][1])), (fl(pts[3][0]), fl(pts[3][1]))))
            res = ("r", (r.x, r.y))
        except ValueError as ex:
            res = ("e", err_kind(ex))
        add("intersect", [[str(x), str(y)] for x, y in pts], {"op": "intersect", "pts": [[q(x), q(y)] for x, y in pts]}, res, "snap")
        out.case(("intersect", *[str(v) for pt in pts for v in pt]), nontrivial=True)
        dx, dy = rng.choice([(a, b), (a, a), (a, -a), (F(0), b), (a, F(0)), (F(0), F(0))])
        r = V(fl(dx), fl(dy)).closestaxis()
        add("closestaxis", [str(dx), str(dy)], {"op": "closestaxis", "d": [q(dx), q(dy)]}, ("r", (r.x, r.y)), "vec")
        if (r.x, r.y) not in ((1, 0), (-1, 0), (0, 1), (0, -1)):
            out.find("Vector2D.closestaxis|not-a-unit-axis", f"({dx},{dy}).closestaxis() -> {tuple(r)}", {"kind": "closestaxis", "v": [str(dx), str(dy)]})
        out.case(("closestaxis", str(dx), str(dy)), nontrivial=True)

    # --- bounds / viewport
    for i in range(n // 3):
        def rbox():
            return (small(), small(), pos(), pos())
        b0 = rbox()
        labels = [rbox() for _ in range(rng.randint(0, 3))]
        bx = diagram.Box((fl(b0[0]), fl(b0[1])), (fl(b0[2]), fl(b0[3])),
                         floating_labels=[diagram.Box((fl(l[0]), fl(l[1])), (fl(l[2]), fl(l[3]))) for l in labels])
        bb = bx.bounds
        add("boxBounds", [list(map(str, b0)), [list(map(str, l)) for l in labels]],
            {"op": "boxBounds", "box": [q(v) for v in b0], "labels": [[q(v) for v in l] for l in labels]},
            [bb.pos.x, bb.pos.y, bb.pos.x + bb.size.x, bb.pos.y + bb.size.y], "rect")
        pts = [(small(), small()) for _ in range(rng.randint(2, 5))]
        elabels = [rbox() for _ in range(rng.randint(0, 2))]
        ed = diagram.Edge([(fl(x), fl(y)) for x, y in pts], labels=[diagram.Box((fl(l[0]), fl(l[1])), (fl(l[2]), fl(l[3]))) for l in elabels])
        eb = ed.bounds
        add("edgeBounds", [[list(map(str, pt)) for pt in pts], [list(map(str, l)) for l in elabels]],
            {"op": "edgeBounds", "points": [[q(x), q(y)] for x, y in pts], "labels": [[q(v) for v in l] for l in elabels]},
            [eb.pos.x, eb.pos.y, eb.pos.x + eb.size.x, eb.pos.y + eb.size.y], "rect")
        # viewport over a mixed element list, some hidden; the same list again translated so that its extent touches the
        # coordinate axes (top-left corner on the origin / bottom-right corner on the origin): a running extreme of
        # exactly 0 is a boundary of its own (falsy in Python)
        spec = []
        for k in range(rng.randint(1, 6)):
            hidden = rng.random() < 0.25
            if rng.random() < 0.6:
                r0 = rbox()
                spec.append(("b", k, hidden, [fl(v) for v in r0]))
            else:
                pp = [(small(), small()) for _ in range(rng.randint(2, 4))]
                spec.append(("e", k, hidden, [(fl(x), fl(y)) for x, y in pp]))

        def viewport_of(dx: float, dy: float):
            elems, rects = [], []
            for t_, k, hidden, g in spec:
                if t_ == "b":
                    el = diagram.Box((g[0] + dx, g[1] + dy), (g[2], g[3]), uuid=f"b{k}", hidden=hidden)
                else:
                    el = diagram.Edge([(x + dx, y + dy) for x, y in g], uuid=f"e{k}", hidden=hidden)
                elems.append(el)
                if not hidden:
                    b = el.bounds
                    rects.append([F(b.pos.x), F(b.pos.y), F(b.pos.x) + F(b.size.x), F(b.pos.y) + F(b.size.y)])
            dg = diagram.Diagram("t")
            for el in elems:
                dg.add_element(el, False)
            dg.calculate_viewport()
            return elems, rects, dg.viewport

        shifts = [(0.0, 0.0)]
        _e0, _r0, vp0 = viewport_of(0.0, 0.0)
        if _r0:
            shifts += [(-vp0.pos.x, -vp0.pos.y), (-(vp0.pos.x + vp0.size.x), -(vp0.pos.y + vp0.size.y)), (-vp0.pos.x, -(vp0.pos.y + vp0.size.y))]
        for si, (dx, dy) in enumerate(shifts):
            elems, rects, vp = viewport_of(dx, dy)
            vis = [e for e in elems if not e.hidden]
            if not vis:
                continue
            out.hit("viewport:" + ("as-generated" if si == 0 else "extent-touches-axes"))
            for el in vis:
                b = el.bounds
                if not (vp.pos.x <= b.pos.x and vp.pos.y <= b.pos.y and b.pos.x + b.size.x <= vp.pos.x + vp.size.x and b.pos.y + b.size.y <= vp.pos.y + vp.size.y):
                    out.find("Diagram.calculate_viewport|element-outside", f"viewport {vp.pos},{vp.size} misses {b.pos},{b.size}", {"kind": "viewport", "rects": [[str(v) for v in r] for r in rects]})
            add("viewport", [[str(v) for v in r] for r in rects], {"op": "viewport", "rects": [[q(v) for v in r] for r in rects]},
                [vp.pos.x, vp.pos.y, vp.pos.x + vp.size.x, vp.pos.y + vp.size.y], "rect")
        out.case(("bounds", i, str(b0)), nontrivial=True)

    # --- Edge.vector_snap
    for i in range(n // 2):
        pts = [(small(), small()) for _ in range(rng.randint(2, 5))]
        if rng.random() < 0.1:
            pts.insert(1, pts[0])  # zero-length segment
        v = rng.choice([(small(), small()), pts[0], pts[-1], ((pts[0][0] + pts[1][0]) / 2, (pts[0][1] + pts[1][1]) / 2)])
        ed = diagram.Edge([(fl(x), fl(y)) for x, y in pts])
        try:
            r = ed.vector_snap((fl(v[0]), fl(v[1])), source=(0, 0))
            res = ("r", (r.x, r.y))
        except ZeroDivisionError as ex:
            res = ("e", err_kind(ex))
        case = [[list(map(str, pt)) for pt in pts], list(map(str, v))]
        if res[0] == "r":
            # monitor: the answer lies on one of the segments
            fx, fy = F(res[1][0]), F(res[1][1])
            ok = False
            for (ax, ay), (bx_, by_) in zip(pts, pts[1:]):
                cr = (fx - ax) * (by_ - ay) - (fy - ay) * (bx_ - ax)
                inb = min(ax, bx_) - F(1, 10**8) <= fx <= max(ax, bx_) + F(1, 10**8) and min(ay, by_) - F(1, 10**8) <= fy <= max(ay, by_) + F(1, 10**8)
                if abs(float(cr)) <= 1e-7 * max(1.0, float(abs(bx_ - ax) + abs(by_ - ay))) and inb:
                    ok = True
            if not ok:
                out.find("Edge.vector_snap|off-edge", f"Edge({pts}).vector_snap({v}) -> {res[1]}", {"kind": "edgesnap", "v": case})
        add("edgeSnap", case, {"op": "edgeSnap", "points": [[q(x), q(y)] for x, y in pts], "v": [q(v[0]), q(v[1])]}, res, "snap")
        out.case(("edgesnap", str(case)), nontrivial=True)

    # --- default routes
    from capellambse.aird import _edge_factories as EF
    for i in range(n // 2):
        s0 = (small(), small(), pos(), pos())
        t0 = (small() * 3, small() * 3, pos(), pos())
        sp, tp = rng.random() < 0.3, rng.random() < 0.3
        sb = diagram.Box((fl(s0[0]), fl(s0[1])), (fl(s0[2]), fl(s0[3])), port=sp)
        tb = diagram.Box((fl(t0[0]), fl(t0[1])), (fl(t0[2]), fl(t0[3])), port=tp)
        for kind, fn in (("oblique", EF.route_oblique), ("manhattan", EF.route_manhattan), ("tree", EF.route_tree)):
            try:
                r = [(pt.x, pt.y) for pt in fn(sb, tb)]
            except (AssertionError, ValueError) as ex:
                r = ("e", err_kind(ex))
            add("route." + kind, [list(map(str, s0)), sp, list(map(str, t0)), tp],
                {"op": "route", "kind": kind, "source": [q(v) for v in s0], "target": [q(v) for v in t0], "sport": sp, "tport": tp}, r, "points")
            if kind == "manhattan" and isinstance(r, list):
                for (x, y), b0 in ((r[0], s0), (r[-1], t0)):
                    if not on_outline(*b0, F(x), F(y), F(1, 10**8)):
                        out.find("route_manhattan|end-off-outline", f"route_manhattan({s0},{t0}) -> {r}", {"kind": "route", "v": [list(map(str, s0)), sp, list(map(str, t0)), tp]})
        out.case(("route", str(s0), str(t0), sp, tp), nontrivial=True)

    if os.environ.get("VERIF_NO_MODEL") == "1":
        return
    answers = common.model(reqs, driver="Geom")
    for (stream, case, iv, kind), ans in zip(checks, answers):
        out.hit("misc:" + stream)
        out.traces_validated += 1
        if "err" in ans:
            out.disagree(stream, case, iv, ans)
            continue
        a = ans["ok"]
        if kind == "snap":
            compare_snap(out, stream, case, iv, ans)
        elif kind == "vec":
            if not vclose(iv[1], fr4(a)):
                out.disagree(stream, case, list(iv[1]), a)
        elif kind == "child":
            mp, ms = fr4(a[0]), fr4(a[1])
            if not (vclose(iv[:2], mp) and vclose(iv[2:], ms)):
                out.disagree(stream, case, iv, a)
        elif kind == "rect":
            if a is None or not all(close(x, F(m[0], m[1])) for x, m in zip(iv, a)):
                out.disagree(stream, case, iv, a)
        elif kind == "points":
            if isinstance(iv, tuple):
                if not (isinstance(a, dict) and a.get("e") == iv[1]):
                    out.disagree(stream, case, iv, a)
            elif isinstance(a, dict) or len(a) != len(iv) or not all(vclose(p, fr4(m)) for p, m in zip(iv, a)):
                out.disagree(stream, case, iv, a)


# ------------------------------------------------------------------ (a2) edge chain: generic_factory / snaptarget


class EdgeRig:
    """The real `aird._edge_factories.generic_factory` on a two-box diagram built from plain numbers: the stored
    layout goes through the same XML attributes the parser reads (`sourceAnchor/@id`, `bendpoints/@points`,
    `ownedStyle/@routingStyle`)."""

    def __init__(self, diagram):
        from lxml import etree

        from capellambse.aird import _common as C
        from capellambse.aird import _edge_factories as EF

        self.diagram, self.etree, self.C, self.EF = diagram, etree, C, EF

    def box(self, b, port, labels, uuid):
        d = self.diagram
        return d.Box((float(b[0]), float(b[1])), (float(b[2]), float(b[3])), uuid=uuid, port=port,
                     floating_labels=[d.Box((float(l[0]), float(l[1])), (float(l[2]), float(l[3]))) for l in labels])

    def edge(self, c, v=(0, 0)):
        """-> ('r', [(x, y), ...]) | ('e', kind); `v` translates both boxes and their labels"""
        mv = lambda b: (b[0] + v[0], b[1] + v[1], b[2], b[3])  # noqa: E731
        dg = self.diagram.Diagram("t")
        dg.add_element(self.box(mv(c["src"]), c["sport"], [mv(l) for l in c["slabels"]], "S"), False)
        dg.add_element(self.box(mv(c["tgt"]), c["tport"], [mv(l) for l in c["tlabels"]], "T"), False)
        de = self.etree.Element("edges", {"element": "E", "source": "S", "target": "T"})
        if c["anchor"] is not None:
            self.etree.SubElement(de, "sourceAnchor", {"id": f"({float(c['anchor'][0])!r}, {float(c['anchor'][1])!r})" + c.get("anchor_suffix", "")})
        bp = self.etree.SubElement(de, "bendpoints", {self.C.ATT_XMT: "notation:RelativeBendpoints"})
        if c["rel"] is not None:
            # the code reads the first two numbers of each item (source-relative); the other two are the target-relative pair
            bp.set("points", "$".join(f"[{x}, {y}, {x - 7}, {y + 3}]" for x, y in c["rel"]))
        dge = self.etree.Element("ownedDiagramElements")
        st = self.etree.SubElement(dge, "ownedStyle")
        if c["style"] != "oblique":
            st.set("routingStyle", c["style"])
        seb = self.C.SemanticElementBuilder(target_diagram=dg, diagram_tree=None, data_element=de, melodyloader=None, fragment=None,
                                            diag_element=dge, styleclass=None, melodyobjs=[])
        try:
            e = self.EF.generic_factory(seb)
        except (AssertionError, ValueError, ZeroDivisionError, IndexError) as ex:
            return ("e", err_kind(ex))
        return ("r", [(pt.x, pt.y) for pt in e])

    def snapend(self, c, v=(0, 0)):
        """the real `snaptarget` on a plain list of points; `c["pts"]` is outermost-first, `c["end"]` says which end
        of the list that is in the call (`first`: i=0, next_i=1; `last`: i=-1, next_i=-2)"""
        V = self.diagram.Vector2D
        b = c["box"]
        box = self.diagram.Box((float(b[0] + v[0]), float(b[1] + v[1])), (float(b[2]), float(b[3])), port=c["port"])
        pts = [V(float(x + v[0]), float(y + v[1])) for x, y in c["pts"]]
        if c["end"] == "last":
            pts.reverse()
        try:
            self.EF.snaptarget(pts, *((0, 1) if c["end"] == "first" else (-1, -2)), box, routingstyle=None if c["style"] == "oblique" else c["style"])
        except (AssertionError, ValueError, ZeroDivisionError, IndexError) as ex:
            return ("e", err_kind(ex))
        if c["end"] == "last":
            pts.reverse()
        return ("r", [(pt.x, pt.y) for pt in pts])


EDGE_BRANCHES = (
    ["pts:collapsed", "pts:stored", "route:oblique", "route:manhattan", "route:tree"]
    + [f"{end}.{t}" for end in ("tgt", "src") for t in (
        "obl:keep", "obl:resnap:third-point", "obl:resnap:two-points", "obl:zero-direction", "obl:snapped-onto-source",
        "man:aligned:h", "man:aligned:v", "man:projected:h", "man:projected:v", "man:h:direct", "man:h:bend", "man:v:direct", "man:v:bend",
        "tree:direct", "tree:bend")]
)
# arms of the model that exist for totality only: `rel = []` (the XML default supplies two points), error results of the
# snaps (excluded for proper boxes by `snap_total`), fewer than two points (`Edge.__init__` raises first)
EDGE_BRANCHES_UNREACHABLE = ["pts:none-stored", "pts:route-error", "obl:first-snap-error", "man:snap-error", "tree:snap-error", "end:too-few-points"]


def end_class(box, port, end_pt, style, inner, eq_source=None) -> str | None:
    """Monitor for one edge end: `end_pt` must lie on the outline of `box` (tree: on its top or bottom side).
    `inner` (the neighbouring point after snapping) / `eq_source` (end point == its neighbour before snapping, where
    the caller knows the input) only name the class of a failing input."""
    bx, by, bw, bh = (F(v) for v in box)
    x, y = F(end_pt[0]), F(end_pt[1])
    tol = TOL * max(1, abs(bx) + bw, abs(by) + bh)
    if style == "tree":
        if on_top_or_bottom(bx, by, bw, bh, x, y, tol):
            return None
        if eq_source or (eq_source is None and inner is not None and abs(F(inner[0]) - x) <= tol and abs(F(inner[1]) - y) <= tol):
            return "point-eq-source"  # (seen from outside: the inserted bend coincides with the end, `point -+ (1, 0)`)
        if port:
            return "port"
        if not (bx <= x <= bx + bw):
            return "point-x-outside-box"
        return "other"
    return None if on_outline(bx, by, bw, bh, x, y, tol) else "off-outline"


def pts_close(a, b, tol=TOL) -> bool:
    return len(a) == len(b) and all(vclose(p, m, tol) for p, m in zip(a, b))


def compare_points(out: Outcome, stream: str, case, res, ans, prefix: str) -> None:
    """correspondence for a list of points (edge chain); `ans` is the driver's answer object"""
    if "err" in ans:
        out.disagree(stream, case, res, ans)
        return
    a = ans["ok"]
    for t in a.get("br", []):
        out.hit(f"{prefix}:{t}")
    if "e" in a or res[0] == "e":
        if not ("e" in a and res[0] == "e" and a["e"] == res[1]):
            out.disagree(stream, case, res, a)
        return
    mp = [fr4(p) for p in a["pts"]]
    if len(mp) == len(res[1]) and all(exact(p, m) for p, m in zip(res[1], mp)):
        out.hit("agree:exact")
    elif pts_close(res[1], mp):
        out.hit("agree:within-1e-9")
    elif a.get("tie") or a.get("near"):
        out.hit(f"{prefix}:declared-tie-not-compared")
    else:
        out.disagree(stream, case, [list(p) for p in res[1]], [[str(m[0]), str(m[1])] for m in mp])


def edge_req(c) -> dict:
    anchor = c["anchor"] if c["anchor"] is not None else (F(1, 2), F(1, 2))
    rel = c["rel"] if c["rel"] is not None else [(0, 0), (0, 0)]
    return {"op": "edge", "src": [q(v) for v in c["src"]], "sport": c["sport"], "slabels": [[q(v) for v in l] for l in c["slabels"]],
            "tgt": [q(v) for v in c["tgt"]], "tport": c["tport"], "tlabels": [[q(v) for v in l] for l in c["tlabels"]],
            "anchor": [q(anchor[0]), q(anchor[1])], "rel": [[x, y] for x, y in rel], "style": c["style"]}


def edge_cases(ctx: Ctx) -> list[dict]:
    """inputs of `generic_factory` for an edge between two boxes; boxes on the integer / half-integer grid so that the
    decoded bend points can be placed exactly on the boundaries the code distinguishes"""
    rng = ctx.rng
    cases: list[dict] = []
    anchors = [(F(1, 2), F(1, 2)), (F(0), F(0)), (F(1), F(1)), (F(1, 4), F(3, 4)), (F(1, 2), F(0)), (F(3, 4), F(1, 2))]

    def rbox(port):
        if port:
            return (F(rng.randint(-60, 60)), F(rng.randint(-60, 60)), F(10), F(10))
        return (F(rng.randint(-60, 60)), F(rng.randint(-60, 60)), F(4 * rng.randint(1, 15)), F(4 * rng.randint(1, 12)))

    def special(b):
        """points that sit on the boundaries of the case distinctions around box b"""
        x, y, w, h = b
        t = F(rng.randint(0, 4), 4)
        k = rng.choice([1, 2, 5, 30])
        return [(x + w / 2, y + h / 2), (x, y), (x + w, y), (x, y + h), (x + w, y + h), (x + t * w, y), (x, y + t * h), (x + w, y + t * h),
                (x + t * w, y + h), (x + t * w, y + (1 - t) * h), (x - k, y + h / 2), (x + w + k, y + t * h), (x + t * w, y - k), (x + w / 2, y + h + k),
                (x - k, y - k), (x + w + k, y + h + k), (x + w + k, y - k), (x + rng.randint(-80, 80), y + rng.randint(-80, 80))]

    def rel_for(abs_pts, src, slabels, anchor):
        # refpos = bounds.pos + bounds.size @ anchor; stored numbers are integers: round what is asked for
        minx = min([src[0]] + [l[0] for l in slabels]); miny = min([src[1]] + [l[1] for l in slabels])
        maxx = max([src[0] + src[2]] + [l[0] + l[2] for l in slabels]); maxy = max([src[1] + src[3]] + [l[1] + l[3] for l in slabels])
        rx, ry = minx + (maxx - minx) * anchor[0], miny + (maxy - miny) * anchor[1]
        return [(math.floor(px - rx), math.floor(py - ry)) for px, py in abs_pts]

    for n in range(ctx.pick(1400, 14000)):
        sport, tport = rng.random() < 0.25, rng.random() < 0.25
        src, tgt = rbox(sport), rbox(tport)
        rel_pos = rng.choice(["any", "any", "same-centre", "aligned-x", "aligned-y", "overlap", "touch"])
        if rel_pos == "same-centre":
            tgt = (src[0] + src[2] / 2 - tgt[2] / 2, src[1] + src[3] / 2 - tgt[3] / 2, tgt[2], tgt[3])
        elif rel_pos == "aligned-x":
            tgt = (src[0] + src[2] / 2 - tgt[2] / 2, tgt[1], tgt[2], tgt[3])
        elif rel_pos == "aligned-y":
            tgt = (tgt[0], src[1] + src[3] / 2 - tgt[3] / 2, tgt[2], tgt[3])
        elif rel_pos == "overlap":
            tgt = (src[0] + src[2] / 2, src[1] + src[3] / 4, tgt[2], tgt[3])
        elif rel_pos == "touch":
            tgt = (src[0] + src[2], src[1], tgt[2], tgt[3])
        slabels = [(src[0] - rng.randint(0, 30), src[1] + rng.randint(-20, 20), F(rng.randint(1, 40)), F(rng.randint(1, 12)))] if rng.random() < 0.3 else []
        tlabels = [(tgt[0] + rng.randint(-30, 30), tgt[1] - rng.randint(0, 20), F(rng.randint(1, 40)), F(rng.randint(1, 12)))] if rng.random() < 0.2 else []
        anchor = rng.choice(anchors) if rng.random() < 0.85 else None
        an = anchor or (F(1, 2), F(1, 2))
        style = STYLES[n % 3]
        kind = rng.choice(["default", "single", "all-equal", "general", "boundary", "boundary", "boundary", "two-point"])
        if kind == "default":
            rel = None
        elif kind == "single":
            rel = [(rng.randint(-50, 50), rng.randint(-50, 50))]
        elif kind == "all-equal":
            rel = [(rng.randint(-50, 50), rng.randint(-50, 50))] * rng.randint(2, 4)
        elif kind == "general":
            rel = [(rng.randint(-120, 120), rng.randint(-120, 120)) for _ in range(rng.randint(2, 6))]
        else:
            sp, tp = special(src), special(tgt)
            first, last = rng.choice(sp), rng.choice(tp)
            if kind == "two-point":
                pts = [first, last]
            else:
                second = rng.choice([rng.choice(sp), (first[0], first[1] + rng.choice([-30, 30])), (first[0] + rng.choice([-30, 30]), first[1]), first,
                                     (src[0] + src[2] / 2, src[1] + src[3] / 2)])
                prelast = rng.choice([rng.choice(tp), (last[0], last[1] + rng.choice([-30, 30, 1])), (last[0] + rng.choice([-30, 30, 1]), last[1]), last,
                                      (tgt[0] + tgt[2] / 2, tgt[1] + tgt[3] / 2), (last[0] + 25, last[1] + rng.choice([-2, 0, 3]))])
                pts = rng.choice([[first, second, prelast, last], [first, prelast, last], [first, second, last]])
            rel = rel_for(pts, src, slabels, an)
        cases.append({"src": src, "sport": sport, "slabels": slabels, "tgt": tgt, "tport": tport, "tlabels": tlabels, "anchor": anchor,
                      "anchor_suffix": " custom" if rng.random() < 0.1 else "", "rel": rel, "style": style, "gen": kind, "pos": rel_pos})
    return cases


def case_json(c: dict) -> dict:
    """replayable form of an edge / snap-end case (exact numbers as strings)"""
    def enc(v):
        if isinstance(v, F):
            return str(v)
        if isinstance(v, (list, tuple)):
            return [enc(x) for x in v]
        return v
    return {k: enc(v) for k, v in c.items()}


def case_unjson(c: dict) -> dict:
    def dec(v):
        if isinstance(v, str) and v and (v[0].isdigit() or v[0] == "-"):
            return F(v)
        if isinstance(v, list):
            return [dec(x) for x in v]
        return v
    return {k: (dec(v) if k in ("src", "tgt", "slabels", "tlabels", "anchor", "box", "pts", "v", "c", "r", "vector", "source") else v) for k, v in c.items()}


def edge_monitor(rig: EdgeRig, c: dict, res, v) -> list[tuple[str, str]]:
    """the statement on one `generic_factory` result: no exception, finite, both ends on the outline of what they
    connect (tree: top/bottom side), and the same edge translated by `v` when both boxes are translated by `v`"""
    st = c["style"]
    if res[0] == "e":
        return [(f"generic_factory|{st}|raises|{res[1]}", f"generic_factory raised {res[1]}")]
    pts = res[1]
    bad = []
    if any(not math.isfinite(cc) for p in pts for cc in p):
        return [(f"generic_factory|{st}|non-finite", f"points {pts}")]
    if len(pts) < 2:
        return [(f"generic_factory|{st}|fewer-than-two-points", f"points {pts}")]
    for which, box, port, seq in (("source", c["src"], c["sport"], pts), ("target", c["tgt"], c["tport"], pts[::-1])):
        cls = end_class(box, port, seq[0], st, seq[1])
        if cls is not None:
            sig = f"generic_factory|tree|end-off-side|{cls}" if st == "tree" else f"generic_factory|{st}|end-off-outline"
            bad.append((sig, f"{which} end {seq[0]} of {pts} not on the {'top/bottom side' if st == 'tree' else 'outline'} of "
                             f"{[str(x) for x in box]}{' (port)' if port else ''}"))
    moved = rig.edge(c, v)
    if moved[0] == "e":
        bad.append((f"generic_factory|{st}|translated|raises|{moved[1]}", f"translated by {v}: raised {moved[1]}"))
    elif not (len(moved[1]) == len(pts) and all(abs(F(a[0]) + v[0] - F(b[0])) <= PTOL and abs(F(a[1]) + v[1] - F(b[1])) <= PTOL for a, b in zip(pts, moved[1]))):
        bad.append((f"generic_factory|{st}|translated|not-equivariant", f"{pts} translated by {v} became {moved[1]}"))
    return bad


def snapend_cases(ctx: Ctx) -> list[dict]:
    """`snaptarget` on explicit points: an exhaustive small lattice (every relative position of end point, its
    neighbour and the box that the code distinguishes) and seeded dyadic cases; both ends of the list"""
    rng = ctx.rng
    cases = []
    combos = [("oblique", False), ("manhattan", False), ("manhattan", True), ("tree", False), ("tree", True)]
    boxes = [(F(0), F(0), F(2), F(2)), (F(1), F(0), F(2), F(1))] + ([(F(0), F(1), F(1), F(2)), (F(0), F(0), F(3), F(2))] if ctx.thorough else [])
    lo, hi = (-1, 3)
    grid = [(F(x), F(y)) for x in range(lo, hi + 1) for y in range(lo, hi + 1)]
    for b in boxes:
        for style, port in combos:
            for e in grid:
                for nx in grid:
                    third = rng.choice(grid)
                    for pts in ([e, nx], [e, nx, third]):
                        cases.append({"box": b, "port": port, "style": style, "pts": pts, "end": "first" if (len(cases) % 2 == 0) else "last", "gen": "lattice"})
    for _ in range(ctx.pick(1500, 15000)):
        b = (dyadic(rng), dyadic(rng), abs(dyadic(rng, 0, 40)) + F(1, rng.choice(DY)), abs(dyadic(rng, 0, 40)) + F(1, rng.choice(DY)))
        x, y, w, h = b
        t = F(rng.randint(0, 8), 8)
        sp = [(x + w / 2, y + h / 2), (x, y), (x + w, y + h), (x + t * w, y), (x + w, y + t * h), (x + t * w, y + (1 - t) * h), (x - dyadic(rng, 0, 9), y + t * h),
              (x + t * w, y + h + dyadic(rng, 0, 9)), (dyadic(rng), dyadic(rng)), (x + w + 3, y - 2)]
        e = rng.choice(sp)
        k = F(rng.choice([-9, -2, -1, 1, 2, 7]), rng.choice([1, 2, 4]))
        nx = rng.choice([e, (e[0] + k, e[1]), (e[0], e[1] + k), (e[0] + k, e[1] + k / 8), (e[0] + k / 8, e[1] - k), (x + w / 2, y + h / 2), (dyadic(rng), dyadic(rng)), rng.choice(sp)])
        pts = [e, nx] + [(dyadic(rng), dyadic(rng)) for _ in range(rng.randint(0, 3))]
        style, port = rng.choice(combos)
        cases.append({"box": b, "port": port, "style": style, "pts": pts, "end": rng.choice(["first", "last"]), "gen": "dyadic"})
    return cases


def snapend_monitor(rig: EdgeRig, c: dict, res, v) -> list[tuple[str, str]]:
    st = c["style"]
    if res[0] == "e":
        return [(f"snaptarget|{st}|raises|{res[1]}", f"snaptarget raised {res[1]}")]
    pts = res[1]
    if any(not math.isfinite(cc) for p in pts for cc in p):
        return [(f"snaptarget|{st}|non-finite", f"points {pts}")]
    bad = []
    n_in = len(c["pts"])
    if len(pts) not in (n_in, n_in + 1) or not pts_close(pts[len(pts) - n_in + 1:], [(F(a), F(b)) for a, b in c["pts"][1:]]):
        bad.append((f"snaptarget|{st}|changed-inner-points", f"{[tuple(map(str, p)) for p in c['pts']]} -> {pts}"))
    cls = end_class(c["box"], c["port"], pts[0], st, pts[1], eq_source=tuple(c["pts"][0]) == tuple(c["pts"][1]))
    if cls is not None:
        sig = f"snaptarget|tree|end-off-side|{cls}" if st == "tree" else f"snaptarget|{st}|end-off-outline"
        bad.append((sig, f"end {pts[0]} of {pts} not on the {'top/bottom side' if st == 'tree' else 'outline'} of {[str(x) for x in c['box']]}{' (port)' if c['port'] else ''}"))
    moved = rig.snapend(c, v)
    if moved[0] == "e":
        bad.append((f"snaptarget|{st}|translated|raises|{moved[1]}", f"translated by {v}: raised {moved[1]}"))
    elif not (len(moved[1]) == len(pts) and all(abs(F(a[0]) + v[0] - F(b[0])) <= PTOL and abs(F(a[1]) + v[1] - F(b[1])) <= PTOL for a, b in zip(pts, moved[1]))):
        bad.append((f"snaptarget|{st}|translated|not-equivariant", f"{pts} translated by {v} became {moved[1]}"))
    return bad


def edge_chain(ctx: Ctx, out: Outcome, diagram) -> None:
    rig = EdgeRig(diagram)
    rng = ctx.rng
    vecs = [(1, 0), (0, -1), (-10000, -10000), (7, 10000), (-3333, 4)]
    no_model = os.environ.get("VERIF_NO_MODEL") == "1"
    dist: dict[str, int] = {}
    # --- whole generic_factory
    cases = edge_cases(ctx)
    answers = [] if no_model else common.model([edge_req(c) for c in cases], driver="Geom")
    for k, c in enumerate(cases):
        res = rig.edge(c)
        v = vecs[k % len(vecs)] if k % 2 else (rng.randint(-10000, 10000), rng.randint(-10000, 10000))
        rep = {"kind": "edge", **case_json(c), "v": list(v)}
        for sig, what in edge_monitor(rig, c, res, v):
            out.find(sig, what, rep)
            out.hit("monitor:" + sig)
        if answers:
            compare_points(out, "edge." + c["style"], rep, res, answers[k], "edge")
            out.traces_validated += 1
        key = f"edge:{c['style']}:{c['gen']}:{'port' if c['sport'] or c['tport'] else 'box'}"
        dist[key] = dist.get(key, 0) + 1
        out.case(("edge", str(rep)), rep if k % 499 == 0 else None, nontrivial=c["gen"] != "general" or c["pos"] != "any")
    # --- one snaptarget call
    cases = snapend_cases(ctx)
    reqs = [{"op": "snapEnd", "box": [q(x) for x in c["box"]], "port": c["port"], "style": c["style"], "pts": [[q(a), q(b)] for a, b in c["pts"]]} for c in cases]
    answers = [] if no_model else common.model(reqs, driver="Geom")
    for k, c in enumerate(cases):
        res = rig.snapend(c)
        v = vecs[k % len(vecs)]
        rep = {"kind": "snapend", **case_json(c), "v": list(v)}
        for sig, what in snapend_monitor(rig, c, res, v):
            out.find(sig, what, rep)
            out.hit("monitor:" + sig)
        if answers:
            compare_points(out, "snapEnd." + c["style"], rep, res, answers[k], "snapEnd:" + ("src" if c["end"] == "first" else "tgt"))
            out.traces_validated += 1
        key = f"snapEnd:{c['style']}:{c['gen']}:{c['end']}:{len(c['pts'])}pts"
        dist[key] = dist.get(key, 0) + 1
        out.case(("snapend", str(rep)), rep if k % 4999 == 0 else None, nontrivial=True)
    out.extra["edge_chain_inputs"] = dict(sorted(dist.items()))
    if not no_model:
        hit = {b for b in out.branches if b.startswith("edge:")}
        hit2 = {b.split(":", 2)[2] for b in out.branches if b.startswith("snapEnd:")}
        out.extra["edge_chain_branches"] = {
            "generic_factory_stream": {"expected": len(EDGE_BRANCHES), "hit": sum(1 for b in EDGE_BRANCHES if "edge:" + b in hit),
                                       "missing": [b for b in EDGE_BRANCHES if "edge:" + b not in hit]},
            "snaptarget_stream": {"missing": sorted({b.split(".", 1)[1] for b in EDGE_BRANCHES if "." in b} - hit2)},
            "unreachable_arms": EDGE_BRANCHES_UNREACHABLE,
        }


# ------------------------------------------------------------------ (a2b) edges attached to edges


def edge_end_cases(ctx: Ctx) -> list[dict]:
    """inputs of `generic_factory` where the source and/or the target is another EDGE (integer grid; mostly axis-parallel
    polylines - `Edge.center` is modelled for those -, some with an oblique or a zero-length segment)"""
    rng = ctx.rng
    cases = []

    def poly():
        x, y = rng.randint(-60, 60), rng.randint(-60, 60)
        pts = [(F(x), F(y))]
        kind = rng.choice(["axis"] * 6 + ["oblique", "zero"])
        for k in range(rng.randint(1, 4)):
            step = rng.choice([4, 10, 30, -6, -20])
            if kind == "oblique" and k == 0:
                x, y = x + step, y + rng.choice([3, -7])
            elif kind == "zero" and k == 0:
                pass
            elif (k + (kind == "axis")) % 2:
                x += step
            else:
                y += step
            pts.append((F(x), F(y)))
        labels = [(F(rng.randint(-70, 70)), F(rng.randint(-70, 70)), F(rng.randint(1, 40)), F(rng.randint(1, 12)))] if rng.random() < 0.3 else []
        return {"edge": pts, "labels": labels}

    def box():
        port = rng.random() < 0.25
        b = (F(rng.randint(-60, 60)), F(rng.randint(-60, 60)), F(10) if port else F(4 * rng.randint(1, 15)), F(10) if port else F(4 * rng.randint(1, 12)))
        return {"box": b, "port": port, "labels": []}

    for n in range(ctx.pick(600, 6000)):
        which = rng.choice(["tgt", "tgt", "src", "both"])
        src = poly() if which in ("src", "both") else box()
        tgt = poly() if which in ("tgt", "both") else box()
        anchor = rng.choice([(F(1, 2), F(1, 2)), (F(0), F(0)), (F(1), F(1)), (F(1, 4), F(3, 4))])
        kind = rng.choice(["default", "default", "all-equal", "general", "general", "two-point"])
        rel = {"default": None, "all-equal": [(3, 4)] * 2, "two-point": [(rng.randint(-80, 80), rng.randint(-80, 80)) for _ in range(2)],
               "general": [(rng.randint(-120, 120), rng.randint(-120, 120)) for _ in range(rng.randint(2, 5))]}[kind]
        cases.append({"src": src, "tgt": tgt, "anchor": anchor, "rel": rel, "style": STYLES[n % 3], "gen": kind, "which": which})
    return cases


def impl_edge_end(rig: EdgeRig, c: dict, v=(0, 0)):
    d = rig.diagram
    dg = d.Diagram("t")

    def el(e, uuid):
        if "edge" in e:
            return d.Edge([(float(x + v[0]), float(y + v[1])) for x, y in e["edge"]], uuid=uuid,
                          labels=[d.Box((float(l[0] + v[0]), float(l[1] + v[1])), (float(l[2]), float(l[3]))) for l in e["labels"]])
        b = e["box"]
        return rig.box((b[0] + v[0], b[1] + v[1], b[2], b[3]), e["port"], [], uuid)

    try:
        dg.add_element(el(c["src"], "S"), False)
        dg.add_element(el(c["tgt"], "T"), False)
    except (ValueError, ZeroDivisionError) as ex:
        return ("e", err_kind(ex))
    de = rig.etree.Element("edges", {"element": "E", "source": "S", "target": "T"})
    rig.etree.SubElement(de, "sourceAnchor", {"id": f"({float(c['anchor'][0])!r}, {float(c['anchor'][1])!r})"})
    bp = rig.etree.SubElement(de, "bendpoints", {rig.C.ATT_XMT: "notation:RelativeBendpoints"})
    if c["rel"] is not None:
        bp.set("points", "$".join(f"[{x}, {y}, 0, 0]" for x, y in c["rel"]))
    dge = rig.etree.Element("ownedDiagramElements")
    st = rig.etree.SubElement(dge, "ownedStyle")
    if c["style"] != "oblique":
        st.set("routingStyle", c["style"])
    seb = rig.C.SemanticElementBuilder(target_diagram=dg, diagram_tree=None, data_element=de, melodyloader=None, fragment=None,
                                       diag_element=dge, styleclass=None, melodyobjs=[])
    try:
        e = rig.EF.generic_factory(seb)
    except (AssertionError, ValueError, ZeroDivisionError, IndexError) as ex:
        return ("e", err_kind(ex))
    return ("r", [(pt.x, pt.y) for pt in e])


def edge_ends(ctx: Ctx, out: Outcome, diagram) -> None:
    """correspondence + monitor for `generic_factory` with an Edge as source and/or target (`Model/GeomEdgeEnd.lean`)"""
    rig = EdgeRig(diagram)
    rng = ctx.rng
    cases = edge_end_cases(ctx)
    no_model = os.environ.get("VERIF_NO_MODEL") == "1"

    def enc(e):
        if "edge" in e:
            return {"edge": [[q(x), q(y)] for x, y in e["edge"]], "labels": [[q(x) for x in l] for l in e["labels"]]}
        return {"box": [q(x) for x in e["box"]], "port": e["port"], "labels": []}

    reqs = [{"op": "edgeE", "src": enc(c["src"]), "tgt": enc(c["tgt"]), "anchor": [q(c["anchor"][0]), q(c["anchor"][1])],
             "rel": [[x, y] for x, y in (c["rel"] if c["rel"] is not None else [(0, 0), (0, 0)])], "style": c["style"]} for c in cases]
    answers = [] if no_model else common.model(reqs, driver="Geom")
    dist: dict[str, int] = {}
    for k, c in enumerate(cases):
        res = impl_edge_end(rig, c)
        v = (rng.choice([1, -10000, 7, -3333, 65537]), rng.choice([0, -10000, 10000, 4, -32771]))
        rep = {"kind": "edgeend", "src": case_json(c["src"]), "tgt": case_json(c["tgt"]), "anchor": [str(a) for a in c["anchor"]], "rel": c["rel"], "style": c["style"], "v": list(v)}
        for sig, what in edge_end_monitor(rig, c, res, v):
            out.find(sig, what, rep)
            out.hit("monitor:" + sig)
        if answers:
            a = answers[k].get("ok", {})
            if a.get("e") == "degenerate":
                out.hit("endE:outside-model:centre-of-a-polyline-with-oblique-segments")  # Edge.center needs sqrt there; judged by the monitor only
                for t in a.get("br", []):
                    out.hit(t)
            else:
                compare_points(out, "edgeE." + c["style"], rep, res, answers[k], "edgeE")
            out.traces_validated += 1
        key = f"edgeE:{c['style']}:{c['gen']}:{c['which']}"
        dist[key] = dist.get(key, 0) + 1
        out.case(("edgeend", str(rep)), rep if k % 199 == 0 else None, nontrivial=True)
    out.extra["edge_end_inputs"] = dict(sorted(dist.items()))


def edge_end_monitor(rig: EdgeRig, c: dict, res, v) -> list[tuple[str, str]]:
    """the statement on one result: no exception other than the zero-length segment of the other edge, finite, a box end on
    the outline of its box (tree: top/bottom side), an end at an edge exactly where the stored bend points put it
    (`snaptarget` is not called there), and the same edge translated by `v` when both ends are translated by `v`"""
    st = c["style"]
    zero_seg = any(a == b for e in (c["src"], c["tgt"]) if "edge" in e for a, b in zip(e["edge"], e["edge"][1:]))
    if res[0] == "e":
        if res[1] == "zeroSegment" and zero_seg and c["rel"] in (None, [(3, 4)] * 2) and st != "tree":
            return []  # Edge.center / Edge.vector_snap of an edge with a zero-length segment (ZeroDivisionError of `normalized`): the other edge's defect, not this one's
        return [(f"generic_factory(edge-end)|{st}|raises|{res[1]}", f"generic_factory raised {res[1]}")]
    pts = res[1]
    if any(not math.isfinite(cc) for p in pts for cc in p) or len(pts) < 2:
        return [(f"generic_factory(edge-end)|{st}|non-finite-or-short", f"points {pts}")]
    bad = []
    stored = c["rel"] is not None and len(set(c["rel"])) > 1
    if stored:
        s_ = c["src"]
        if "edge" in s_:
            xs = [p[0] for p in s_["edge"]] + [l[0] for l in s_["labels"]] + [l[0] + l[2] for l in s_["labels"]]
            ys = [p[1] for p in s_["edge"]] + [l[1] for l in s_["labels"]] + [l[1] + l[3] for l in s_["labels"]]
        else:
            xs, ys = [s_["box"][0], s_["box"][0] + s_["box"][2]], [s_["box"][1], s_["box"][1] + s_["box"][3]]
        ref = (min(xs) + (max(xs) - min(xs)) * c["anchor"][0], min(ys) + (max(ys) - min(ys)) * c["anchor"][1])
        for which, e, got, r in (("source", c["src"], pts[0], c["rel"][0]), ("target", c["tgt"], pts[-1], c["rel"][-1])):
            if "edge" in e and not vclose(got, (ref[0] + r[0], ref[1] + r[1])):
                bad.append((f"generic_factory(edge-end)|{st}|end-at-edge-moved", f"{which} end {got} is not the stored point {(str(ref[0] + r[0]), str(ref[1] + r[1]))}"))
    for which, e, seq in (("source", c["src"], pts), ("target", c["tgt"], pts[::-1])):
        if "box" in e:
            cls = end_class(e["box"], e["port"], seq[0], st, seq[1])
            if cls is not None:
                sig = f"generic_factory|tree|end-off-side|{cls}" if st == "tree" else f"generic_factory(edge-end)|{st}|end-off-outline"
                bad.append((sig, f"{which} end {seq[0]} of {pts} not on the {'top/bottom side' if st == 'tree' else 'outline'} of {[str(x) for x in e['box']]}"))
    moved = impl_edge_end(rig, c, v)
    if moved[0] == "e":
        bad.append((f"generic_factory(edge-end)|{st}|translated|raises|{moved[1]}", f"translated by {v}: raised {moved[1]}"))
    elif not (len(moved[1]) == len(pts) and all(abs(F(a[0]) + v[0] - F(b[0])) <= PTOL and abs(F(a[1]) + v[1] - F(b[1])) <= PTOL for a, b in zip(pts, moved[1]))):
        bad.append((f"generic_factory(edge-end)|{st}|translated|not-equivariant", f"{pts} translated by {v} became {moved[1]}"))
    return bad


# ------------------------------------------------------------------ (a5) float-boundary robustness (boundary-directed)

ROBUST_CLASSES = {  # family -> class in Model/GeomSites.lean (checked against the driver's `sites` answer)
    "oblique:containment": "jumpTol", "oblique:direction-sign": "agree", "closest:diagonal": "agree",
    "oblique:along-border": "jump",
    "oblique:point-eq-source": "jump", "oblique:source-at-centre": "jump", "closest:source-at-centre": "jump",
    "manhattan:range-border": "jump", "manhattan:axis-tie": "jump", "tree:direction-level": "jump", "tree:zero-direction": "jump",
}
# declared jumps of the table that are exercised by other streams (lattices, kernel_misc, edge chain), not by this one
ROBUST_ELSEWHERE = ["edge-snap:equidistant-segments", "circle:centre", "boxsnap:equidistant-sides", "route-manhattan:dx-eq-dy",
                    "route-tree:centres-level", "snap_oblique:one-radian"]


def robust_bases(ctx: Ctx) -> list[dict]:
    """inputs placed EXACTLY on each comparison boundary (dyadic numbers: exact in both worlds)"""
    rng = ctx.rng
    out = []

    def add(fam, box, p, s, style, port=False, sub=""):
        if fam == "oblique:containment" and (p[0] - s[0]) * (p[1] - s[1]) == 0:
            return  # (coincident or axis-parallel to the end point: that is another family's boundary)
        out.append({"fam": fam, "sub": sub, "box": [float(v) for v in box], "port": port, "p": [float(p[0]), float(p[1])],
                    "s": [float(s[0]), float(s[1])], "style": style, "m": float(m), "far": abs(o) > 1024 * m})

    for _ in range(ctx.pick(24, 240)):
        m = F(2) ** rng.choice([-6, 0, 0, 3, 8])
        # offsets: line_intersect works with absolute determinants, its error grows like offset^2 * 2^-53 / (box size)^2; the far
        # offsets are only combined with boxes large enough to keep that below the 1e-6 of the code's own tolerance
        o = rng.choice([F(0), F(-1000), F(3)] + ([F(2**16) + 1, F(-40000)] if m >= 8 else [])) * (1 if m >= 1 else m)
        bx, by = o + m * rng.randint(-8, 8), o - m * rng.randint(-8, 8)
        bw, bh = m * rng.randint(1, 12), m * rng.randint(1, 12)
        box = (bx, by, bw, bh)
        cx, cy = bx + bw / 2, by + bh / 2
        t, u = F(rng.randint(0, 8), 8), F(rng.randint(1, 7), 8)
        ti = F(rng.randint(1, 7), 8)
        k = m * rng.choice([1, 2, 5])
        borders = [((bx + t * bw, by), (0, -1)), ((bx + t * bw, by + bh), (0, 1)), ((bx, by + t * bh), (-1, 0)), ((bx + bw, by + t * bh), (1, 0))]
        for (px, py), (nx, ny) in borders:
            src = (px + nx * k + ny * k * u, py + ny * k + nx * k * u)  # outside, beyond the border, slightly oblique
            add("oblique:containment", box, (px, py), src, "oblique", sub="on-border")
            add("oblique:containment", box, (px, py), (cx + nx * 3 * bw, cy + ny * 3 * bh - k * u), "oblique", sub="on-border")
            tol = 1e-6
            add("oblique:containment", box, (float(px) + nx * tol, float(py) + ny * tol), src, "oblique", sub="on-border+tol")
            # manhattan: the end point on the border line, approached ALONG that line (the range test of the other coordinate)
            along = (px + ny * k * 3 - nx * 0, py + nx * k * 3) if nx == 0 else (px, py)
            if ny != 0:
                add("manhattan:range-border", box, (px, py), (px + 3 * k, py), "manhattan", rng.random() < 0.3)
                add("manhattan:range-border", box, (px, py), (px - 3 * k, py + k / 4), "manhattan", rng.random() < 0.3)
            else:
                add("manhattan:range-border", box, (px, py), (px, py + 3 * k), "manhattan", rng.random() < 0.3)
                add("manhattan:range-border", box, (px, py), (px + k / 4, py - 3 * k), "manhattan", rng.random() < 0.3)
        pin = (bx + u * bw, by + ti * bh)
        add("oblique:direction-sign", box, pin, (pin[0], by - k), "oblique", sub="vertical")
        add("oblique:direction-sign", box, pin, (bx + bw + k, pin[1]), "oblique", sub="horizontal")
        add("oblique:along-border", box, (bx + u * bw, by + bh), (bx + bw + k, by + bh), "oblique")
        add("oblique:along-border", box, (bx, by + ti * bh), (bx, by - k), "oblique")
        for c in [(bx, by), (bx + bw, by), (bx, by + bh), (bx + bw, by + bh)]:
            add("oblique:direction-sign", box, (cx, cy), (c[0] + 2 * (c[0] - cx), c[1] + 2 * (c[1] - cy)), "oblique", sub="through-corner")
            kk = rng.choice([2, 3])
            # (the diagonal through the top-right corner was the declared jump `closest:diagonal-top-right` until /repo `alpha <= angle`)
            add("closest:diagonal", box, (cx + kk * (c[0] - cx), cy + kk * (c[1] - cy)), (cx + kk * (c[0] - cx), cy + kk * (c[1] - cy)), "oblique",
                sub="top-right" if c == (bx + bw, by) else "")
        add("oblique:point-eq-source", box, pin, pin, "oblique")
        add("oblique:source-at-centre", box, (bx - k, by - k * u), (cx, cy), "oblique")
        add("closest:source-at-centre", box, (cx, cy), (cx, cy), "oblique")
        for sg in (1, -1):
            add("manhattan:axis-tie", box, pin, (pin[0] + k, pin[1] + sg * k), "manhattan", rng.random() < 0.3)
        add("tree:direction-level", box, (pin[0], cy), (pin[0] + k, cy), "tree", rng.random() < 0.3)
        add("tree:direction-level", box, (pin[0], by), (pin[0] - k, by), "tree", sub="on-top-line")
        add("tree:zero-direction", box, pin, pin, "tree")
    return out


def robust_variants(c: dict) -> list[tuple[str, dict]]:
    """+-1 ulp on every coordinate of point and source; translation-induced rounding (vectors that make the boundary
    coordinate inexact: every operand is rounded on its own, so `p.y == pos.y + size.y` may break by an ulp)"""
    res = []
    coincide = c["fam"] in ("oblique:point-eq-source", "closest:source-at-centre", "tree:zero-direction", "oblique:source-at-centre")
    for key in ("p", "s"):
        if coincide and c["far"]:
            break  # two points one ulp apart, 2^10 box sizes away from the origin: beyond the conditioning of line_intersect (design/C17.md)
        for i in (0, 1):
            for d in (-math.inf, math.inf):
                v = dict(c)
                v[key] = list(c[key])
                v[key][i] = math.nextafter(c[key][i], d)
                if key == "s" and c["p"] == c["s"] and c["fam"] in ("closest:diagonal", "closest:source-at-centre"):
                    v["p"] = list(v["s"])  # families about `source=None`: point and source move together
                res.append((f"ulp:{key}{'xy'[i]}{'+' if d > 0 else '-'}", v))
    b = c["box"]
    if c["far"]:
        return res  # non-representable coordinates 2^10 box sizes away from the origin: beyond the conditioning of line_intersect (design/C17.md)
    mm = min(1.0, c["m"])
    for t in ((0.1 * mm, 0.7 * mm), (-mm / 3, 10000 * mm / 7), (-(b[0] + b[2]) + 0.3 * mm, -(b[1] + b[3]) - 0.1 * mm), (65537.1 * mm, -32771.3 * mm)):
        v = dict(c)
        v["box"] = [b[0] + t[0], b[1] + t[1], b[2], b[3]]
        v["p"] = [c["p"][0] + t[0], c["p"][1] + t[1]]
        v["s"] = [c["s"][0] + t[0], c["s"][1] + t[1]]
        v["t"] = t
        res.append(("translate", v))
    return res


def robustness(ctx: Ctx, out: Outcome, diagram) -> None:
    """Boundary-directed correspondence and robustness run: every base input sits exactly on a comparison boundary of the
    snap code; it and its perturbations go to the implementation and (with the exact value of every float) to the model.
    Families whose class says the branches agree (or that carry a tolerance) must be insensitive: a 1-ulp perturbation or a
    translation-induced rounding may move the result by at most 1e-6 (relative to the scale).  For the declared jumps the
    observed jump is recorded (non-vacuity of the declaration); soundness is judged on every variant."""
    no_model = os.environ.get("VERIF_NO_MODEL") == "1"
    bases = robust_bases(ctx)
    table = None
    if not no_model:
        table = common.model([{"op": "sites"}], driver="Geom")[0].get("ok")
        classes = {}
        for srow in table["sites"]:
            if srow["coord"]:
                kind, _, name = srow["class"].partition(":")
                classes.setdefault(name or kind, kind)
        out.extra["comparison_sites"] = {"total": len(table["sites"]), "coordinate": sum(1 for r in table["sites"] if r["coord"]),
                                         "by_class": {k: sum(1 for r in table["sites"] if r["coord"] and r["class"].partition(":")[0] == k)
                                                      for k in sorted({r["class"].partition(":")[0] for r in table["sites"] if r["coord"]})},
                                         "declared_jumps": table["jumps"]}
        for fam, kind in ROBUST_CLASSES.items():
            if fam == "oblique:direction-sign":
                continue  # the agreement of the candidate borders in the interior (theorem `oblique_corner_agreement`); its sites carry the jump `oblique:along-border`
            if classes.get(fam) != kind:
                out.disagree("robust.sites", fam, kind, classes.get(fam))
        uncovered = [j for j in table["jumps"] if j not in ROBUST_CLASSES and j not in ROBUST_ELSEWHERE]
        if uncovered:  # a declared jump without a generator family: the table moved on, the generator has to follow
            out.disagree("robust.sites", "declared jumps without a boundary family", sorted(ROBUST_CLASSES), uncovered)
    allc: list[tuple[int, str, dict]] = []
    for bi, c in enumerate(bases):
        allc.append((bi, "base", c))
        allc += [(bi, n, v) for n, v in robust_variants(c)]
    reqs = [{"op": "snap", "box": [q(F(v)) for v in c["box"]], "port": c["port"], "p": [q(F(v)) for v in c["p"]], "s": [q(F(v)) for v in c["s"]],
             "style": c["style"]} for _, _, c in allc]
    answers = [] if no_model else common.model(reqs, driver="Geom")
    stats: dict[str, dict] = {}
    base_res: dict[int, tuple] = {}
    for k, (bi, name, c) in enumerate(allc):
        fam = c["fam"]
        st = stats.setdefault(fam, {"class": ROBUST_CLASSES[fam], "bases": 0, "variants": 0, "max_ulp_sensitivity": 0.0, "max_translation_deviation": 0.0, "flips": 0})
        res = impl_snap(diagram, c["box"], c["port"], c["p"], c["s"], c["style"])
        eb, ep, es = [F(v) for v in c["box"]], [F(v) for v in c["p"]], [F(v) for v in c["s"]]
        rep = {"kind": "snap", "box": [str(v) for v in eb], "port": c["port"], "p": [str(v) for v in ep], "s": [str(v) for v in es], "style": c["style"]}
        sig = classify_snap(eb, ep, es, c["style"], res)
        if sig and c.get("sub") == "on-border+tol" and res[0] == "r" and on_outline(*eb, F(res[1][0]), F(res[1][1]), F(2, 10**6)):
            sig = None  # inside the containment band of 47523e4 the answer is within the band of the outline
        if sig and c.get("sub") == "on-border+tol":
            # the outer edge of the tolerance band is where the jump of the containment test lives since 47523e4
            sig = "Box.vector_snap|oblique|boundary|oblique:containment+tol|unsound-beside-the-jump"
        if sig and name != "base" and ROBUST_CLASSES[fam] == "jump" and c["style"] == "oblique":
            # an assertion / a point off the outline one ulp beside a declared jump of the oblique snap (two points one ulp
            # apart, a source one ulp from the centre, an edge one ulp off a border line): named after the boundary, so that
            # the known entry does not hide other failures
            sig = f"Box.vector_snap|oblique|boundary|{fam}|unsound-beside-the-jump"
        if sig:
            out.find(sig, f"[{fam} {name}] Box({c['box'][:2]}, {c['box'][2:]}{', port=True' if c['port'] else ''}).vector_snap({c['p']}, source={c['s']}, style={c['style']}) -> {res[1]}", rep)
            out.hit("monitor:" + sig.split("|", 1)[1])
        scale = max(1.0, abs(c["box"][0]) + c["box"][2], abs(c["box"][1]) + c["box"][3])
        if fam == "closest:diagonal" and res[0] == "r":
            # independent statement (base and every variant): the closest-side snap of a source outside the box ends on the side facing it
            cxf, cyf = c["box"][0] + c["box"][2] / 2, c["box"][1] + c["box"][3] / 2
            if (res[1][0] - cxf) * (c["s"][0] - cxf) + (res[1][1] - cyf) * (c["s"][1] - cyf) <= 0:
                which = "source-on-top-right-diagonal" if c.get("sub") == "top-right" else "source-on-diagonal"
                out.find(f"Box.vector_snap|closest|far-corner|{which}",
                         f"[{name}] Box({c['box'][:2]}, {c['box'][2:]}).vector_snap({c['p']}) -> {res[1]}: a source on (or one ulp beside) the diagonal through a corner is snapped to "
                         "a side that does not face it (the opposite corner)", rep)
        if name == "base":
            base_res[bi] = res
            st["bases"] += 1
        else:
            st["variants"] += 1
            b0 = base_res[bi]
            if res[0] == "r" and b0[0] == "r":
                t = c.get("t", (0.0, 0.0))
                dev = max(abs(res[1][0] - t[0] - b0[1][0]), abs(res[1][1] - t[1] - b0[1][1]))
                key = "max_translation_deviation" if name == "translate" else "max_ulp_sensitivity"
                st[key] = max(st[key], dev)
                if dev > PTOL * scale:
                    st["flips"] += 1
                    if ROBUST_CLASSES[fam] != "jump" and c.get("sub") != "on-border+tol":
                        out.find(f"Box.vector_snap|{c['style']}|boundary|{fam}|{'translation' if name == 'translate' else 'ulp'}-sensitive",
                                 f"[{fam} {c.get('sub', '')}] {name}: result moved by {dev} (base {b0[1]}, perturbed {res[1]}) although the branches are declared to agree", rep)
            elif res[0] != b0[0] and ROBUST_CLASSES[fam] != "jump" and c.get("sub") != "on-border+tol":
                out.find(f"Box.vector_snap|{c['style']}|boundary|{fam}|outcome-changes", f"[{fam}] {name}: {b0} became {res}", rep)
        if answers:
            # containment band: the code treats a point up to 1e-6 outside the box as inside (47523e4), the exact model does not
            band = False
            if c["style"] == "oblique" and ep != es:
                dx = max(eb[0] - ep[0], ep[0] - eb[0] - eb[2], 0)
                dy = max(eb[1] - ep[1], ep[1] - eb[1] - eb[3], 0)
                band = 0 < max(dx, dy) <= F(1001, 10**9)  # inside the band, or on its outer edge (a declared tie of its own)
            if band:
                out.hit("robust:tie:containment-band-not-compared")
            elif name != "base" and ROBUST_CLASSES[fam] == "jump":
                out.hit("robust:tie:beside-a-declared-jump-not-compared")  # which branch the float code takes there is exactly what is not tied
            else:
                compare_snap(out, "snap.robust", [rep["box"], c["port"], rep["p"], rep["s"], c["style"], "robust"], res, answers[k])
                out.traces_validated += 1
        out.case(("robust", fam, name, tuple(rep["box"]), tuple(rep["p"]), tuple(rep["s"]), c["port"]), {"stream": "snap.robust", "family": fam, **rep} if k % 1499 == 0 else None, nontrivial=True)
        out.hit(f"robust:{fam}:{'base' if name == 'base' else name.split(':')[0]}")
    out.extra["robustness"] = {k: v for k, v in sorted(stats.items())}
    out.extra["robustness_note"] = ("families of class `jump` are the declared ties (branches of the code disagree on the boundary; flips = perturbed results further than "
                                    "1e-6 from the base result); families of class `agree`/`jumpTol` must have no flips (a flip is a finding)")


# ------------------------------------------------------------------ (a3) box nesting: _box_factories.generic_factory down a tree


class TreeRig:
    """The real `aird._box_factories.generic_factory` applied to a tree of notation nodes given by plain numbers
    (stored `layoutConstraint`, port or not, `FlatContainerStyle` or not), parents before children like the parser."""

    def __init__(self, diagram):
        from lxml import etree

        from capellambse.aird import _box_factories as BF
        from capellambse.aird import _common as C

        self.diagram, self.etree, self.C, self.BF = diagram, etree, C, BF

    def build(self, tree, v=(0, 0)):
        """-> ('r', [(pos, stored size, port, index of parent | None), ...] in document order) | ('e', kind)"""
        et, C = self.etree, self.C
        dg = self.diagram.Diagram("t")
        root = et.Element("diagram_tree")
        out = []
        ex_parent: list[str] = []

        def rec(node, parent_el, parent_idx):
            uid = f"N{len(out)}"
            de = et.SubElement(parent_el, "ownedBorderedNodes" if node["port"] else "ownedDiagramElements", {"uid": uid})
            et.SubElement(de, "ownedStyle", {C.ATT_XMT: "diagram:FlatContainerStyle" if node["flat"] else "diagram:Square"})
            data = et.Element("children", {"element": uid})
            x, y, w, h = node["layout"]
            if parent_idx is None:
                x, y = x + v[0], y + v[1]
            et.SubElement(data, "layoutConstraint", {"x": str(x), "y": str(y), "width": str(w), "height": str(h)})
            seb = C.SemanticElementBuilder(target_diagram=dg, diagram_tree=root, data_element=data, melodyloader=None, fragment=None,
                                           diag_element=de, styleclass=None, melodyobjs=[et.Element("obj")])
            ex_parent[:] = [f"N{parent_idx}"] if parent_idx is not None else []
            box = self.BF.generic_factory(seb)
            dg.add_element(box, False)
            me = len(out)
            out.append((box, parent_idx))
            for k in node["kids"]:
                rec(k, de, me)

        try:
            rec(tree, root, None)
        except (AssertionError, ValueError, ZeroDivisionError) as ex:
            # the node that failed is a child of the box placed last on the current path: report that parent's size
            last_parent = dg[ex_parent[0]] if ex_parent else None
            return ("e", err_kind(ex), tuple(last_parent.size) if last_parent is not None else None)
        return ("r", [((b.pos.x, b.pos.y), (b._size.x, b._size.y), bool(b.port), pi) for b, pi in out])


TREE_BRANCHES = ["tree:top-level", "tree:port:on-border-already", "tree:port:moved", "tree:child:pos-kept+size-kept", "tree:child:pos-kept+size-shrunk",
                 "tree:child:pos-clamped+size-kept", "tree:child:pos-clamped+size-shrunk", "tree:child:clamped-to-nothing"]


def tree_cases(ctx: Ctx) -> list[dict]:
    rng = ctx.rng

    def node(depth, pw, ph, port):
        if port:
            where = rng.choice(["in", "left", "right", "top", "bottom", "out", "centre"])
            x, y = {"in": (rng.randint(0, max(0, pw)), rng.randint(0, max(0, ph))), "left": (-8, rng.randint(0, max(0, ph))), "right": (pw - 7, rng.randint(0, max(0, ph))),
                    "top": (rng.randint(0, max(0, pw)), -8), "bottom": (rng.randint(0, max(0, pw)), ph - 7), "out": (rng.randint(-60, pw + 60), rng.randint(-60, ph + 60)),
                    "centre": (pw // 2 - 4, ph // 2 - 4)}[where]
            return {"layout": (x, y, rng.choice([0, 10, 30]), rng.choice([0, 10, 30])), "port": True, "flat": False, "kids": []}
        w, h = rng.randint(1, max(2, pw)), rng.randint(1, max(2, ph))
        mode = rng.choice(["fit"] * 14 + ["margin-exact", "margin-exact", "overflow-right", "overflow-right", "overflow-bottom", "overflow-bottom",
                           "negative", "negative", "huge", "any", "far-out"])
        if mode == "fit":
            w, h = max(3, pw // 2), max(3, ph // 2)
            x, y = rng.randint(-3, max(0, pw - w - 9)), rng.randint(-3, max(0, ph - h - 9))
        elif mode == "margin-exact":  # after the (5, 5) offset exactly on the margin lines
            x, y, w, h = -3, -3, max(1, pw - 4), max(1, ph - 4)
        elif mode == "overflow-right":
            x, y = pw - rng.randint(6, 12), rng.randint(0, max(0, ph // 2))
        elif mode == "overflow-bottom":
            x, y = rng.randint(0, max(0, pw // 2)), ph - rng.randint(6, 12)
        elif mode == "negative":
            x, y = rng.randint(-40, 0), rng.randint(-40, 0)
        elif mode == "huge":
            x, y, w, h = rng.randint(-10, 10), rng.randint(-10, 10), pw * 3 + 5, ph * 3 + 5
        elif mode == "far-out":
            x, y = pw + rng.randint(0, 30), rng.randint(-5, ph)
        else:
            x, y = rng.randint(-20, pw + 20), rng.randint(-20, ph + 20)
        flat = rng.random() < 0.5
        kids = []
        if depth > 0 and (min(w, h) >= 24 or rng.random() < 0.1):
            for _ in range(rng.choice([0, 1, 1, 2, 3])):
                kids.append(node(depth - 1, w - (2 if flat and w >= 2 else 0), h - (2 if flat and h >= 2 else 0), rng.random() < 0.3))
        return {"layout": (x, y, w, h), "port": False, "flat": flat, "kids": kids}

    cases = []
    for _ in range(ctx.pick(700, 7000)):
        w, h = rng.choice([(200, 120), (200, 120), (90, 60), (400, 300), (400, 300), (24, 24), (9, 9)])
        flat = rng.random() < 0.5
        kids = [node(rng.randint(0, 3), w - (2 if flat else 0), h - (2 if flat else 0), rng.random() < 0.3) for _ in range(rng.randint(1, 4))]
        cases.append({"layout": (rng.randint(-300, 300), rng.randint(-300, 300), w, h), "port": False, "flat": flat, "kids": kids})
    return cases


def tree_monitor(rig: TreeRig, tree: dict, res, v) -> list[tuple[str, str]]:
    """the statement on one built tree: every non-port box with a positive size inside its parent (margin 2) and inside
    every ancestor reached through such boxes; every (fitting) port attached to its parent's border; and the tree built
    from the root layout moved by `v` is the same tree moved by `v`.  Subtrees below a box whose stored size was clamped
    to nothing are not judged (its `size` is then computed from text extents)."""
    if res[0] == "e":
        if res[1] == "parallel" and res[2] is not None and min(res[2]) <= 6:
            # a 10x10 port in a parent not larger than 6 px: the "mid box" of snap_to_parent has no positive size;
            # outside the domain of the port theorem (design/C17.md, "Not covered"); counted, not judged
            return [("<outside-domain>", "port in a parent not larger than 6 px")]
        return [(f"generic_factory(box)|raises|{res[1]}", f"raised {res[1]}")]
    boxes = res[1]
    bad = []
    judged = [True] * len(boxes)
    for k, (pos, size, port, pi) in enumerate(boxes):
        if any(not math.isfinite(c) for c in (*pos, *size)):
            return [("generic_factory(box)|non-finite", f"box {k}: {pos} {size}")]
        if pi is None:
            continue
        if not judged[pi] or min(boxes[pi][1]) <= 0:
            judged[k] = False
            continue
        (px, py), (pw, ph) = (F(c) for c in boxes[pi][0]), (F(c) for c in boxes[pi][1])
        x, y, w, h = F(pos[0]), F(pos[1]), F(size[0]), F(size[1])
        if port:
            if pw > 6 and ph > 6 and not port_attached(px, py, pw, ph, x, y, w, h, F(1, 10**8)):
                bad.append(("generic_factory(box)|port-off-parent-border", f"port {k} at {pos} not attached to parent {boxes[pi][0]}+{boxes[pi][1]}"))
            judged[k] = False  # nothing is claimed about what hangs below a port relative to the ancestors
            continue
        if min(w, h) <= 0:
            continue
        a = pi
        margin = 2
        while a is not None and judged[a]:
            (ax, ay), (aw, ah) = (F(c) for c in boxes[a][0]), (F(c) for c in boxes[a][1])
            if not (ax + margin <= x and ay + margin <= y and x + w <= ax + aw - margin and y + h <= ay + ah - margin):
                bad.append(("generic_factory(box)|child-outside-" + ("parent" if a == pi else "ancestor"),
                            f"box {k} at {pos}+{size} not inside box {a} at {boxes[a][0]}+{boxes[a][1]} (margin {margin})"))
                break
            margin = 0
            a = boxes[a][3]
    moved = rig.build(tree, v)
    if moved[0] == "e":
        bad.append((f"generic_factory(box)|moved|raises|{moved[1]}", f"root moved by {v}: raised {moved[1]}"))
    elif len(moved[1]) != len(boxes) or any(
            abs(F(a[0][0]) + v[0] - F(b[0][0])) > PTOL or abs(F(a[0][1]) + v[1] - F(b[0][1])) > PTOL or abs(a[1][0] - b[1][0]) > PTOL or abs(a[1][1] - b[1][1]) > PTOL
            for a, b in zip(boxes, moved[1])):
        bad.append(("generic_factory(box)|moved|not-equivariant", f"root moved by {v}: {boxes} became {moved[1]}"))
    return bad


def box_tree(ctx: Ctx, out: Outcome, diagram) -> None:
    rig = TreeRig(diagram)
    rng = ctx.rng
    cases = tree_cases(ctx)
    no_model = os.environ.get("VERIF_NO_MODEL") == "1"

    def enc(n):
        return {"layout": list(n["layout"]), "port": n["port"], "flat": n["flat"], "kids": [enc(k) for k in n["kids"]]}

    answers = [] if no_model else common.model([{"op": "tree", "overhang": 2, "margin": 2, "root": enc(c)} for c in cases], driver="Geom")
    stats = {"trees": len(cases), "boxes": 0, "max_depth": 0, "ports": 0, "outside_model": 0}

    def depth(n):
        return 1 + max((depth(k) for k in n["kids"]), default=0)

    for k, c in enumerate(cases):
        res = rig.build(c)
        v = (rng.choice([1, -1, 10000, -3333, 7]), rng.choice([0, -1, -10000, 4, 10000]))
        rep = {"kind": "tree", "root": enc(c), "v": list(v)}
        for sig, what in tree_monitor(rig, c, res, v):
            if sig == "<outside-domain>":
                out.hit("tree:outside-domain:port-in-parent-not-larger-than-6px")
                continue
            out.find(sig, what, rep)
            out.hit("monitor:" + sig)
        stats["max_depth"] = max(stats["max_depth"], depth(c))
        if res[0] == "r":
            stats["boxes"] += len(res[1])
            stats["ports"] += sum(1 for b in res[1] if b[2])
        if answers:
            ans = answers[k]
            out.traces_validated += 1
            if "err" in ans:
                out.disagree("tree", rep, res, ans)
            else:
                a = ans["ok"]
                for t in a.get("br", []):
                    out.hit(t)
                if "e" in a:
                    if a["e"] == "degenerate":
                        stats["outside_model"] += 1  # a box clamped to nothing: automatic size, not compared
                        out.hit("tree:not-compared:automatic-size")
                    elif res[:2] != ("e", a["e"]):
                        out.disagree("tree", rep, res, a)
                elif res[0] == "e":
                    out.disagree("tree", rep, res, a)
                else:
                    mb = [(fr4(b[0]), fr4(b[1])) for b in a["boxes"]]
                    ib = [(b[0], b[1]) for b in res[1]]
                    if len(mb) == len(ib) and all(exact(i[0], m[0]) and exact(i[1], m[1]) for i, m in zip(ib, mb)):
                        out.hit("agree:exact")
                    elif len(mb) == len(ib) and all(vclose(i[0], m[0]) and vclose(i[1], m[1]) for i, m in zip(ib, mb)):
                        out.hit("agree:within-1e-9")
                    else:
                        out.disagree("tree", rep, [list(map(list, i)) for i in ib], [[str(x) for x in (*m[0], *m[1])] for m in mb])
        out.case(("tree", str(rep["root"])), rep if k % 349 == 0 else None, nontrivial=depth(c) >= 2)
    out.extra["box_tree_inputs"] = stats
    if not no_model:
        out.extra["box_tree_branches"] = {"expected": len(TREE_BRANCHES), "missing": [b for b in TREE_BRANCHES if b not in out.branches]}


# ------------------------------------------------------------------ (a4) Circle.vector_snap


def impl_circle(diagram, c, v=(0, 0)):
    circ = diagram.Circle((float(c["c"][0] + v[0]), float(c["c"][1] + v[1])), float(c["r"]))
    try:
        r = circ.vector_snap((float(c["vector"][0] + v[0]), float(c["vector"][1] + v[1])), source=(float(c["source"][0] + v[0]), float(c["source"][1] + v[1])))
    except (AssertionError, ZeroDivisionError, ValueError) as ex:
        return ("e", "noDirection" if isinstance(ex, (AssertionError, ZeroDivisionError)) else err_kind(ex))
    return ("r", (r.x, r.y))


def circle_monitor(diagram, c, res, v) -> list[tuple[str, str]]:
    """the statement on `Circle.vector_snap`: a finite point of the circle, on the ray from the centre through the
    snapped point (from the centre itself: towards the source), and the same point moved by `v` for the moved circle"""
    cx, cy, R = F(c["c"][0]), F(c["c"][1]), F(c["r"])
    vx, vy = F(c["vector"][0]), F(c["vector"][1])
    no_dir = (vx, vy) == (cx, cy) and (F(c["source"][0]), F(c["source"][1])) == (vx, vy)
    if res[0] == "e":
        return [] if no_dir and res[1] == "noDirection" else [(f"Circle.vector_snap|raises|{res[1]}", f"raised {res[1]}")]
    x, y = res[1]
    if not (math.isfinite(x) and math.isfinite(y)):
        return [("Circle.vector_snap|non-finite", f"-> {res[1]}")]
    bad = []
    scale = max(1.0, float(R), abs(float(cx)), abs(float(cy)))
    dist = math.hypot(float(F(x) - cx), float(F(y) - cy))
    if abs(dist - float(R)) > 1e-9 * scale:
        bad.append(("Circle.vector_snap|off-circle", f"-> {res[1]}: distance {dist} from the centre, radius {R}"))
    dx, dy = (vx - cx, vy - cy) if (vx, vy) != (cx, cy) else (F(c["source"][0]) - vx, F(c["source"][1]) - vy)
    dl = math.hypot(float(dx), float(dy))
    if dl > 0 and R > 0:
        ex, ey = float(cx) + float(dx) / dl * float(R), float(cy) + float(dy) / dl * float(R)
        if math.hypot(x - ex, y - ey) > 1e-7 * scale:
            bad.append(("Circle.vector_snap|wrong-direction", f"-> {res[1]}, but the point of the circle in direction {(str(dx), str(dy))} from the centre is {(ex, ey)}"))
    moved = impl_circle(diagram, c, v)
    if moved[0] == "e":
        bad.append((f"Circle.vector_snap|translated|raises|{moved[1]}", f"moved by {v}: raised"))
    elif math.hypot(x + v[0] - moved[1][0], y + v[1] - moved[1][1]) > 1e-7 * max(scale, abs(v[0]), abs(v[1])):
        bad.append(("Circle.vector_snap|translated|not-equivariant", f"-> {res[1]}, but moved by {v} -> {moved[1]}"))
    return bad


def circle_cases(ctx: Ctx) -> list[dict]:
    rng = ctx.rng
    cases = []
    for _ in range(ctx.pick(600, 6000)):
        c = (dyadic(rng), dyadic(rng)) if rng.random() < 0.8 else (F(0), F(0))
        R = abs(dyadic(rng, 0, 40)) + F(1, rng.choice(DY))
        k = rng.choice(["general", "centre", "on-circle", "axis", "origin", "centre-and-source"])
        vec = {"general": (dyadic(rng), dyadic(rng)), "centre": c, "on-circle": (c[0] + R, c[1]), "axis": (c[0], c[1] + dyadic(rng, 1, 30)),
               "origin": (F(0), F(0)), "centre-and-source": c}[k]
        src = vec if k == "centre-and-source" else (dyadic(rng), dyadic(rng))
        cases.append({"c": c, "r": R, "vector": vec, "source": src, "gen": k})
    return cases


def circle_snap(ctx: Ctx, out: Outcome, diagram) -> None:
    cases = circle_cases(ctx)
    impl = [impl_circle(diagram, c) for c in cases]
    no_model = os.environ.get("VERIF_NO_MODEL") == "1"
    reqs = [{"op": "circle", "c": [q(x) for x in c["c"]], "r": q(c["r"]), "vector": [q(x) for x in c["vector"]], "source": [q(x) for x in c["source"]],
             "res": [q(F(x)) for x in (r[1] if r[0] == "r" else (0, 0))]} for c, r in zip(cases, impl)]
    answers = [] if no_model else common.model(reqs, driver="Geom")
    vecs = [(1, 0), (0, -1), (-10000, -10000), (7, 10000), (-3333, 4)]
    for k, (c, res) in enumerate(zip(cases, impl)):
        v = vecs[k % len(vecs)]
        rep = {"kind": "circle", **case_json(c), "v": list(v)}
        for sig, what in circle_monitor(diagram, c, res, v):
            out.find(sig, f"Circle({tuple(map(str, c['c']))}, {c['r']}).vector_snap({tuple(map(str, c['vector']))}, source={tuple(map(str, c['source']))}) {what}", rep)
            out.hit("monitor:" + sig)
        if answers:
            out.traces_validated += 1
            ans = answers[k]
            if "err" in ans:
                out.disagree("circle", rep, res, ans)
            else:
                a = ans["ok"]
                for t in a.get("br", []):
                    out.hit(t)
                if "e" in a or res[0] == "e":
                    if not ("e" in a and res[0] == "e" and a["e"] == res[1]):
                        out.disagree("circle", rep, res, a)
                else:
                    # the relation of the model on the float result: residuals within the rounding of sqrt and division
                    fr = lambda z: float(F(z[0], z[1]))  # noqa: E731
                    R, dl = float(c["r"]), math.sqrt(fr(a["dlen2"]))
                    scale = max(1.0, R, abs(float(c["c"][0])), abs(float(c["c"][1])))
                    ok = abs(fr(a["onCircle"])) <= 1e-9 * scale * max(R, 1.0) and abs(fr(a["cross"])) <= 1e-9 * scale * dl and fr(a["dot"]) >= -1e-9 * scale * dl
                    if a["holds"]:
                        out.hit("agree:exact")
                    elif ok:
                        out.hit("agree:within-1e-9")
                    else:
                        out.disagree("circle", rep, list(res[1]), {k2: (fr(v2) if isinstance(v2, list) and len(v2) == 2 else v2) for k2, v2 in a.items()})
        out.case(("circle", str(rep)), rep if k % 299 == 0 else None, nontrivial=c["gen"] != "general")
        out.hit("gen:circle:" + c["gen"])


# ------------------------------------------------------------------ (b) parser


class ParserRig:
    """Access to the stored layout of one diagram and to the parser, with routing styles recorded."""

    def __init__(self):
        self.diagram = _imports()
        import capellambse
        from capellambse import aird, helpers
        from capellambse.aird import _common as C
        from capellambse.aird import _edge_factories as EF

        self.capellambse, self.aird, self.helpers, self.C, self.EF = capellambse, aird, helpers, C, EF
        if not hasattr(EF.snaptarget, "_c17"):
            orig = EF.snaptarget

            def snaptarget(points, i, next_i, target, movetarget=False, routingstyle=None):
                try:
                    points._c17_style = routingstyle or "oblique"
                except AttributeError:
                    pass
                return orig(points, i, next_i, target, movetarget, routingstyle)

            snaptarget._c17 = True
            EF.snaptarget = snaptarget

    def load(self, rel: str):
        return self.capellambse.MelodyModel(str(common.REPO / rel))

    def treedata(self, model, d):
        loader = model._loader
        desc = self.aird._build_descriptor(loader, d._element)
        dgtree = loader.follow_link(loader.trees[desc.fragment].root, desc.uid)
        return self.helpers.xpath_fetch_unique(self.C.XP_ANNOTATION_ENTRIES, dgtree, "ownedAnnotationsEntries", dgtree.attrib["uid"])

    def top_nodes(self, treedata):
        res = []
        for ch in treedata.iterchildren("children"):
            lc = next(ch.iterchildren("layoutConstraint"), None)
            if lc is not None:
                res.append((ch, lc))
        return res

    def parse(self, model, d):
        return self.aird.parse_diagram(model._loader, d._element)

    def edge_ends(self, treedata) -> dict[str, set[str]]:
        """edge uuid -> uuids of the elements it is attached to, read from the stored notation
        (note connectors carry no source/target on the parsed Edge object)"""
        ids = {n.get(self.C.ATT_XMID): n for n in treedata.iter() if n.get(self.C.ATT_XMID)}
        ends: dict[str, set[str]] = {}
        # semantic id of a notation node -> its notation id (the uuid of boxes built by the visual factories)
        aliases: dict[str, set[str]] = {}
        for i, n in ids.items():
            if n.get("element"):
                aliases.setdefault(n.get("element"), set()).add(i)
        ends["<aliases>"] = aliases  # type: ignore[assignment]
        for e in treedata.iterdescendants("edges"):
            uid = e.get("element") or e.get(self.C.ATT_XMID)
            got = ends.setdefault(uid, set())
            for side in ("source", "target"):
                ref = e.get(side)
                if not ref:
                    continue
                ref = ref.split("#")[-1]
                got.add(ref)
                node = ids.get(ref)
                if node is not None and node.get("element"):
                    got.add(node.get("element"))
        return ends


class shifted:
    """context manager: add (dx, dy) to the stored x/y of the given layoutConstraint elements"""

    def __init__(self, lcs, dx, dy):
        self.lcs, self.dx, self.dy = lcs, dx, dy

    def __enter__(self):
        self.saved = [(lc, lc.get("x"), lc.get("y")) for lc in self.lcs]
        for lc in self.lcs:
            lc.set("x", str(int(lc.get("x", "0")) + self.dx))
            lc.set("y", str(int(lc.get("y", "0")) + self.dy))

    def __exit__(self, *a):
        for lc, x, y in self.saved:
            for k, v in (("x", x), ("y", y)):
                if v is None:
                    lc.attrib.pop(k, None)
                else:
                    lc.set(k, v)


def snapshot(diagram, dg) -> list[dict]:
    """geometry of a parsed diagram, element by element (order preserved)"""
    els = []
    for e in dg:
        if isinstance(e, diagram.Edge):
            els.append({"t": "edge", "uuid": e.uuid, "hidden": bool(e.hidden), "pts": [(p.x, p.y) for p in e],
                        "labels": [(l.pos.x, l.pos.y, l.size.x, l.size.y) for l in e.labels],
                        "vislabels": [not l.hidden for l in e.labels],
                        "src": getattr(e.source, "uuid", None), "tgt": getattr(e.target, "uuid", None),
                        "style": getattr(e, "_c17_style", None), "ends_t": [type(e.source).__name__, type(e.target).__name__]})
        elif isinstance(e, diagram.Box):
            els.append({"t": "box", "uuid": e.uuid, "hidden": bool(e.hidden), "pos": (e.pos.x, e.pos.y), "size": (e.size.x, e.size.y),
                        "labels": [(l.pos.x, l.pos.y, l.size.x, l.size.y) for l in e.floating_labels],
                        # labels the drawing shows at their stored place (rotated ones are a documented exception of Box.bounds)
                        "vislabels": [not e.hidelabel and e.styleoverrides.get("text_transform") is None for l in e.floating_labels],
                        "parent": e.parent.uuid if e.parent is not None else None, "port": bool(e.port)})
        else:
            els.append({"t": type(e).__name__, "uuid": e.uuid, "hidden": bool(e.hidden), "center": tuple(e.center), "radius": e.radius})
    vp = dg.viewport
    els.append({"t": "viewport", "uuid": "<viewport>", "hidden": False, "pos": tuple(vp.pos) if vp else None, "size": tuple(vp.size) if vp else None})
    return els


def numbers(el: dict):
    """(translating numbers as (x, y) pairs, fixed numbers)"""
    if el["t"] == "edge":
        return list(el["pts"]) + [l[:2] for l in el["labels"]], [v for l in el["labels"] for v in l[2:]]
    if el["t"] in ("box", "viewport"):
        if el.get("pos") is None:
            return [], []
        return [el["pos"]] + [l[:2] for l in el.get("labels", [])], list(el["size"]) + [v for l in el.get("labels", []) for v in l[2:]]
    return [el["center"]], [el["radius"]]


def diff_elements(a: dict, b: dict, v) -> str | None:
    """is `b` == `a` translated by v (within PTOL)?"""
    if a["t"] != b["t"] or a["uuid"] != b["uuid"] or a["hidden"] != b["hidden"]:
        return f"element changed identity/visibility: {a['t']} {a['uuid']} -> {b['t']} {b['uuid']}"
    pa, fa = numbers(a)
    pb, fb = numbers(b)
    if len(pa) != len(pb) or len(fa) != len(fb):
        return f"{a['t']} {a['uuid']}: number of points/labels changed {len(pa)} -> {len(pb)}"
    for (x0, y0), (x1, y1) in zip(pa, pb):
        if not (math.isfinite(x1) and math.isfinite(y1)) or abs(x0 + v[0] - x1) > PTOL or abs(y0 + v[1] - y1) > PTOL:
            return f"{a['t']} {a['uuid']}: ({x0}, {y0}) + {tuple(v)} != ({x1}, {y1})"
    for s0, s1 in zip(fa, fb):
        if abs(s0 - s1) > PTOL:
            return f"{a['t']} {a['uuid']}: size {s0} -> {s1}"
    return None


def soundness(snap: list[dict]) -> list[tuple[str, str]]:
    """Monitor on one parsed diagram: (signature, what) list"""
    bad = []
    by = {e["uuid"]: e for e in snap if e["t"] == "box"}
    vp = snap[-1]
    for e in snap:
        pts, fixed = numbers(e)
        if any(not math.isfinite(c) for p in pts for c in p) or any(not math.isfinite(c) for c in fixed):
            bad.append(("parse_diagram|non-finite-coordinate", f"{e['t']} {e['uuid']} has a non-finite coordinate"))
            continue
        if e["hidden"] or e["t"] == "viewport":
            continue
        # viewport encloses
        vl = [l for l, vis in zip(e.get("labels", []), e.get("vislabels", [])) if vis]
        own = [e["pos"]] if e["t"] == "box" else (e["pts"] if e["t"] == "edge" else [])
        xs = [p[0] for p in own] + ([e["pos"][0] + e["size"][0]] if e["t"] == "box" else []) + [l[0] for l in vl] + [l[0] + l[2] for l in vl]
        ys = [p[1] for p in own] + ([e["pos"][1] + e["size"][1]] if e["t"] == "box" else []) + [l[1] for l in vl] + [l[1] + l[3] for l in vl]
        if e["t"] not in ("box", "edge"):
            xs, ys = [e["center"][0] - e["radius"], e["center"][0] + e["radius"]], [e["center"][1] - e["radius"], e["center"][1] + e["radius"]]
        if vp["pos"] is not None and xs and not (vp["pos"][0] - PTOL <= min(xs) and max(xs) <= vp["pos"][0] + vp["size"][0] + PTOL
                                                  and vp["pos"][1] - PTOL <= min(ys) and max(ys) <= vp["pos"][1] + vp["size"][1] + PTOL):
            bad.append(("parse_diagram|viewport-misses-element", f"{e['t']} {e['uuid']} extends beyond the viewport {vp['pos']} {vp['size']}"))
        if e["t"] == "edge":
            for end, other, which in ((e["pts"][0], e["src"], "source"), (e["pts"][-1], e["tgt"], "target")):
                b = by.get(other)
                if b is None or b["hidden"]:
                    continue
                if e["style"] == "tree":
                    if not on_top_or_bottom(*b["pos"], *b["size"], *end, PTOL):
                        bad.append(("parse_diagram|tree-edge-end-off-top-bottom-side",
                                    f"tree edge {e['uuid']} {which} end {end} not on the top/bottom side of box {b['uuid']} at {b['pos']} size {b['size']}"))
                elif not on_outline(*b["pos"], *b["size"], *end, PTOL):
                    bad.append((f"parse_diagram|{e['style']}-edge-end-off-outline",
                                f"{e['style']} edge {e['uuid']} {which} end {end} not on the outline of box {b['uuid']} at {b['pos']} size {b['size']}"))
        if e["t"] == "box" and e["port"] and e["parent"] in by:
            p = by[e["parent"]]
            if not port_attached(*p["pos"], *p["size"], *e["pos"], *e["size"], PTOL):
                bad.append(("parse_diagram|port-off-parent-border", f"port {e['uuid']} at {e['pos']} not attached to parent {p['uuid']} at {p['pos']} size {p['size']}"))
    return bad


ODD_VECTORS = [(1025, -131), (-4097, 2055), (16385, -8195), (65537, 32771), (-131073, 65539), (98765, -43211), (-99991, 31337), (12345, 67891)]


def inexact_vectors(ctx: Ctx, rng, base: list[dict]) -> list[tuple[int, int]]:
    """translation vectors chosen to expose rounding: corners of edge-carrying boxes onto the origin, large odd offsets"""
    by = {e["uuid"]: e for e in base if e["t"] == "box"}
    carriers = {u for e in base if e["t"] == "edge" and not e["hidden"] for u in (e["src"], e["tgt"]) if u in by}
    if not carriers:
        return []
    vs: list[tuple[int, int]] = []
    for u in sorted(carriers):
        b = by[u]
        for cx, cy in (((0, 0), (1, 1), (0, 1), (1, 0)) if ctx.thorough else ((0, 0), (1, 1))):
            x, y = b["pos"][0] + cx * b["size"][0], b["pos"][1] + cy * b["size"][1]
            if x == int(x) and y == int(y) and (-int(x), -int(y)) not in vs:
                vs.append((-int(x), -int(y)))
    vs += ODD_VECTORS[:2] + rng.sample(ODD_VECTORS[2:], ctx.pick(1, 4))
    return vs


def translated_parse(out: Outcome, rig, diagram, model, d, rel, where, lcs, base, v) -> None:
    """parse with the stored layout translated by `v`; judge equivariance against `base` and soundness"""
    with shifted(lcs, *v):
        try:
            moved = snapshot(diagram, rig.parse(model, d))
        except Exception as e:
            out.find(f"parse_diagram|translated|raises|{type(e).__name__}", f"{rel} {d.name!r} translated by {v}: {type(e).__name__}: {e}",
                     {"kind": "translate", **where, "v": list(v)})
            return
    problem = None
    if len(moved) != len(base):
        problem = f"{len(base) - 1} elements became {len(moved) - 1}"
    else:
        for a, b in zip(base, moved):
            problem = diff_elements(a, b, v)
            if problem:
                break
    if problem:
        out.find("parse_diagram|translated|not-equivariant", f"{rel} {d.name!r} translated by {v}: {problem}", {"kind": "translate", **where, "v": list(v)})
    for sig, what in soundness(moved):
        out.find(sig, f"{rel} {d.name!r} translated by {v}: {what}", {"kind": "sound", **where, "v": list(v)})


def parser_run(ctx: Ctx, out: Outcome) -> None:
    rig = ParserRig()
    diagram = rig.diagram
    rng = ctx.rng
    vectors_fixed = [(1, 0), (0, -1), (-10000, -10000), (7, 10000), (-3333, 4)]
    stats = {"models": 0, "diagrams": 0, "translations": 0, "moves": 0, "elements": 0, "edges": {}, "ports": 0, "parse_errors": 0}
    models = MODELS if ctx.thorough else MODELS[:1] + MODELS[3:] + MODELS[1:3]
    light = set() if ctx.thorough else set(MODELS[1:3])  # quick: the other two melody models are parsed and judged once, not translated
    stats["models_parsed_without_translation"] = sorted(light)
    for rel in models:
        if not (common.REPO / rel).exists():
            continue
        try:
            model = rig.load(rel)
        except Exception as e:  # a model that no longer loads is someone else's problem, but say so
            out.extra.setdefault("models_not_loaded", []).append(f"{rel}: {type(e).__name__}")
            continue
        stats["models"] += 1
        for d in model.diagrams:
            where = {"model": rel, "diagram": d.uuid, "name": d.name}
            try:
                td = rig.treedata(model, d)
                base = snapshot(diagram, rig.parse(model, d))
            except Exception as e:
                stats["parse_errors"] += 1
                out.find(f"parse_diagram|raises|{type(e).__name__}", f"{rel} {d.name!r}: {type(e).__name__}: {e}", {"kind": "parse", **where, "v": [0, 0]})
                continue
            stats["diagrams"] += 1
            stats["elements"] += len(base) - 1
            for e in base:
                if e["t"] == "edge":
                    stats["edges"][str(e["style"])] = stats["edges"].get(str(e["style"]), 0) + 1
                    if "Edge" in e["ends_t"]:
                        stats["edges_attached_to_edges"] = stats.get("edges_attached_to_edges", 0) + 1
                if e["t"] == "box" and e["port"]:
                    stats["ports"] += 1
            nontrivial = any(e["t"] == "edge" or e.get("parent") for e in base)
            for sig, what in soundness(base):
                out.find(sig, f"{rel} {d.name!r}: {what}", {"kind": "sound", **where, "v": [0, 0]})
            tops = rig.top_nodes(td)
            lcs = [lc for _, lc in tops]
            # --- rounding-directed translations (all models, both tiers; this is the cheap form of the random sweep of
            # the thorough tier that found 47523e4).  An edge end stored on the border of its box is computed as
            # `bounds.pos + bounds.size @ anchor + rel`: the rounding error of the product is absorbed when the sum is large
            # and exposed when the sum is small, so (i) every corner of every box that carries a visible edge end is moved
            # onto the origin once (top-left and bottom-right corner; thorough: all four), and (ii) a few large odd vectors
            # (2^k + 1: the sums change their binade, the border coordinate is no longer exactly representable relative to
            # the products) are applied.  Judged like every other translation: equivariance within PTOL + soundness.
            for v in inexact_vectors(ctx, rng, base):
                stats["inexact_translations"] = stats.get("inexact_translations", 0) + 1
                out.case(("translate-inexact", rel, d.uuid, v), {"stream": "parser.translate-inexact", **where, "v": list(v)} if stats["inexact_translations"] == 1 else None, nontrivial)
                translated_parse(out, rig, diagram, model, d, rel, where, lcs, base, v)
            if rel in light:
                out.case(("parse", rel, d.uuid), None, nontrivial)
                continue
            ends = rig.edge_ends(td)
            vecs = vectors_fixed[: ctx.pick(3, 5)] + [(rng.randint(-10000, 10000), rng.randint(-10000, 10000)) for _ in range(ctx.pick(3, 15))]
            for v in vecs:
                stats["translations"] += 1
                out.case(("translate", rel, d.uuid, v), {"stream": "parser.translate", **where, "v": list(v)} if stats["translations"] == 1 else None, nontrivial)
                translated_parse(out, rig, diagram, model, d, rel, where, lcs, base, v)
            # move one top-level node
            if len(tops) >= 1:
                order = list(range(len(tops)))
                rng.shuffle(order)
                for k in (order if ctx.thorough else order[:4]):  # thorough: every top-level node once
                    node, lc = tops[k]
                    nid = node.get("element") or node.get(rig.C.ATT_XMID)
                    v = (rng.choice([-250, -40, -7, 13, 90, 400]), rng.choice([-300, -25, 5, 60, 350]))
                    stats["moves"] += 1
                    out.case(("move", rel, d.uuid, nid, v), None, nontrivial)
                    with shifted([lc], *v):
                        try:
                            moved = snapshot(diagram, rig.parse(model, d))
                        except Exception as e:
                            out.find(f"parse_diagram|moved|raises|{type(e).__name__}", f"{rel} {d.name!r} node {nid} moved by {v}: {type(e).__name__}: {e}",
                                     {"kind": "move", **where, "node": nid, "index": k, "v": list(v)})
                            continue
                    problem = judge_move(base, moved, nid, v, ends)
                    if problem:
                        out.find("parse_diagram|moved|unrelated-element-changed", f"{rel} {d.name!r} node {nid} moved by {v}: {problem}",
                                 {"kind": "move", **where, "node": nid, "index": k, "v": list(v)})
    out.extra["parser"] = stats
    out.samples.append({"stream": "parser", "models": stats["models"], "diagrams": stats["diagrams"]})


def judge_move(base: list[dict], moved: list[dict], nid: str, v, ends: dict | None = None) -> str | None:
    """only the node, its contents and the edges attached to them may change"""
    if len(base) != len(moved):
        return f"{len(base) - 1} elements became {len(moved) - 1}"
    boxes = {e["uuid"]: e for e in base if e["t"] == "box"}
    if nid not in boxes and ends is not None:
        # visual shapes with a semantic target (representation links) are keyed by their notation id
        nid = next((x for x in ends.get("<aliases>", {}).get(nid, ()) if x in boxes), nid)
    if nid not in boxes:
        # the node produced no element (skipped by its factory): nothing may change at all
        sub = set()
    else:
        sub = {nid}
        grew = True
        while grew:
            grew = False
            for u, b in boxes.items():
                if u not in sub and b["parent"] in sub:
                    sub.add(u)
                    grew = True
    affected = set(sub)
    grew = True
    while grew:
        grew = False
        for e in base:
            if e["t"] == "edge" and e["uuid"] not in affected and (
                    e["src"] in affected or e["tgt"] in affected or set((ends or {}).get(e["uuid"], ())) & affected):
                affected.add(e["uuid"])
                grew = True
    for a, b in zip(base, moved):
        if a["t"] == "viewport":
            continue
        if a["uuid"] in sub:
            pr = diff_elements(a, b, v)
            if pr:
                return "moved subtree: " + pr
        elif a["uuid"] in affected:
            continue
        else:
            pr = diff_elements(a, b, (0, 0))
            if pr:
                return "unrelated: " + pr
    return None


# ------------------------------------------------------------------ entry points


def run(ctx: Ctx) -> Outcome:
    diagram = _imports()
    out = Outcome(rule=RULE)
    out.distinct = CountingSet()
    lattice(ctx, out, diagram)
    kernel_random(ctx, out, diagram)
    kernel_misc(ctx, out, diagram)
    edge_chain(ctx, out, diagram)
    edge_ends(ctx, out, diagram)
    robustness(ctx, out, diagram)
    box_tree(ctx, out, diagram)
    circle_snap(ctx, out, diagram)
    parser_run(ctx, out)
    out.exhaustive = True  # the integer lattice named in RULE is enumerated completely
    import capellambse.diagram._json_enc as je
    out.extra["source_fingerprints"] = {
        **common.source_fingerprint("capellambse/diagram/_diagram.py", ["Box", "Box.vector_snap", "Box.snap_to_parent", "Box.bounds", "Edge.vector_snap", "Edge.bounds", "Diagram.calculate_viewport"]),
        **common.source_fingerprint("capellambse/diagram/_vector2d.py", ["Vector2D", "line_intersect"]),
        **common.source_fingerprint("capellambse/aird/_edge_factories.py", ["route_manhattan", "route_tree", "route_oblique", "snap_oblique", "snap_manhattan", "snap_tree",
                                                                            "snaptarget", "generic_factory", "_extract_relative_bendpoints"]),
        **{"box." + k: v for k, v in common.source_fingerprint("capellambse/aird/_box_factories.py", ["generic_factory"]).items()},
        **common.source_fingerprint("capellambse/diagram/_diagram.py", ["Circle.vector_snap"]),
    }
    out.extra["intround_note"] = {"_intround(-1.2)": je._intround(-1.2), "_intround(1.2)": je._intround(1.2),
                                  "remark": "JSON encoder rounding is not translation-invariant below zero; outside C17's observation point (Diagram objects)"}
    return out


def replay(ctx: Ctx, case: dict):
    diagram = _imports()
    kind = case.get("kind")
    if kind == "snap":
        box = [float(F(v)) if isinstance(v, str) else v for v in case["box"]]
        p = [float(F(v)) if isinstance(v, str) else v for v in case["p"]]
        s = [float(F(v)) if isinstance(v, str) else v for v in case["s"]]
        res = impl_snap(diagram, box, case["port"], p, s, case["style"])
        sig = classify_snap([F(v) for v in case["box"]], [F(v) for v in case["p"]], [F(v) for v in case["s"]], case["style"], res)
        return f"{sig}: Box.vector_snap -> {res[1]}" if sig else None
    if kind in ("edge", "snapend"):
        rig = EdgeRig(diagram)
        c = case_unjson({k: v for k, v in case.items() if k != "kind"})
        v = tuple(int(x) for x in c["v"])
        if kind == "edge":
            bad = edge_monitor(rig, c, rig.edge(c), v)
        else:
            bad = snapend_monitor(rig, c, rig.snapend(c), v)
        return "; ".join(f"{sig}: {what}" for sig, what in bad[:3]) or None
    if kind == "edgeend":
        rig = EdgeRig(diagram)

        def dec_end(e):
            if "edge" in e:
                return {"edge": [(F(x), F(y)) for x, y in e["edge"]], "labels": [tuple(F(x) for x in l) for l in e["labels"]]}
            return {"box": tuple(F(x) for x in e["box"]), "port": e["port"], "labels": []}

        c = {"src": dec_end(case["src"]), "tgt": dec_end(case["tgt"]), "anchor": tuple(F(a) for a in case["anchor"]),
             "rel": [tuple(r) for r in case["rel"]] if case["rel"] is not None else None, "style": case["style"]}
        bad = edge_end_monitor(rig, c, impl_edge_end(rig, c), tuple(case["v"]))
        return "; ".join(f"{sig}: {what}" for sig, what in bad[:3]) or None
    if kind == "circle":
        c = {k: ([F(x) for x in v] if isinstance(v, list) else (F(v) if k == "r" else v)) for k, v in case.items() if k not in ("kind", "v", "gen")}
        bad = circle_monitor(diagram, c, impl_circle(diagram, c), tuple(case["v"]))
        return "; ".join(f"{sig}: {what}" for sig, what in bad[:3]) or None
    if kind == "tree":
        trig = TreeRig(diagram)

        def dec(n):
            return {"layout": tuple(n["layout"]), "port": n["port"], "flat": n["flat"], "kids": [dec(k) for k in n["kids"]]}

        root = dec(case["root"])
        bad = [b for b in tree_monitor(trig, root, trig.build(root), tuple(case["v"])) if b[0] != "<outside-domain>"]
        return "; ".join(f"{sig}: {what}" for sig, what in bad[:3]) or None
    if kind in ("parse", "sound", "translate", "move"):
        rig = ParserRig()
        model = rig.load(case["model"])
        d = model.diagrams.by_uuid(case["diagram"])
        td = rig.treedata(model, d)
        tops = rig.top_nodes(td)
        try:
            base = snapshot(diagram, rig.parse(model, d))
            if kind == "move":
                with shifted([tops[case["index"]][1]], *case["v"]):
                    moved = snapshot(diagram, rig.parse(model, d))
                return judge_move(base, moved, case["node"], case["v"], rig.edge_ends(td))
            with shifted([lc for _, lc in tops], *case["v"]):
                moved = snapshot(diagram, rig.parse(model, d))
        except Exception as e:
            return f"{type(e).__name__}: {e}"
        if kind == "translate":
            if len(moved) != len(base):
                return "element count changed"
            for a, b in zip(base, moved):
                pr = diff_elements(a, b, case["v"])
                if pr:
                    return pr
            return None
        bad = soundness(moved)
        return "; ".join(w for _, w in bad[:3]) or None
    if kind == "port":
        px, py, pw, ph, cx, cy, cw, ch = (F(v) for v in case["v"])
        parent = diagram.Box((float(px), float(py)), (float(pw), float(ph)))
        try:
            child = diagram.Box((float(cx), float(cy)), (float(cw), float(ch)), port=True, parent=parent)
        except (AssertionError, ValueError) as e:
            return f"snap_to_parent raised {err_kind(e)}"
        if not port_attached(px, py, pw, ph, F(child.pos.x), F(child.pos.y), cw, ch, F(1, 10**8)):
            return f"port ends at {tuple(child.pos)}, not attached to parent {case['v'][:4]}"
        return None
    if kind == "child":
        px, py, pw, ph, cx, cy, cw, ch = (F(v) for v in case["v"])
        parent = diagram.Box((float(px), float(py)), (float(pw), float(ph)))
        child = diagram.Box((float(cx), float(cy)), (float(cw), float(ch)), parent=parent)
        r = [child.pos.x, child.pos.y, child._size.x, child._size.y]
        if F(r[0]) < px + 2 or F(r[1]) < py + 2 or (r[2] > 0 and F(r[0]) + F(r[2]) > px + pw - 2) or (r[3] > 0 and F(r[1]) + F(r[3]) > py + ph - 2):
            return f"child -> {r} overflows parent {case['v'][:4]}"
        return None
    if kind == "viewport":
        rects = [[F(v) for v in r] for r in case["rects"]]
        dg = diagram.Diagram("t")
        for k, r in enumerate(rects):
            dg.add_element(diagram.Box((float(r[0]), float(r[1])), (float(r[2] - r[0]), float(r[3] - r[1])), uuid=f"b{k}"), False)
        dg.calculate_viewport()
        vp = dg.viewport
        for r in rects:
            if not (vp.pos.x <= r[0] and vp.pos.y <= r[1] and r[2] <= vp.pos.x + vp.size.x and r[3] <= vp.pos.y + vp.size.y):
                return f"viewport {tuple(vp.pos)},{tuple(vp.size)} misses {[str(v) for v in r]}"
        return None
    if kind == "boxsnap":
        e, f, a, b, c, d = (F(v) for v in case["v"])
        r = diagram.Vector2D(float(e), float(f)).boxsnap((float(a), float(b)), (float(c), float(d)))
        if not on_outline(min(a, c), min(b, d), abs(a - c), abs(b - d), F(r.x), F(r.y)):
            return f"boxsnap -> {tuple(r)} off the outline"
        return None
    # remaining small kernel functions: re-run that part
    o = Outcome()
    kernel_misc(Ctx("C17", "quick", ctx.seed), o, diagram)
    for f in o.findings:
        if f.replay.get("kind") == kind:
            return f.what
    return None
