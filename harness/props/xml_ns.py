"""Namespace recomputation before save (`ModelFile.update_namespaces`, `MelodyLoader.update_namespaces`,
`referenced_viewpoints`, `_namespaces.get_namespace_prefix`, `helpers.xtype_of`) - shared by C01 and C02.

Correspondence (model = `Capella/Model/XmlNsUpdate.lean` with the plugin table generated from the live
`NAMESPACES_PLUGINS`, driver ops `xml.updateNs` / `xml.updateAll` / `xml.viewpoints` / `xml.nsPrefix`):
  * `ns.corpus`     every semantic corpus fragment with the viewpoints of its own .afm (nothing may change), and the same
                    tree after all users of one type prefix were removed / a first user of a new one was added
  * `ns.history`    tree-level edit histories on ONE persistent lxml tree: add / remove the first / last element of a plugin
                    namespace, unknown declared / undeclared prefixes, xmi:type, empty types, namespaced tags (matching,
                    mismatching, unsupported, unknown URIs), viewpoint version changes, comments around the root, root
                    text / tail, declarations on children, foreign attribute namespaces; `update_namespaces` after every edit
  * `ns.prefix`     `get_namespace_prefix` over the URLs of the table with versions swapped, stems cut, unknown URLs
  * `ns.viewpoints` `referenced_viewpoints` on corpus .afm trees and synthetic ones (nested / missing Metadata, duplicates,
                    missing attributes)
  * `ns.loader`     `MelodyLoader.update_namespaces` over several fragments of mixed kinds
  * `ns.api`        API-level namespace histories (below): the in-memory tree before `save()` + the viewpoints -> the tree
                    after `save()`

Monitors (independent of the model; raw lxml / byte scans only):
  * API-level namespace histories on scratch copies of corpus models: remove every user of a type prefix through the
    public API (the LAST user of a namespace goes away), add objects of a type whose prefix the root does not declare
    (the FIRST user appears), in several rounds, `save()` after each; then
      - the root of every written semantic fragment declares exactly the prefixes a raw scan of the written file finds in
        use (`xmi`, `xsi`, tag and attribute prefixes, prefixes of xsi:type / xmi:type values) - nothing missing, nothing
        unused, nothing declared below the root;
      - loading the written files into a fresh model and saving it untouched reproduces every file byte for byte
        (write -> parse -> write is a fixpoint after edits, not only for untouched corpus files).
"""

from __future__ import annotations

import copy
import json
import logging
import pathlib
import re
import shutil
import sys

import common

import props.c01 as c01

XSI_T = "{%s}type" % c01.XSI
XMI_T = "{%s}type" % c01.XMI
EXC = ("AssertionError", "CorruptModelError", "UnsupportedPluginError", "UnsupportedPluginVersionError", "RuntimeError",
       "ValueError", "KeyError")


# ------------------------------------------------------------------ raw scans (independent of capellambse and of the model)


def type_prefix(e) -> str | None:
    for att in (XSI_T, XMI_T):
        xt = e.get(att)
        if xt:
            return xt.split(":")[0] if ":" in xt else None
    return None


def raw_prefix_scan(root) -> tuple[set, set, int]:
    """(prefixes the root declares, prefixes in use anywhere in the tree, number of declarations below the root)"""
    declared = {k for k in root.nsmap if k}
    used = {"xmi", "xsi"}
    below = 0
    for e in root.iter():
        if not isinstance(e.tag, str):
            continue
        if e.prefix:
            used.add(e.prefix)
        for a in e.attrib:
            if a.startswith("{"):
                uri = a[1:].split("}")[0]
                used.update(k for k, v in e.nsmap.items() if v == uri and k)
        for att in (XSI_T, XMI_T):
            xt = e.get(att)
            if xt and ":" in xt:
                used.add(xt.split(":")[0])
        if e is not root:
            below += sum(1 for k, v in e.nsmap.items() if e.getparent().nsmap.get(k) != v)
    return declared, used, below


def check_written_namespaces(out, etree, folder: pathlib.Path, names, label: str, replay: dict) -> None:
    """every written semantic fragment: declared prefixes == used prefixes (raw scan of the file)"""
    for name in names:
        if pathlib.PurePosixPath(name).suffix not in c01.SEMANTIC_SUFFIXES:
            continue
        try:
            root = etree.parse(str(folder / name), etree.XMLParser(huge_tree=True)).getroot()
        except (OSError, etree.XMLSyntaxError):
            continue  # reported by the reload check
        declared, used, below = raw_prefix_scan(root)
        out.traces_validated += 1
        if declared - used:
            out.find("MelodyModel.save|unused-namespace-declared",
                     f"{label}: the root of {name} declares {sorted(declared - used)} which nothing in the file uses "
                     "(Capella declares exactly the namespaces in use; saving the reloaded file drops them again)",
                     {**replay, "observed": "unused:" + ",".join(sorted(declared - used))})
        if used - declared:
            out.find("MelodyModel.save|used-namespace-undeclared",
                     f"{label}: {name} uses the prefixes {sorted(used - declared)} which its root does not declare",
                     {**replay, "observed": "undeclared:" + ",".join(sorted(used - declared))})
        if below:
            out.find("MelodyModel.save|namespace-declared-below-root",
                     f"{label}: {name} has {below} namespace declarations below the root element", replay)
        out.hit("written-namespaces-checked")


def resave_fixpoint(out, loader_fn, path: pathlib.Path, label: str, replay: dict) -> None:
    """load what was written into a fresh model, save it untouched: every file must keep its bytes"""
    folder = path.parent
    before = {p.name: p.read_bytes() for p in folder.iterdir() if p.is_file()}
    try:
        m2 = loader_fn(path)
        m2.save()
    except Exception as e:  # noqa: BLE001
        out.find(f"MelodyModel.save|resave-raises|{type(e).__name__}",
                 f"{label}: the saved model cannot be loaded and saved again: {type(e).__name__}: {str(e)[:200]}", replay)
        return
    out.traces_validated += 1
    for name, b in before.items():
        now = (folder / name).read_bytes()
        if now != b:
            a, c = b.split(b"\n"), now.split(b"\n")
            i = next((i for i, (x, y) in enumerate(zip(a, c)) if x != y), min(len(a), len(c)))
            out.find(f"MelodyModel.save|save-reload-save-differs|{pathlib.PurePosixPath(name).suffix}",
                     f"{label}: saving, loading and saving again changes {name} (line {i + 1}: "
                     f"{a[i][:120] if i < len(a) else b''!r} -> {c[i][:120] if i < len(c) else b''!r})",
                     {**replay, "observed": "resave:" + name})
    out.hit("resave-fixpoint-checked")


# ------------------------------------------------------------------ implementation access (tree level)


def build_doc(etree, d):
    """like c01.build_doc, with comment tails"""
    root = c01.build_elem(etree, d["root"])
    for text, tail in d["pre"]:
        c = etree.Comment(text)
        root.addprevious(c)
        if tail is not None:
            c.tail = tail
    for text, tail in reversed(d["post"]):
        c = etree.Comment(text)
        root.addnext(c)
        if tail is not None:
            c.tail = tail
    return root


def _private_names(cls) -> set[str]:
    """names of name-mangled private attributes the methods of `cls` refer to (from the code objects)"""
    out: set[str] = set()
    pre = f"_{cls.__name__}__"
    for v in vars(cls).values():
        f = getattr(v, "__func__", v)
        code = getattr(f, "__code__", None)
        if code is not None:
            out |= {n for n in code.co_names if n.startswith(pre)}
    return out


def model_file(core, root, name="x.capella"):
    mf = core.ModelFile.__new__(core.ModelFile)
    mf.filename = pathlib.PurePosixPath(name)
    mf.root = root
    # the id index is rebuilt after a replacement; duplicates only warn.  The object is built without __init__, so the
    # flag is set under every private name of the class that looks like it (the pinned name first)
    names = {"_ModelFile__ignore_uuid_dups"} | {n for n in _private_names(core.ModelFile) if "dup" in n.lower()}
    for n in names:
        setattr(mf, n, True)
    reindex(mf)  # the state a loaded file is in (ModelFile.__init__ ends with this call)
    return mf


def reindex(mf) -> None:
    """`idcache_rebuild()`; a tree with a tag in an unknown / unsupported namespace cannot be indexed (such a file does
    not load either) - `update_namespaces` is still called on it and has to raise the same way"""
    try:
        mf.idcache_rebuild()
    except Exception as e:  # noqa: BLE001
        if type(e).__name__ not in EXC:
            raise


def impl_update(core, mf, vps: dict) -> dict:
    old = mf.root
    try:
        mf.update_namespaces(vps)
    except Exception as e:  # noqa: BLE001
        n = type(e).__name__
        if n not in EXC:
            raise
        return {"raises": n}
    flags: set = set()
    doc = c01.export_doc(mf.root, flags)
    if flags:
        return {"unrepresentable": sorted(flags)}
    return {"doc": doc, "replaced": mf.root is not old}


def count_decls_below(doc: dict) -> int:
    def go(e):
        return sum(len(k[1]) + go(k) for k in e[5])
    return go(doc["root"])


def compare_update(out, stream: str, case: dict, before: dict, iv: dict, mv) -> None:
    """model answer against the implementation; unmodelled outcomes are counted and (needs-fixup) checked two-sidedly"""
    if not isinstance(mv, dict):
        out.disagree(stream, case, json.dumps(iv)[:400], json.dumps(mv)[:400])
        return
    r = mv.get("raises")
    if r == "unmodelled:child-declares":
        out.hit("updateNs:unmodelled-child-declares")
        if "raises" in iv:
            out.disagree(stream, case, json.dumps(iv)[:300], json.dumps(mv)[:300])
        return
    if r == "unmodelled:needs-fixup":
        out.hit("updateNs:unmodelled-needs-fixup")
        invented = "doc" in iv and (count_decls_below(iv["doc"]) > count_decls_below(before)
                                    or any(re.fullmatch(r"ns\d+", p) for p, _ in iv["doc"]["root"][1]))
        if not invented:
            out.disagree(stream, {**case, "note": "model: lxml must invent a declaration"}, json.dumps(iv)[:400], json.dumps(mv)[:200])
        return
    if r:
        out.hit("updateNs:raises-" + r)
        if iv != {"raises": r}:
            out.disagree(stream, case, json.dumps(iv)[:400], json.dumps(mv)[:400])
        return
    out.hit("updateNs:replaced" if mv.get("replaced") else "updateNs:same")
    for k in mv.get("asks", []):
        out.hit("updateNs:ask-" + k)
    want = {"doc": iv.get("doc"), "replaced": iv.get("replaced")}
    got = {"doc": mv.get("doc"), "replaced": mv.get("replaced")}
    if want != json.loads(json.dumps(got)) or "doc" not in iv:
        ks = "replaced" if want["replaced"] != got["replaced"] else "doc"
        out.disagree(stream, {**case, "differs": ks}, json.dumps(iv, ensure_ascii=False)[:600], json.dumps(mv, ensure_ascii=False)[:600])


# ------------------------------------------------------------------ tree-level generators


def plugin_pool():
    import capellambse._namespaces as _n

    return _n


VERSIONS = ["5.0.0", "5.2.0", "6.0.0", "6.1.0", "6.1.2", "7.0.0", "7.1.0", "4.9.0", "10.0.0", "6", "6.0", "6.0.0.1", "1.2.3", "0.12.3",
            "", "x.y", "6.a.0", "6..0", ".", "6.0.", "v6"]


def rand_vps(rng) -> dict:
    vps = {}
    if rng.random() < 0.9:
        vps["org.polarsys.capella.core.viewpoint"] = rng.choice(VERSIONS[:7] if rng.random() < 0.8 else VERSIONS)
    if rng.random() < 0.6:
        vps["org.polarsys.capella.vp.requirements"] = rng.choice(VERSIONS)
    if rng.random() < 0.6:
        vps["org.polarsys.kitalpha.vp.requirements"] = rng.choice(VERSIONS)
    if rng.random() < 0.2:
        vps["other.vp"] = "1.0.0"
    return vps


def rand_type_prefix(rng, _n, root) -> str:
    keys = list(_n.NAMESPACES_PLUGINS)
    k = rng.random()
    if k < 0.55:
        return rng.choice(keys)
    if k < 0.7:
        decl = [p for p in root.nsmap if p]
        return rng.choice(decl) if decl else "zz"
    if k < 0.8:
        return rng.choice(["org.polarsys.capella.core.data.pa.deployment", "org.polarsys.capella.core.data.information.communication"])
    return rng.choice(["zz", "yy", "", "xml", "ns0", "Requirements ", "requirements"])


def uri_variants(rng, _n, vps: dict | None = None) -> str:
    p = rng.choice(list(_n.NAMESPACES_PLUGINS.values()))
    base = p.name
    k = rng.random()
    if p.version is not None:
        if vps and k < 0.6 and vps.get(p.viewpoint):  # the URI the activated viewpoint demands: stays in the modelled domain
            parts = vps[p.viewpoint].split(".")
            return base + ".".join(parts[:1] + ["0"] * (len(parts) - 1))
        return base + rng.choice(VERSIONS[:12] if k < 0.9 else VERSIONS)
    if k < 0.6:
        return base
    if k < 0.75:
        return base.rstrip("/") + "/" + rng.choice(VERSIONS[:6])
    if k < 0.85:
        return base + "/"
    return rng.choice(["http://example.org/unknown", "http://example.org/unknown/1.0", "urn:x", "http://www.polarsys.org/capella/core/"])


class TreeHistory:
    """edit history on one persistent lxml tree; after every edit `update_namespaces` runs on the very same ModelFile"""

    def __init__(self, ctx, out, cases: list, etree, core, hid, focus: str | None = None):
        self.ctx, self.out, self.cases, self.etree, self.core, self.hid = ctx, out, cases, etree, core, hid
        self.focus = focus  # an edit kind that is chosen half of the time (C02: "placeholder")
        self._n = plugin_pool()
        rng = ctx.rng
        d = {"pre": [], "root": c01.synth(rng), "post": []}
        if rng.random() < 0.4:
            d["pre"].append(["Capella_Version_6.0.0", None])
        # a root the loader could have read: either a plain tag or a known modeller root
        self.vps = rand_vps(rng)
        if rng.random() < 0.5:
            v = rng.choice(["5.0.0", "6.0.0", "7.0.0"])
            cv = self.vps.get("org.polarsys.capella.core.viewpoint")
            if cv and re.fullmatch(r"\d+(\.\d+)*", cv) and rng.random() < 0.8:
                parts = cv.split(".")
                v = ".".join(parts[:1] + ["0"] * (len(parts) - 1))
            d["root"][0] = "{http://www.polarsys.org/capella/core/modeller/%s}Project" % v
            d["root"][1] = [o for o in d["root"][1] if not o[1].endswith("/x/")] + \
                [["org.polarsys.capella.core.data.capellamodeller", "http://www.polarsys.org/capella/core/modeller/" + v]]
        elif d["root"][0].startswith("{"):
            d["root"][0] = "Root"
        self.mf = model_file(core, build_doc(etree, d))
        self.step_no = 0

    def elems(self):
        return [e for e in self.mf.root.iter() if isinstance(e.tag, str)]

    def edit(self) -> str:
        rng, etree, root = self.ctx.rng, self.etree, self.mf.root
        op = rng.choice(["add"] * 9 + ["remove-prefix"] * 7 + ["remove-one"] * 3 + ["xmi-type"] * 3 + ["empty-type"] * 3 + ["ns-tag"] * 3
                        + ["vps"] * 4 + ["comment"] * 4 + ["root-text"] * 3 + ["unused-decl"] * 3 + ["nothing"] * 2
                        + ["child-decl", "foreign-attr", "shadow"] + ["placeholder"] * 6)
        if self.focus is not None and rng.random() < 0.5:
            op = self.focus
        if op == "add":
            p = rand_type_prefix(rng, self._n, root)
            parent = rng.choice(self.elems())
            if parent.text is None:
                k = etree.SubElement(parent, rng.choice(c01.TAGS))
                k.set(XSI_T, (p + ":" if rng.random() < 0.95 else p) + "T" + str(rng.randint(0, 9)))
                k.set("id", "n%d" % rng.randint(0, 10**6))
        elif op == "placeholder":
            # a fragment placeholder (what stays in the parent file of a fragmented element): containment tag, xsi:type and
            # href, no id, no children. Either an existing typed element turns into the placeholder of its own fragment, or
            # a new one appears; half of the time every OTHER user of its type prefix goes away, so that the namespace is
            # used by the placeholder alone (the main file of a project fragmented per architecture layer)
            typed = [e for e in self.elems() if e is not root and type_prefix(e) is not None and e.get("href") is None]
            k = None
            if typed and rng.random() < 0.5:
                k = rng.choice(typed)
                for c in list(k):
                    k.remove(c)
                k.text = None
                k.set("href", "fragments/f%d.capellafragment#%s" % (rng.randint(0, 9), k.attrib.pop("id", None) or "x"))
            else:
                parent = rng.choice([e for e in self.elems() if e.get("href") is None])
                if parent.text is None:
                    k = etree.SubElement(parent, rng.choice(c01.TAGS))
                    k.set(XSI_T, rand_type_prefix(rng, self._n, root) + ":T" + str(rng.randint(0, 9)))
                    k.set("href", "fragments/f%d.capellafragment#n%d" % (rng.randint(0, 9), rng.randint(0, 10**6)))
            if k is not None and rng.random() < 0.5:
                p = type_prefix(k)
                anc = set(map(id, k.iterancestors()))
                for e in [e for e in self.elems() if e is not root and e is not k and id(e) not in anc and type_prefix(e) == p]:
                    if e.getparent() is not None:
                        e.getparent().remove(e)
                if not any(type_prefix(e) == p for e in self.elems() if e is not k):
                    self.out.hit("ns-edit:placeholder-is-sole-user-of-its-prefix")
        elif op == "remove-prefix":
            ps = sorted({type_prefix(e) for e in self.elems() if e is not root and type_prefix(e) is not None})
            if ps:
                p = rng.choice(ps)
                for e in [e for e in self.elems() if e is not root and type_prefix(e) == p]:
                    if e.getparent() is not None:
                        e.getparent().remove(e)
        elif op == "remove-one":
            es = [e for e in self.elems() if e is not root]
            if es:
                e = rng.choice(es)
                e.getparent().remove(e)
        elif op == "xmi-type":
            e = rng.choice(self.elems())
            e.set(XMI_T, rand_type_prefix(rng, self._n, root) + ":M")
            if rng.random() < 0.5 and e.get(XSI_T) is not None:
                e.set(XSI_T, "")
        elif op == "empty-type":
            rng.choice(self.elems()).set(XSI_T, rng.choice(["", ":", ":x", "noColon", "a:b:c"]))
        elif op == "ns-tag":
            parent = rng.choice(self.elems())
            if parent.text is None:
                uri = uri_variants(rng, self._n, self.vps)
                try:
                    etree.SubElement(parent, "{%s}%s" % (uri, rng.choice(["Thing", "ownedX"])))
                except ValueError:
                    pass
        elif op == "vps":
            old = self.vps.get("org.polarsys.capella.core.viewpoint")
            self.vps = rand_vps(rng)
            if old and rng.random() < 0.7:  # mostly keep the Capella version: the root's own namespace stays valid
                self.vps["org.polarsys.capella.core.viewpoint"] = old
        elif op == "comment":
            c = etree.Comment(rng.choice(["c1", "Capella_Version_7.0.0", "x y"]))
            (root.addnext if rng.random() < 0.6 else root.addprevious)(c)
            if rng.random() < 0.3:
                c.tail = rng.choice(["t", " "])
        elif op == "root-text":
            if len(root) == 0 or rng.random() < 0.5:
                root.text = rng.choice(["txt", " ", None])
            else:
                root.tail = rng.choice(["tl", None])
        elif op == "child-decl":
            parent = rng.choice(self.elems())
            if parent.text is None:
                etree.SubElement(parent, "k", nsmap={rng.choice(["q", "Requirements", "zz"]): "http://example.org/q%d" % rng.randint(0, 3)})
        elif op == "foreign-attr":
            rng.choice(self.elems()).set("{http://example.org/foreign}a", "v")
        elif op == "shadow":
            # an unknown prefix bound to two different URIs at two places (the assertion of the loop)
            decl = [p for p in root.nsmap if p and p not in self._n.NAMESPACES_PLUGINS]
            p = rng.choice(decl) if decl else "zz"
            etree.SubElement(root, "k").set(XSI_T, p + ":A")
            etree.SubElement(etree.SubElement(root, "k", nsmap={p: "http://example.org/shadowed"}), "j").set(XSI_T, p + ":B")
        elif op == "unused-decl":
            # a root that declares something nobody uses (only possible by rebuilding it, as the loader itself does)
            nsmap = dict(root.nsmap)
            nsmap[rng.choice(["unused1", "Requirements", "re"])] = "http://example.org/unused"
            try:
                new = root.makeelement(root.tag, attrib=dict(root.attrib), nsmap=nsmap)
            except ValueError:
                return op
            new.extend(root)
            for i in reversed(list(root.itersiblings(preceding=True))):
                new.addprevious(i)
            for i in reversed(list(root.itersiblings())):
                new.addnext(i)
            self.mf.root = new
        return op

    def step(self):
        op = self.edit()
        reindex(self.mf)  # raw lxml edits: bring the file's indices up to date, as the object layer would
        flags: set = set()
        before = c01.export_doc(self.mf.root, flags)
        if flags:
            self.out.hit("unrepresentable:" + ",".join(sorted(flags)))
            return
        iv = impl_update(self.core, self.mf, self.vps)
        self.step_no += 1
        self.out.hit("ns-edit:" + op)
        key = ("ns-history", self.ctx.seed, self.hid, self.step_no)
        self.out.case(key, {"edit": op, "vps": self.vps, "impl": {k: (v if k != "doc" else "...") for k, v in iv.items()}}
                      if self.hid == 0 and self.step_no <= 2 else None, "raises" in iv or bool(iv.get("replaced")))
        if "unrepresentable" in iv:
            self.out.hit("unrepresentable:" + ",".join(iv["unrepresentable"]))
            return
        self.cases.append(({"op": "xml.updateNs", "doc": before, "vps": [[k, v] for k, v in self.vps.items()]},
                           ("ns.history", {"history": self.hid, "step": self.step_no, "edit": op, "vps": dict(self.vps), "doc": before}, iv)))


def gen_tree_histories(ctx, out, cases: list, n: int | None = None, focus: str | None = None) -> None:
    etree, exs, core = c01.impl()
    logging.getLogger("capellambse").setLevel(logging.CRITICAL)
    for hid in range(ctx.pick(120, 900) if n is None else n):
        h = TreeHistory(ctx, out, cases, etree, core, hid if focus is None else f"{focus}-{hid}", focus)
        for _ in range(ctx.rng.randint(3, 9)):
            h.step()


def corpus_vps(etree, folder: pathlib.Path) -> dict:
    """the viewpoints of a corpus model, read from its .afm with plain lxml (harness' own reading)"""
    vps = {}
    for afm in sorted(folder.glob("*.afm")):
        for e in etree.parse(str(afm)).getroot().iter("viewpointReferences"):
            if e.get("vpId") is not None and e.get("version") is not None:
                vps[e.get("vpId")] = e.get("version")
        break
    return vps


def gen_corpus(ctx, out, cases: list) -> None:
    """every semantic corpus fragment, untouched (must stay as it is), then with all users of one prefix removed and
    with a first user of an undeclared plugin prefix added"""
    etree, exs, core = c01.impl()
    _n = plugin_pool()
    for p in c01.corpus_files(ctx):
        if p.suffix not in core.SEMANTIC_EXTS:
            continue
        rel = str(p.relative_to(common.REPO))
        if not list(p.parent.glob("*.afm")):
            continue  # an expected-output file without a model around it: no viewpoints to read
        vps = corpus_vps(etree, p.parent)
        base = etree.parse(str(p), c01.parser(etree)).getroot()
        variants = ["untouched"]
        prefixes = sorted({type_prefix(e) for e in base.iter() if isinstance(e.tag, str) and e is not base and type_prefix(e)})
        variants += [("remove", q) for q in ctx.rng.sample(prefixes, min(len(prefixes), ctx.pick(2, 6)))]
        undeclared = [k for k in _n.NAMESPACES_PLUGINS if k not in base.nsmap]
        variants += [("add", q) for q in ctx.rng.sample(undeclared, min(len(undeclared), ctx.pick(2, 6)))]
        for v in variants:
            root = copy.deepcopy(base.getroottree()).getroot()
            if v != "untouched" and v[0] == "remove":
                for e in [e for e in root.iter() if isinstance(e.tag, str) and e is not root and type_prefix(e) == v[1]]:
                    if e.getparent() is not None:
                        e.getparent().remove(e)
            elif v != "untouched":
                k = etree.SubElement(root[len(root) // 2] if len(root) else root, "ownedExtensions")
                k.set(XSI_T, v[1] + ":New")
            flags: set = set()
            before = c01.export_doc(root, flags)
            if flags:
                out.hit("unrepresentable:" + ",".join(sorted(flags)))
                continue
            mf = model_file(core, root, p.name)
            iv = impl_update(core, mf, vps)
            label = v if v == "untouched" else f"{v[0]}:{v[1]}"
            out.case(("ns-corpus", rel, label), None, True)
            out.traces_validated += 1
            if v == "untouched" and iv.get("replaced") is not False:
                out.find("ModelFile.update_namespaces|untouched-root-replaced",
                         f"update_namespaces changes the root of the untouched corpus file {rel}: {json.dumps(iv)[:200]}",
                         {"kind": "ns-corpus", "path": rel})
            cases.append(({"op": "xml.updateNs", "doc": before, "vps": [[k, x] for k, x in vps.items()]},
                          ("ns.corpus", {"file": rel, "variant": label}, iv)))


def gen_prefix(ctx, out, cases: list) -> None:
    _n = plugin_pool()
    urls = set()
    for key, p in _n.NAMESPACES_PLUGINS.items():
        urls.add(_n.NAMESPACES[key])
        urls.add(p.name)
        urls.add(p.name.rstrip("/"))
        for v in VERSIONS:
            urls.add(p.name + v)
            urls.add(p.name.rstrip("/") + "/" + v)
    urls |= {"", "/", "http://example.org/unknown", "http://example.org/unknown/1.0", "1.0", "/1.0", "a/1.0/", "http://www.polarsys.org/capella/core/"}
    for _ in range(ctx.pick(100, 1000)):
        urls.add(uri_variants(ctx.rng, _n))
    for url in sorted(urls):
        try:
            iv = {"key": _n.get_namespace_prefix(url)}
        except Exception as e:  # noqa: BLE001
            iv = {"raises": type(e).__name__}
        out.case(("ns-prefix", url), None, "key" in iv)
        out.hit("nsPrefix:" + ("ok" if "key" in iv else iv["raises"]))
        cases.append(({"op": "xml.nsPrefix", "url": url}, ("ns.prefix", {"url": url}, iv)))


def fake_loader(core, trees: dict):
    ld = core.MelodyLoader.__new__(core.MelodyLoader)
    ld.trees = trees
    return ld


def gen_viewpoints(ctx, out, cases: list) -> None:
    etree, exs, core = c01.impl()
    rng = ctx.rng
    MD = core.METADATA_TAG
    docs = []
    for p in sorted((common.REPO / "tests" / "data").rglob("*.afm")):
        docs.append((str(p.relative_to(common.REPO)), etree.parse(str(p), c01.parser(etree)).getroot()))
    for i in range(ctx.pick(60, 400)):
        k = rng.random()
        root = etree.Element(MD if k < 0.5 else "wrapper", nsmap={"metadata": MD[1:].split("}")[0]})
        md = root if k < 0.5 else (etree.SubElement(etree.SubElement(root, "x"), MD) if k < 0.85 else None)
        if md is not None:
            for _ in range(rng.randint(0, 4)):
                e = etree.SubElement(md, rng.choice(["viewpointReferences"] * 4 + ["other", "{%s}viewpointReferences" % c01.XMI]))
                if rng.random() < 0.92:
                    e.set("vpId", rng.choice(["org.polarsys.capella.core.viewpoint", "a", "b", ""]))
                if rng.random() < 0.92:
                    e.set("version", rng.choice(VERSIONS))
                if rng.random() < 0.2:  # nested references are not children of Metadata
                    etree.SubElement(e, "viewpointReferences").set("vpId", "nested")
            if rng.random() < 0.2:
                etree.SubElement(root, MD)  # a second Metadata: the first one in document order counts
        docs.append((f"synthetic-{i}", root))
    for label, root in docs + [("no-afm", None)]:
        trees = {pathlib.PurePosixPath("\0", "m.capella"): None}
        if root is not None:
            trees[pathlib.PurePosixPath("\0", "m.afm")] = model_file(core, root, "m.afm")
        ld = fake_loader(core, trees)
        try:
            iv = {"vps": [[k, v] for k, v in dict(ld.referenced_viewpoints()).items()]}
        except Exception as e:  # noqa: BLE001
            iv = {"raises": type(e).__name__}
        out.case(("ns-viewpoints", label), None, True)
        out.hit("viewpoints:" + ("ok" if "vps" in iv else iv["raises"]))
        afm = c01.export_elem(root, set()) if root is not None else None
        cases.append(({"op": "xml.viewpoints", "afm": afm}, ("ns.viewpoints", {"afm": label}, iv)))


def gen_loader(ctx, out, cases: list) -> None:
    """`MelodyLoader.update_namespaces`: viewpoints from the .afm, every semantic fragment of every resource"""
    etree, exs, core = c01.impl()
    rng = ctx.rng
    MD = core.METADATA_TAG
    for i in range(ctx.pick(40, 300)):
        afm = etree.Element(MD, nsmap={"metadata": MD[1:].split("}")[0]})
        for k, v in rand_vps(rng).items():
            e = etree.SubElement(afm, "viewpointReferences")
            e.set("vpId", k)
            e.set("version", v)
        trees, frags = {}, []
        with_afm = rng.random() < 0.9
        if with_afm:
            trees[pathlib.PurePosixPath("\0", "m.afm")] = model_file(core, afm, "m.afm")
        hs = []
        for j in range(rng.randint(1, 4)):
            h = TreeHistory(ctx, out, [], etree, core, ("loader", i, j))
            for _ in range(rng.randint(0, 3)):
                h.edit()
            reindex(h.mf)
            name = rng.choice(["f%d.capella", "f%d.capellafragment", "f%d.aird", "f%d.melodyfragment", "f%d.afm"]) % j
            h.mf.filename = pathlib.PurePosixPath(name)
            trees[pathlib.PurePosixPath(rng.choice(["\0", "lib"]), name)] = h.mf
            flags: set = set()
            frags.append([c01.frag_kind(core, pathlib.PurePosixPath(name)), c01.export_doc(h.mf.root, flags)])
            hs.append((h, flags))
        if any(f for _, f in hs):
            continue
        ld = fake_loader(core, trees)
        try:
            ld.update_namespaces()
            iv = {"docs": [c01.export_doc(h.mf.root, set()) for h, _ in hs]}
        except Exception as e:  # noqa: BLE001
            if type(e).__name__ not in EXC:
                raise
            iv = {"raises": type(e).__name__}
        out.case(("ns-loader", ctx.seed, i), None, True)
        out.hit("updateAll:" + ("ok" if "docs" in iv else iv["raises"]))
        cases.append(({"op": "xml.updateAll", "afm": c01.export_elem(afm, set()) if with_afm else None, "frags": frags},
                      ("ns.loader", {"case": i, "kinds": [f[0] for f in frags]}, iv)))


def gen_witnesses(ctx, out, cases: list) -> None:
    """the concrete witnesses of `Props/C02.lean` (boundary of the namespace theorems), replayed on the implementation on
    every run: unknown undeclared prefix kept, text of a replaced root lost, trailing comments reversed, missing / empty
    viewpoint version refused, and the non-vacuity example"""
    etree, exs, core = c01.impl()
    logging.getLogger("capellambse").setLevel(logging.CRITICAL)
    NS = [["xmi", c01.XMI], ["xsi", c01.XSI]]
    ZZ = NS + [["zz", "http://zz"]]
    CV = "org.polarsys.capella.core.viewpoint"
    W = [
        ("undeclared-prefix-kept", {"pre": [], "root": ["a", ZZ, [], None, None, [["k", [], [[XSI_T, "yy:R"]], None, None, []]]], "post": []}, {}),
        ("root-text-lost", {"pre": [], "root": ["a", ZZ, [], "hello", None, []], "post": []}, {}),
        ("trailing-comments-reversed", {"pre": [["A", None], ["B", None]], "root": ["a", ZZ, [], None, None, []], "post": [["C", None], ["D", None]]}, {}),
        ("viewpoint-missing", {"pre": [], "root": ["a", NS, [], None, None, [["k", [], [[XSI_T, "re:CatalogElement"]], None, None, []]]], "post": []}, {}),
        ("viewpoint-empty", {"pre": [], "root": ["a", NS, [], None, None, [["k", [], [[XSI_T, "re:CatalogElement"]], None, None, []]]], "post": []}, {CV: ""}),
        ("non-vacuity", {"pre": [["Capella_Version_6.0.0", None]],
                         "root": ["Project", ZZ, [["{%s}version" % c01.XMI, "2.0"], ["id", "r"]], None, None,
                                  [["ownedExtensions", [], [[XSI_T, "Requirements:Requirement"], ["id", "q"]], None, None, []],
                                   ["ownedX", [], [[XSI_T, "re:CatalogElement"]], None, None, []]]], "post": []}, {CV: "6.1.2"}),
        # `layerPlaceholderDoc`: the main file of a project whose OA layer lives in its own fragment
        ("layer-placeholder-keeps-its-namespace",
         {"pre": [["Capella_Version_5.0.0", None]],
          "root": ["{http://www.polarsys.org/capella/core/modeller/5.0.0}Project",
                   NS + [["org.polarsys.capella.core.data.capellamodeller", "http://www.polarsys.org/capella/core/modeller/5.0.0"],
                         ["org.polarsys.capella.core.data.oa", "http://www.polarsys.org/capella/core/oa/5.0.0"], ["zz", "http://zz"]],
                   [["{%s}version" % c01.XMI, "2.0"], ["id", "p"]], None, None,
                   [["ownedModelRoots", [], [[XSI_T, "org.polarsys.capella.core.data.capellamodeller:SystemEngineering"], ["id", "se"]], None, None,
                     [["ownedArchitectures", [], [[XSI_T, "org.polarsys.capella.core.data.oa:OperationalAnalysis"],
                                                  ["href", "fragments/OA.capellafragment#oa"]], None, None, []]]]]],
          "post": []}, {CV: "5.0.0"}),
    ]
    expect = {"undeclared-prefix-kept": lambda iv: "doc" in iv and [p for p, _ in iv["doc"]["root"][1]] == ["xmi", "xsi"],
              "root-text-lost": lambda iv: "doc" in iv and iv["doc"]["root"][3] is None,
              "trailing-comments-reversed": lambda iv: "doc" in iv and [c[0] for c in iv["doc"]["post"]] == ["D", "C"],
              "viewpoint-missing": lambda iv: iv == {"raises": "CorruptModelError"},
              "viewpoint-empty": lambda iv: iv == {"raises": "CorruptModelError"},
              "non-vacuity": lambda iv: "doc" in iv and [p for p, _ in iv["doc"]["root"][1]] == ["Requirements", "re", "xmi", "xsi"],
              "layer-placeholder-keeps-its-namespace": lambda iv: "doc" in iv and sorted(p for p, _ in iv["doc"]["root"][1]) == [
                  "org.polarsys.capella.core.data.capellamodeller", "org.polarsys.capella.core.data.oa", "xmi", "xsi"]}
    for name, doc, vps in W:
        mf = model_file(core, build_doc(etree, doc))
        iv = impl_update(core, mf, vps)
        out.case(("ns-witness", name), None, True)
        out.traces_validated += 1
        out.hit("witness:" + name + (":as-proved" if expect[name](iv) else ":implementation-differs"))
        if not expect[name](iv):
            out.disagree("ns.witness", {"witness": name}, json.dumps(iv)[:400], "the Lean witness theorem states otherwise")
        cases.append(({"op": "xml.updateNs", "doc": doc, "vps": [[k, v] for k, v in vps.items()]},
                      ("ns.witness", {"witness": name}, iv)))


def compare_all(out, cases: list, answers: list) -> None:
    for (req, (stream, case, iv)), ans in zip(cases, answers):
        mv = ans.get("ok", {"err": ans.get("err")})
        out.hit(stream)
        if req["op"] == "xml.updateNs":
            c = dict(case)
            if "doc" in c and len(json.dumps(c["doc"])) > 3000:
                c["doc"] = "(large)"
            compare_update(out, stream, c, req["doc"], iv, mv)
        elif req["op"] == "xml.updateAll" and isinstance(mv, dict) and str(mv.get("raises", "")).startswith("unmodelled:"):
            out.hit("updateAll:" + mv["raises"])
        elif mv != json.loads(json.dumps(iv)):
            out.disagree(stream, case, json.dumps(iv, ensure_ascii=False)[:500], json.dumps(mv, ensure_ascii=False)[:500])


def tree_level_cases(ctx, out) -> list:
    cases: list = []
    gen_witnesses(ctx, out, cases)
    gen_corpus(ctx, out, cases)
    gen_tree_histories(ctx, out, cases)
    gen_prefix(ctx, out, cases)
    gen_viewpoints(ctx, out, cases)
    gen_loader(ctx, out, cases)
    return cases


# ------------------------------------------------------------------ API-level namespace histories (monitor + `ns.api` stream)


def primary_semantic(model):
    for fname, frag in model._loader.trees.items():
        if fname.parts[0] == "\0" and frag.fragment_type.name == "SEMANTIC":
            yield str(pathlib.PurePosixPath(*fname.parts[1:])), frag


def users_by_prefix(model) -> dict:
    out: dict = {}
    for _, frag in primary_semantic(model):
        for e in frag.root.iter():
            if isinstance(e.tag, str) and e is not frag.root:
                p = type_prefix(e)
                if p:
                    out.setdefault(p, []).append(e)
    return out


def attached(e, roots) -> bool:
    while e.getparent() is not None:
        e = e.getparent()
    return any(e is r for r in roots)


def remove_users(model, prefix: str, out) -> tuple[int, int]:
    """remove every element whose type has the given prefix through the public API: `owner.<relation>.remove(obj)` for
    containment lists, clearing the relation for link elements. Returns (removed, left)."""
    import objlayer as ol
    from capellambse.model import _obj as O

    removed = 0
    for _ in range(400):
        roots = [frag.root for _, frag in primary_semantic(model)]
        todo = [e for e in users_by_prefix(model).get(prefix, []) if attached(e, roots)]
        if not todo:
            return removed, 0
        progressed = False
        for e in todo:
            parent = e.getparent()
            if parent is None or not attached(e, roots):
                progressed = True
                continue
            try:
                pobj = O.ModelElement.from_model(model, parent)
                eobj = O.ModelElement.from_model(model, e)
            except Exception:  # noqa: BLE001
                continue
            done = False
            for obj, attr, acc, lst in ol.coupled_relations(model, [pobj]):
                try:
                    if any(getattr(x, "_element", None) is e for x in lst):
                        lst.remove(eobj)
                        done = True
                    elif getattr(acc, "tag", None) == e.tag and any(x.split(":")[0] == prefix for x in (getattr(acc, "xtypes", None) or ())):
                        setattr(obj, attr, [])
                        done = e.getparent() is None
                except Exception as ex:  # noqa: BLE001
                    out.hit("ns-api-refused:" + type(ex).__name__)
                if done:
                    break
            if done:
                removed += 1
                progressed = True
                break  # the tree changed: rescan
        if not progressed:
            break
    roots = [frag.root for _, frag in primary_semantic(model)]
    left = len([e for e in users_by_prefix(model).get(prefix, []) if attached(e, roots)])
    return removed, left


def add_first_user(model, rng, out, declared: set, tried: set, only: str | None = None):
    """create an object (or a link) whose xsi:type prefix the semantic root does not declare yet; returns
    (prefix, "OwnerClass.attribute") or None. `only` restricts the search to one relation (replays)."""
    import objlayer as ol

    objs = ol.all_objects(model)
    rng.shuffle(objs)
    for obj in objs[:300]:
        if model._loader.find_fragment(obj._element).parts[0] != "\0":
            continue
        for o, attr, acc, lst in ol.coupled_relations(model, [obj]):
            xts = [x for x in (getattr(acc, "xtypes", None) or ()) if ":" in x and x.split(":")[0] not in declared]
            if not xts or (type(o).__name__, attr) in tried or (only and only != f"{type(o).__name__}.{attr}"):
                continue
            tried.add((type(o).__name__, attr))
            xt = rng.choice(sorted(xts))
            try:
                if hasattr(acc, "tag") and type(acc).__name__ in ("LinkAccessor",):
                    cands = [c for c in objs if c is not o][:20]
                    lst.append(rng.choice(cands))
                else:
                    try:
                        lst.create(xt.split(":")[1], name="ns first user")
                    except TypeError:
                        lst.create(name="ns first user")
                return xt.split(":")[0], f"{type(o).__name__}.{attr}"
            except Exception as ex:  # noqa: BLE001
                out.hit("ns-api-refused:" + type(ex).__name__)
    return None


def ns_api_history(ctx, out, capellambse, loader_fn, aird: pathlib.Path, hi: int, cases: list, rounds: int, fresh_copy) -> None:
    etree, exs, core = c01.impl()
    rng = ctx.rng
    label = str(aird.relative_to(common.REPO / "tests" / "data"))
    path = fresh_copy(ctx, aird, f"ns-{common.sha(label)}-{hi}")
    try:
        m = loader_fn(path)
    except Exception as e:  # noqa: BLE001
        raise common.InfraError(f"cannot load corpus model {label}: {e!r}") from e
    log: list = []
    tried: set = set()
    for rnd in range(rounds):
        users = users_by_prefix(m)
        # not the prefixes whose removal takes the whole model away (a user directly below the fragment root)
        removable = sorted(p for p, es in users.items() if len(es) <= 80 and not any(e.getparent().getparent() is None for e in es))
        declared = set()
        for _, frag in primary_semantic(m):
            declared |= {k for k in frag.root.nsmap if k}
        what = rng.choice(["remove-last", "remove-last", "add-first"]) if removable else "add-first"
        if what == "remove-last":
            # prefer prefixes nothing else depends on (few users); one of them per round
            p = rng.choice(removable[: max(3, len(removable) // 2)] if rng.random() < 0.3 else removable)
            removed, left = remove_users(m, p, out)
            log.append({"op": "remove every user of type prefix", "prefix": p, "removed": removed, "left": left})
            out.hit("ns-api:remove-last" if (removed and not left) else "ns-api:remove-some" if removed else "ns-api:remove-none")
        else:
            r = add_first_user(m, rng, out, declared, tried)
            log.append({"op": "add first user of an undeclared type prefix", "prefix": r and r[0], "relation": r and r[1]})
            out.hit("ns-api:add-first" if r else "ns-api:add-none")
        replay = {"kind": "ns-api-history", "model": label, "history": hi, "log": list(log)}
        before = {}
        vps = {}
        try:
            vps = dict(m._loader.referenced_viewpoints())
        except Exception:  # noqa: BLE001
            pass
        for name, frag in primary_semantic(m):
            flags: set = set()
            d = c01.export_doc(frag.root, flags)
            if not flags:
                before[name] = d
        try:
            m.save()
        except Exception as e:  # noqa: BLE001
            out.find(f"MelodyModel.save|raises|{type(e).__name__}", f"{label}: save() after {log[-1]} raised {type(e).__name__}: {e}", replay)
            break
        out.case(("ns-api", label, ctx.seed, hi, rnd), {"model": label, "log": log[-1]} if hi == 0 and rnd < 2 else None, True)
        names = [n for n, _ in primary_semantic(m)]
        check_written_namespaces(out, etree, path.parent, names, label, replay)
        resave_fixpoint(out, loader_fn, path, label, replay)
        for name, frag in primary_semantic(m):
            if name in before:
                flags = set()
                after = c01.export_doc(frag.root, flags)
                if not flags:
                    cases.append(({"op": "xml.updateNs", "doc": before[name], "vps": [[k, v] for k, v in vps.items()]},
                                  ("ns.api", {"model": label, "file": name, "log": log[-2:]},
                                   {"doc": after, "replaced": after["root"][1] != before[name]["root"][1]
                                    or after["post"] != before[name]["post"]})))
    shutil.rmtree(path.parent.parent, ignore_errors=True)


def replay_ns_api(ctx, case: dict, capellambse, loader_fn, fresh_copy) -> str | None:
    """re-run the recorded namespace operations (by prefix) on a fresh copy and apply both monitors"""
    etree, exs, core = c01.impl()
    aird = common.REPO / "tests" / "data" / case["model"]
    path = fresh_copy(ctx, aird, "ns-replay")
    m = loader_fn(path)
    o = common.Outcome()
    for l in case["log"]:
        if l["op"].startswith("remove") and l.get("prefix"):
            remove_users(m, l["prefix"], o)
        elif l.get("prefix"):
            add_first_user(m, ctx.rng, o, {k for _, f in primary_semantic(m) for k in f.root.nsmap if k}, set(), only=l.get("relation"))
        m.save()
        check_written_namespaces(o, etree, path.parent, [n for n, _ in primary_semantic(m)], case["model"], {})
        resave_fixpoint(o, loader_fn, path, case["model"], {})
        if o.findings:
            return o.findings[0].what
    return None
