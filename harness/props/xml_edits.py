"""The link between what API calls do to the lxml trees and the tree edits of `Model/XmlEdit.lean` (C02).

After every successful API operation of a history the exported trees before / after are diffed into a script of the
modelled edit kinds (`setAttr`, `delAttr`, `setText`, `insertKid`, `removeKid`; a move is remove + insert). The Lean
driver (`xml.history`) applies the script to the tree before (`applyAll`), compares the result with the tree after
(`Doc.beq`) and evaluates the contract `okAll` the theorem `history_save_reload` assumes - on the very definitions the
theorem is about. Anything the diff cannot express in the modelled kinds (a changed tag, tail, namespace declaration,
comment) is counted as `unmodelled:<kind>` and fails the check; nothing is dropped.

For large trees the unchanged sibling subtrees are replaced by childless stubs of the same tag on both sides (indices
are preserved; `okAt` only looks at the declarations along the path and at the target element itself).
"""

from __future__ import annotations

import json

STUB_ABOVE = 4000  # elements; trees above this size are sent pruned


def size(e) -> int:
    return 1 + sum(size(k) for k in e[5])


def keys_of(kids: list) -> list:
    """matching keys of a child list: (tag, id) where there is an id, else (tag, k) for the k-th id-less child of that tag
    (an id-less child - `bodies`, `languages`, ... - that changed is the same child with another text, as the API edits it)"""
    seen: dict = {}
    out = []
    for e in kids:
        ident = next((v for k, v in e[2] if k in ("id", "uid", "{http://www.omg.org/XMI}id")), None)
        if ident is not None:
            out.append((e[0], ident))
        else:
            n = seen.get(e[0], 0)
            seen[e[0]] = n + 1
            out.append((e[0], None, n))
    return out


def lcs(a: list, b: list) -> list[tuple[int, int]]:
    n, m = len(a), len(b)
    # common prefix / suffix first (child lists are long and change locally)
    p = 0
    while p < n and p < m and a[p] == b[p]:
        p += 1
    s = 0
    while s < n - p and s < m - p and a[n - 1 - s] == b[m - 1 - s]:
        s += 1
    aa, bb = a[p:n - s], b[p:m - s]
    L = [[0] * (len(bb) + 1) for _ in range(len(aa) + 1)]
    for i in range(len(aa) - 1, -1, -1):
        for j in range(len(bb) - 1, -1, -1):
            L[i][j] = L[i + 1][j + 1] + 1 if aa[i] == bb[j] else max(L[i + 1][j], L[i][j + 1])
    out = [(i, i) for i in range(p)]
    i = j = 0
    while i < len(aa) and j < len(bb):
        if aa[i] == bb[j]:
            out.append((p + i, p + j))
            i += 1
            j += 1
        elif L[i + 1][j] >= L[i][j + 1]:
            i += 1
        else:
            j += 1
    out += [(n - s + k, m - s + k) for k in range(s)]
    return out


def stub(e):
    return [e[0], [], [], None, None, []]


def diff_elem(path: list, a, b, edits: list, unmodelled: list, prune: bool):
    """returns (a', b') - copies with unchanged subtrees stubbed when `prune`"""
    if a[0] != b[0]:
        unmodelled.append("tag-change")
    if a[1] != b[1]:
        unmodelled.append("nsdecl-change")
    if a[4] != b[4]:
        unmodelled.append("tail-change")
    da, db = dict(map(tuple, a[2])), dict(map(tuple, b[2]))
    for k, _ in a[2]:
        if k not in db:
            edits.append({"edit": "delAttr", "path": path, "name": k})
    for k, v in b[2]:
        if da.get(k) != v:
            edits.append({"edit": "setAttr", "path": path, "name": k, "value": v})
    ka, kb = keys_of(a[5]), keys_of(b[5])
    pairs = lcs(ka, kb)
    ma, mb = {i for i, _ in pairs}, {j for _, j in pairs}
    removes = [i for i in range(len(a[5])) if i not in ma]
    inserts = [j for j in range(len(b[5])) if j not in mb]
    # text goes first when the children disappear afterwards is wrong for the contract (text needs a childless element),
    # and last when children are removed first: order = removes, text, inserts
    for i in reversed(removes):
        edits.append({"edit": "removeKid", "path": path, "index": i})
    if a[3] != b[3]:
        edits.append({"edit": "setText", "path": path, "value": b[3]})
    for j in inserts:
        edits.append({"edit": "insertKid", "path": path, "index": j, "kid": b[5][j]})
    ak, bk = list(a[5]), list(b[5])
    for i, j in pairs:
        if a[5][i] == b[5][j]:
            if prune:
                ak[i] = bk[j] = stub(a[5][i])
        else:
            ak[i], bk[j] = diff_elem(path + [j], a[5][i], b[5][j], edits, unmodelled, prune)
    if prune:
        for i in removes:
            ak[i] = stub(a[5][i])
    return [a[0], a[1], a[2], a[3], a[4], ak], [b[0], b[1], b[2], b[3], b[4], bk]


def diff_doc(a: dict, b: dict) -> tuple[dict, dict, list, list]:
    """(before', after', edit script, unmodelled kinds)"""
    edits: list = []
    unmodelled: list = []
    if a["pre"] != b["pre"] or a["post"] != b["post"]:
        unmodelled.append("comment-change")
    prune = size(a["root"]) > STUB_ABOVE
    ra, rb = diff_elem([], a["root"], b["root"], edits, unmodelled, prune)
    return {"pre": a["pre"], "root": ra, "post": a["post"]}, {"pre": b["pre"], "root": rb, "post": b["post"]}, edits, unmodelled
