"""C13 — declarative sync is idempotent; instruction documents survive dump and load.

implementation: decl.apply twice on freshly loaded models; decl.dump / decl.load / decl.load_with_metadata;
                decl._is_pep440; decl._verify_metadata
correspondence: (1) the Lean machine (Model/Decl.lean) applied twice (`apply2`) — canonical views and error
                kinds after the first and the second run; (2) the tag codec (Model/DeclYaml.lean):
                `represent` against the node graph PyYAML composes from decl.dump's output, `construct`/
                `loadWithMetadata` against YDMLoader on hand-made and mutated YAML texts; (3) `isPep440`
                against decl._is_pep440 exhaustively over a token alphabet; (4) `verifyMetadata` against
                decl._verify_metadata
monitor:        canonical tree and object count after the first vs. the second apply of a sync-only
                document; decl.load(io.StringIO(decl.dump(x))) == x and
                load_with_metadata(dump(x, metadata=m)) == (m, x)
"""

from __future__ import annotations

import copy
import io
import itertools
import os

import common
from common import Ctx, Outcome

from . import decl_lib as L

DRIVERS = ["Decl", "DeclYaml", "DeclTyped"]
TABLES = True
LEVEL = "proof"
RULE = ("(sync) seeded random sync-only documents over the LA metamodel slice: 1-3 instructions, 1-4 sync entries per "
        "list, nesting depth <= 3, find keys on `name` drawn from strings with arbitrary characters (XML specials, "
        "quotes, whitespace runs, newlines, non-BMP, YAML-special words), optional `_type` hints, a second find key, "
        "`set` with strings and with forward/backward promises, promise ids, entries that match base objects, two "
        "entries of one list selecting the same absent object (also: one of the twins carrying a forward/backward promise "
        "in `set`, in every order with the declaring entry, in one or several instructions), find keys on nested attributes (`parent.name`, "
        "`type.name`, …) selecting objects of the populated models; "
        "excluded-point flavours (set overrides a find key, non-discriminating finds, extend inside sync, HTML-normalised "
        "find values) are run and reported separately. Each document is applied twice to empty_project_52 / melody 5_2 / "
        "writemodel (thorough: also 5_0, 6_0). (yaml) seeded random instruction streams with Promise / UUIDReference / "
        "FindBy / NewObject markers nested in dicts and lists, tricky plain strings, ints, floats, bools, None, with "
        "and without metadata blocks. (pep440) all token sequences up to length 4 (thorough 5) over "
        "{0,1,10,01,.,a,b,rc,c,!,.post,.dev,post,-,+x}. distinct = distinct (stream, canonical case JSON); "
        "non-trivial = a sync document that creates at least one object / a stream containing at least one marker / "
        "a version string with at least two tokens")
ASSUMPTIONS = [
    "PyYAML emits and parses the representation graph faithfully (sampled: every generated stream is compared after a "
    "real dump/load); mapping key order is not significant (Python dict equality)",
    "AwesomeVersion's comparison `current >= written_by` is a parameter of the metadata matcher",
    "the metamodel slice of harness/props/decl_lib.py (as for C12)",
]
TRUSTED = ["C13: yaml.compose_all as the observer of the node graph decl.dump produces"]
MANIFEST = dict(
    text=("Lean model of decl's sync operator (find-or-create with the merge find | set | extend, as part of the "
          "small-step machine of decl.apply), of the YAML tag codec for the four marker types with the one/two-document "
          "metadata layout, and of the metadata matcher. Proved: tags_roundtrip / stream_roundtrip (construct after "
          "represent is the identity on well-formed values, for every nesting), a run over a settled sync document "
          "changes nothing and creates nothing, a freshly created sync object is found again exactly when no `set` key "
          "overrides a `find` key; the version matcher accepts exactly the PEP 440 shape of its regular expression. Tie: differential runs (documents applied twice; node "
          "graphs; exhaustive version strings). The excluded point (set overriding find) is replayed and recorded."),
    design_ref="§6 C13",
    note=("Trusted: Lean kernel; PyYAML text layer; AwesomeVersion; metamodel slice and rendering in decl_lib.py. "
          "Document-level idempotence for arbitrary sync documents is established by the differential/monitor runs, "
          "the Lean theorems cover the per-entry facts and the settled-run invariant."),
    technique="Lean 4 proof (structural induction over nested values; machine invariant) + differential correspondence, exhaustive for version strings",
)

NAMES = ["A", "a b", " lead", "trail ", "x<y&z>", "q\"uote'", "tab\there", "new\nline", "  two  spaces", "é∂😀", "null", "yes",
         "1e3", "~", "0123", "- dash", "key: value", "#hash", "{brace}", "[br]", "!tag", "%pct", "@at", "`tick`", "a" * 70,
         "back\\slash", "*star", "&amp;", "]]>", " ls", "\x85nel", "|pipe", ">gt", "?q", "N", "true", "2001-01-01", ""]


# ------------------------------------------------------------------ sync documents


IN_CLAIM = ("plain", "promise", "promise-nested", "base", "twin", "dotted", "twin-promise")


def gen_sync_doc(rng, base: L.Base, flavour: str):
    """abstract sync-only document; returns (doc, meta)"""
    nid = itertools.count(10000)
    names_used: set = set()
    pids: list[str] = []

    def fresh_name():
        for _ in range(50):
            n = rng.choice(NAMES[:-1]) + (str(rng.randint(0, 99)) if rng.random() < 0.5 else "")
            if n not in names_used and n not in base.name_of.values():
                names_used.add(n)
                return n
        n = f"n{next(nid)}"
        names_used.add(n)
        return n

    def so(cls, depth, attr):
        i = next(nid)
        name = fresh_name()
        x = {"nid": i, "nid2": i + 5000, "keys": [["name", {"s": name}]], "_cls": cls}
        if rng.random() < 0.4:
            x["ty"] = cls
        if rng.random() < 0.3:
            x["fb"] = True
        sc = L.SCHEMA[cls]
        if "description" in sc[0]:
            r = rng.random()
            if flavour == "html-key" and r < 0.6:
                # HTML-typed attribute: a value that is not what the getter returns after assignment
                x["keys"].append(["description", {"s": rng.choice(["a & b", "a < b"])}])
            elif r < 0.25:
                x["keys"].append(["description", {"s": rng.choice(["d1", "<p>x</p>", "x &amp; y"])}])
            elif r < 0.6:
                x.setdefault("set", []).append(["description", {"v": {"s": rng.choice(["s1", "s 2", "<b>z</b>"])}}])
        if rng.random() < 0.35:
            x["pid"] = f"p{i}"
            pids.append((x["pid"], cls))
        if flavour == "override" and rng.random() < 0.6:
            x.setdefault("set", []).append(["name", {"v": {"s": name + "'"}}])
        kids = [(a, mc) for a, (mc, cont) in sc[2].items() if cont]
        if kids and depth < 3 and rng.random() < (0.55 if depth < 2 else 0.3):
            sub = []
            for a, mc in rng.sample(kids, rng.randint(1, min(2, len(kids)))):
                sub.append([a, [so(mc, depth + 1, a) for _ in range(rng.randint(1, 2))]])
            x["sync"] = sub
        if flavour == "extend" and "components" in sc[2] and rng.random() < 0.7:
            j = next(nid)
            x["ext"] = [["components", [{"nid": j, "scal": [["name", {"s": f"e{j}"}]]}]]]
        return x

    doc = []
    for _ in range(rng.randint(1, 3)):
        r = rng.choice(["rc", "rf", "dp"])
        opts = [(a, mc) for a, (mc, cont) in L.SCHEMA[base.root_cls[r]][2].items() if cont]
        entries = []
        for a, mc in rng.sample(opts, rng.randint(1, min(2, len(opts)))):
            l = [so(mc, 1, a) for _ in range(rng.randint(1, 4))]
            if flavour == "base" and base.findable.get(mc):
                # an entry that matches an object of the base model (found branch on the first run)
                cands = [b for b in base.findable[mc] if b in
                         next((mm for k, mm in base.graph["objs"][base.root_id(r) - 1]["lists"] if k == a), [])]
                if cands:
                    b = rng.choice(cands)
                    l.append({"nid": next(nid), "nid2": next(nid) + 5000, "keys": [["name", {"s": base.name_of[b]}]], "_cls": mc,
                              "set": [["description", {"v": {"s": "touched"}}]] if "description" in L.SCHEMA[mc][0] else []})
            if flavour == "ambiguous" and len(l) >= 2:
                # a later entry whose find does not discriminate: same description key only
                l[0].setdefault("set", [])
                l[0]["set"] = [e for e in l[0]["set"] if e[0] != "description"] + [["description", {"v": {"s": "same"}}]]
                l[0]["keys"] = [k for k in l[0]["keys"] if k[0] != "description"]
                l.insert(0, {"nid": next(nid), "nid2": next(nid) + 5000, "keys": [["description", {"s": "same"}]], "_cls": mc})
            entries.append([a, l])
        doc.append({"parent": {"u": base.root_id(r)}, "sync": entries})

    # promises inside set: reference attributes of sync entries pointing at other sync entries
    def walk(l):
        for x in l:
            yield x
            for _, sub in x.get("sync", []):
                yield from walk(sub)

    allso = [x for ins in doc for _, l in ins["sync"] for x in walk(l)]
    top = [x for ins in doc for _, l in ins["sync"] for x in l]
    if flavour in ("promise", "promise-nested"):
        # reference attributes set through promises; sources and targets are disjoint and targets are
        # top-level entries, so that no document waits on itself
        sources = [x for x in allso if L.SCHEMA[x["_cls"]][1] and rng.random() < 0.8]
        for x in sources:
            for attr, tcls in L.SCHEMA[x["_cls"]][1].items():
                t = [y for y in top if y["_cls"] == tcls and not any(y is z for z in sources)]
                if t:
                    y = rng.choice(t)
                    y["pid"] = y.get("pid") or f"p{y['nid']}"
                    x.setdefault("set", []).append([attr, {"v": {"p": y["pid"]}}])
    if flavour == "twin":
        # two entries of one list whose find keys select the same, not yet existing object
        for ins in doc:
            for _, l in ins["sync"]:
                if rng.random() < 0.8:
                    x = rng.choice(l)
                    i2 = next(nid)
                    y = {"nid": i2, "nid2": i2 + 5000, "keys": copy.deepcopy(x["keys"]), "_cls": x["_cls"]}
                    if "ty" in x and rng.random() < 0.5:
                        y["ty"] = x["ty"]
                    if rng.random() < 0.5:
                        y["pid"] = f"p{i2}"
                    l.insert(rng.randint(l.index(x) + 1, len(l)), y)
                    allso.append(y)
    for x in allso:
        del x["_cls"]
    return doc


def gen_twinp_doc(rng, base: L.Base):
    """the same (not yet existing) object mentioned by two sync entries, one of which carries a `!promise` in its
    `set` (declared by a third entry): every order of the three entries (promise forward / backward, twin before /
    after), in one list of one instruction or spread over up to three instructions, nested `sync` present / absent
    on either twin, on top level (`classes`) or one level down (`owned_properties` of a synced class)"""
    nid = itertools.count(10000)
    dp = base.root_id("dp")

    def nm(prefix):
        return f"{prefix}{rng.choice(['', ' x', '&', ' <1>'])}{next(nid)}"

    def entry(name, **kw):
        i = next(nid)
        return {"nid": i, "nid2": i + 5000, "keys": [["name", {"s": name}]], **kw}

    deep = rng.random() < 0.2
    pname, oname = nm("Base"), nm("Obj")
    pid = f"p{next(nid)}"
    provider = entry(pname, pid=pid)
    if rng.random() < 0.3:
        provider["ty"] = "Class"
    refattr = "type" if deep else "super"
    a = entry(oname, set=[[refattr, {"v": {"p": pid}}]])
    b = entry(oname)
    if not deep:
        if rng.random() < 0.5:
            a["set"].append(["description", {"v": {"s": "reads a value"}}])
        for e in (a, b):
            if rng.random() < (0.35 if e is a else 0.5):
                e["sync"] = [["owned_properties", [entry(nm("prop")) for _ in range(rng.randint(1, 2))]]]
        if rng.random() < 0.3:
            b.setdefault("set", []).append(["description", {"v": {"s": "reads a value"}}])
    if rng.random() < 0.4:
        b["pid"] = f"p{next(nid)}"
    if rng.random() < 0.2:
        a["fb"] = True
    twins = [a, b]
    # half of the documents in the order "promise carrier, its twin, the declaring entry" (the carrier waits while the
    # twin creates the object), the rest in a random order
    critical = rng.random() < 0.6
    if not critical:
        rng.shuffle(twins)
    if deep:
        host = entry(nm("Host"), sync=[["owned_properties", twins]])
        seq = [host, provider]
    else:
        seq = twins + [provider]
    if not critical:
        rng.shuffle(seq)
    # cut the sequence into 1-3 consecutive chunks, one instruction each (same parent, same list)
    cuts = sorted(rng.sample(range(1, len(seq)), rng.randint(0, len(seq) - 1)))
    doc, prev = [], 0
    for c in cuts + [len(seq)]:
        doc.append({"parent": {"u": dp}, "sync": [["classes", seq[prev:c]]]})
        prev = c
    return doc


def gen_dotted_doc(rng, base: L.Base):
    """find keys on nested attributes (`parent.name`, `<reference>.name`) selecting objects of the base model:
    every entry must match, nothing may be created"""
    nid = itertools.count(10000)
    doc = []
    for r in rng.sample(["rc", "rf", "dp"], 3):
        root = base.graph["objs"][base.root_id(r) - 1]
        entries = []
        for a, mem in root["lists"]:
            if not L.SCHEMA[base.root_cls[r]][2].get(a, (None, False))[1]:
                continue
            cands = [b for b in mem if b in base.name_of and sum(1 for m in mem if base.name_of.get(m) == base.name_of[b]) == 1]
            rng.shuffle(cands)
            l = []
            for b in cands[: rng.randint(1, 2)]:
                l.append(dotted_entry(rng, base, nid, b, 1))
            if l:
                entries.append([a, l])
        if entries:
            doc.append({"parent": {"u": base.root_id(r)}, "sync": entries})
    return doc


def dotted_entry(rng, base, nid, b, depth):
    o = base.graph["objs"][b - 1]
    i = next(nid)
    keys = [["name", {"s": base.name_of[b]}]]
    if b in base.parent_name:
        keys.append(["parent.name", {"s": base.parent_name[b]}])
    for a, tn in base.ref_names.get(b, {}).items():
        keys.append([f"{a}.name", {"s": tn}])
    rng.shuffle(keys)
    x = {"nid": i, "nid2": i + 5000, "keys": keys}
    if rng.random() < 0.4:
        x["ty"] = o["cls"]
    if rng.random() < 0.4:
        x["pid"] = f"p{i}"
    if rng.random() < 0.3:
        x["fb"] = True
    sub = []
    if depth < 3:
        for a, mem in o["lists"]:
            if not L.SCHEMA.get(o["cls"], ([], {}, {}))[2].get(a, (None, False))[1]:
                continue
            cands = [c for c in mem if c in base.name_of and sum(1 for m in mem if base.name_of.get(m) == base.name_of[c]) == 1]
            if cands and rng.random() < 0.7:
                sub.append([a, [dotted_entry(rng, base, nid, c, depth + 1) for c in rng.sample(cands, min(len(cands), rng.randint(1, 2)))]])
    if sub:
        x["sync"] = sub
    return x


def renumber(doc, off):
    d = copy.deepcopy(doc)

    def rec(x):
        if isinstance(x, dict):
            for k in ("nid", "nid2"):
                if k in x:
                    x[k] += off
            for v in x.values():
                rec(v)
        elif isinstance(x, list):
            for v in x:
                rec(v)

    rec(d)
    return d


def pick(ctx, quick, thorough):
    """budget; the widened re-run of a quick check (VERIF_WIDEN) stays within about twice the quick budget"""
    if os.environ.get("VERIF_WIDEN") == "1":
        return min(thorough, 2 * quick)
    return ctx.pick(quick, thorough)


def creates(view0, view1):
    return len(view1["objs"]) - len(view0["objs"])


def run_sync(ctx, out, bases, req, pending):
    rng = ctx.rng
    flav_count: dict[str, int] = {}
    excluded: dict[str, dict] = {}
    n = pick(ctx, 170, 1500)
    FL = (["plain"] * 4 + ["promise"] * 3 + ["base"] * 2 + ["twin"] * 2 + ["dotted"] * 2 + ["twin-promise"] * 3 +
          ["promise-nested", "override", "ambiguous", "extend", "html-key"])
    for k in range(n):
        flavour = FL[k % len(FL)] if k < 2 * len(FL) else rng.choice(FL)
        key = "empty52" if rng.random() < 0.7 else rng.choice([b for b in bases if b != "empty52"])
        if flavour == "dotted":  # needs objects to select: the populated models
            key = rng.choice([b for b in bases if b.startswith("melody")])
        base = bases[key]
        doc = (gen_dotted_doc(rng, base) if flavour == "dotted" else gen_twinp_doc(rng, base) if flavour == "twin-promise"
               else gen_sync_doc(rng, base, flavour))
        if not doc:
            continue
        flav_count[flavour] = flav_count.get(flavour, 0) + 1
        # every fourth document of the small models: save + load from disk between the two runs
        reload_dir = str(ctx.scratch) if (k % 4 == 3 and key in ("empty52", "write") and flavour in IN_CLAIM) else None
        res = apply_twice(base, doc, reload_dir)
        if reload_dir is not None:
            flav_count["+reload"] = flav_count.get("+reload", 0) + 1
        nontriv = res["first"][0] == "ok" and res["created_first"] > 0
        out.case(("sync", key, common.sha(doc)),
                 {"stream": "sync", "model": key, "flavour": flavour, "doc": doc,
                  "first": res["first"][0], "created_first": res.get("created_first"),
                  "second": res["second"][0] if res["second"] else None,
                  "created_second": res.get("created_second")} if len(out.samples) < 3 and nontriv and flavour == "promise" else None,
                 nontriv)
        out.hit(f"sync.first:{res['first'][0] if res['first'][0] == 'ok' else res['first'][1]['error']}")
        out.traces_validated += 1
        judge_sync(out, base, doc, flavour, res, excluded, reloaded=reload_dir is not None)
        req.append({"op": "apply2", "mm": "gen", "graph": base.graph, "doc": doc, "doc2": renumber(doc, 20000)})
        pending.append(("sync", base, doc, flavour, res))
    out.extra["sync_documents_by_flavour"] = flav_count
    out.extra["excluded_points"] = excluded


def apply_twice(base, doc, reload_dir=None):
    """apply `doc` twice; with `reload_dir` the model is a scratch copy that is saved after the first run and
    loaded again from disk for the second (what a user of the CLI does: `decl … ; decl …`)"""
    capellambse, decl = L.cap()
    if reload_dir is not None:
        import pathlib
        import shutil

        src = (common.REPO / L.MODELS[base.key]).parent
        dst = pathlib.Path(reload_dir) / "model"
        shutil.rmtree(dst, ignore_errors=True)
        shutil.copytree(src, dst)
        path = str(dst / pathlib.Path(L.MODELS[base.key]).name)
        m = capellambse.MelodyModel(path)
    else:
        m = L.load_model(base.key)
    n0 = len(list(m.search()))
    import yaml

    text = yaml.dump(L.to_decl(doc, base), Dumper=decl.YDMDumper, sort_keys=False)
    st, r = L.apply_impl(m, None, base, yaml_text=text)
    res = {"first": (st, r if st != "ok" else L.render_impl(m, base, r)), "second": None}
    if st != "ok":
        return res
    n1 = len(list(m.search()))
    res["created_first"] = n1 - n0
    if reload_dir is not None:
        try:
            m.save()
            m = capellambse.MelodyModel(path)
        except Exception as e:  # noqa: BLE001
            res["second"] = ("err", {"error": f"save-reload:{type(e).__name__}"})
            res["created_second"] = 0
            return res
        n1r = len(list(m.search()))
        if n1r != n1:
            res["second"] = ("err", {"error": f"reload-changes-object-count:{n1}->{n1r}"})
            res["created_second"] = n1r - n1
            return res
    st2, r2 = L.apply_impl(m, None, base, yaml_text=text)
    n2 = len(list(m.search()))
    res["second"] = (st2, r2 if st2 != "ok" else L.render_impl(m, base, r2))
    res["created_second"] = n2 - n1
    res["view_after_second"] = L.render_impl(m, base, {})
    return res


def judge_sync(out, base, doc, flavour, res, excluded, reloaded=False):
    """the monitor: second application leaves the model exactly as the first left it"""
    if reloaded:
        class _Tag:
            def find(self, sig, what, case):
                out.find(sig + "+reload", what + " (model saved and loaded again between the runs)", dict(case, reload=True))
        return judge_sync(_Tag(), base, doc, flavour, res, excluded)
    in_claim = flavour in IN_CLAIM
    if res["first"][0] != "ok" and res["first"][1].get("error") != "diverge" and in_claim:
        out.find(f"sync-first|raises:{res['first'][1]['error']}|{flavour}",
                 f"{base.key}: first application of a valid {flavour} sync document raises {res['first'][1]}",
                 {"kind": "sync", "model": base.key, "doc": doc, "flavour": flavour})
        return
    if res["first"][0] == "ok" and flavour == "dotted" and res["created_first"] != 0:
        out.find("sync-first|creates-instead-of-finding|dotted",
                 f"{base.key}: every entry selects an existing object through find keys on nested attributes, yet the "
                 f"first application creates {res['created_first']} object(s)",
                 {"kind": "sync", "model": base.key, "doc": doc, "flavour": flavour})
        return
    if res["first"][0] != "ok":
        if res["first"][1].get("error") == "diverge":
            out.find(f"sync-first|recursion-never-ends|{'html-find-key+nested-sync' if flavour == 'html-key' else flavour}",
                     f"{base.key}: first application of a {flavour} sync document ends in RecursionError "
                     "(_operate_sync re-creates the object forever because its find never matches)",
                     {"kind": "sync", "model": base.key, "doc": doc, "flavour": flavour})
        return
    case = {"kind": "sync", "model": base.key, "doc": doc, "flavour": flavour}
    v1 = res["first"][1]
    st2, r2 = res["second"]
    cls = None
    what = ""
    if st2 != "ok":
        cls = f"second-run-raises:{r2['error']}"
        what = f"second application raises {r2}"
    elif res["created_second"] != 0:
        cls = "creates-again"
        what = f"second application creates {res['created_second']} more object(s)"
    elif {k: v for k, v in r2.items() if k != "promises"} != {k: v for k, v in v1.items() if k != "promises"}:
        cls = "changes-model"
        bad = [t for t in set(r2["objs"]) | set(v1["objs"]) if r2["objs"].get(t) != v1["objs"].get(t)]
        what = f"second application changes {sorted(bad)[:2]}"
    if cls is None and st2 == "ok" and r2.get("promises") != v1.get("promises"):
        cls = "promise-map-differs"
        what = f"promise map {v1.get('promises')} vs {r2.get('promises')}"
    if cls is None:
        return
    if flavour == "override":
        out.find(f"sync-twice|{cls}|set-overrides-find-key",
                 f"{base.key}: sync entry whose `set` overrides one of its `find` keys: {what}", case)
    elif flavour == "html-key":
        out.find(f"sync-twice|{cls}|html-find-key",
                 f"{base.key}: sync entry with a find key on an HTML attribute whose value is normalised on assignment "
                 f"('a & b' reads back as 'a &amp; b'): {what}", case)
    elif in_claim:
        sig_fl = "forward-set-promise+nested-sync" if flavour == "promise-nested" else flavour
        out.find(f"sync-twice|{cls}|{sig_fl}", f"{base.key}: {flavour} sync document: {what}", case)
    else:
        e = excluded.setdefault(flavour, {})
        e[cls] = e.get(cls, 0) + 1


# ------------------------------------------------------------------ yaml streams


_POOL: list = []  # finished values of the stream under construction (re-used instances become YAML aliases)
NONSTR_KEYS = [1, 0, -7, None, True, 2.5]


def gen_value(rng, depth, decl, NewObject):
    v = _gen_value(rng, depth, decl, NewObject)
    if not isinstance(v, (str, int, float, bool, type(None))):
        _POOL.append(v)
    return v


def _gen_value(rng, depth, decl, NewObject):
    r = rng.random()
    if _POOL and rng.random() < 0.12:
        return rng.choice(_POOL)  # the very same instance again: PyYAML writes an anchor and an alias
    if depth > 2 or r < 0.3:
        k = rng.random()
        if k < 0.45:
            return rng.choice(NAMES)
        if k < 0.55:
            return rng.randint(-5, 10 ** 6)
        if k < 0.62:
            return rng.choice([0.5, -1.25, 1e20])
        if k < 0.7:
            return rng.choice([True, False, None])
        if k < 0.85:
            return decl.Promise(rng.choice(NAMES[:-1] + ["p-1", "123"]))
        return decl.UUIDReference(rng.choice(["00000000-0000-0000-0000-000000000000", "abc_DEF-9", "x"]))
    if r < 0.45:
        l = [gen_value(rng, depth + 1, decl, NewObject) for _ in range(rng.randint(0, 3))]
        return tuple(l) if rng.random() < 0.04 else l
    keys = rng.sample(["name", "_type", "k:1", "a b", "type", "x", "parent", "é", "0", "null"], rng.randint(0, 4))
    d = {k: gen_value(rng, depth + 1, decl, NewObject) for k in keys}
    if r < 0.62:
        if rng.random() < 0.06:  # keys that are not strings (YAML allows any scalar)
            d[rng.choice(NONSTR_KEYS)] = gen_value(rng, depth + 1, decl, NewObject)
        return d
    if r < 0.82:
        return decl.FindBy(d)
    d.pop("_type", None)
    d = {k: v for k, v in d.items() if k.isidentifier() or True}
    return NewObject(rng.choice(["Class", "LogicalFunction", "T y"]), **d)


VERSIONS = ["1.0", "0.6.1.dev1", "99!1", "1.2.3+abc", "0.6.9.dev12+g1a2b3c4", "0.6.9.dev12+g1a2b3c4.d20260929",
            "1!2.0.post3+local.build.7", "2.0rc1", "1.0.post2.dev3", "0.7.3a2", "1.0+", "+x", "1.0 +sp", "v1+1"]


def guarded(out, sig, case, fn, *a, **kw):
    """call into the implementation; an exception on an input the harness built is a finding with a replay,
    never a crash of the harness. Returns (True, value) | (False, None)"""
    try:
        return True, fn(*a, **kw)
    except Exception as e:  # noqa: BLE001
        out.find(f"{sig}|raises:{type(e).__name__}", f"{fn.__name__} raises {type(e).__name__}: {str(e)[:160]}", case)
        return False, None


def gen_stream(rng, decl, NewObject):
    _POOL.clear()
    n = rng.randint(0, 4)
    instrs = []
    for _ in range(n):
        ins = {"parent": rng.choice([decl.Promise("par"), decl.UUIDReference("u-1"), decl.FindBy({"name": rng.choice(NAMES)})])}
        for op in rng.sample(["extend", "create", "set", "sync", "delete"], rng.randint(0, 3)):
            ins[op] = {rng.choice(["functions", "classes", "a-b", "x y"]): gen_value(rng, 1, decl, NewObject)
                       for _ in range(rng.randint(1, 2))}
        instrs.append(ins)
    r = rng.random()
    if r < 0.35:
        meta = None
    elif r < 0.45:
        meta = {}
    elif r < 0.8:
        meta = {"written_by": {"capellambse": rng.choice(VERSIONS)},
                "model": {"url": rng.choice(["git+https://x/y.git", "/tmp/a b", "é"]), "entrypoint": "m.aird"}}
        if rng.random() < 0.5:
            meta["written_by"]["generator"] = rng.choice(NAMES)
        if rng.random() < 0.5:
            meta["model"]["revision"] = "deadbeef"
    else:
        meta = {rng.choice(["k", "written_by"]): gen_value(rng, 2, decl, NewObject)}
    return instrs, meta


def markers_in(x, decl, NewObject, acc):
    if isinstance(x, decl.Promise):
        acc.add("promise")
    elif isinstance(x, decl.UUIDReference):
        acc.add("uuid")
    elif isinstance(x, decl.FindBy):
        acc.add("find")
        markers_in(dict(x.attributes), decl, NewObject, acc)
    elif isinstance(x, NewObject):
        acc.add("new_object")
        markers_in(x._kw, decl, NewObject, acc)
    elif isinstance(x, dict):
        for v in x.values():
            markers_in(v, decl, NewObject, acc)
    elif isinstance(x, list):
        for v in x:
            markers_in(v, decl, NewObject, acc)
    return acc


def features(x, decl, NewObject, acc, seen=None):
    """tuple / nonstr-key / alias (an instance occurring twice) anywhere in the value"""
    seen = {} if seen is None else seen
    if not isinstance(x, (str, int, float, bool, type(None))):
        if id(x) in seen:
            acc.add("alias")
        seen[id(x)] = x
    if isinstance(x, decl.FindBy):
        features(dict(x.attributes), decl, NewObject, acc, seen)
    elif isinstance(x, NewObject):
        features(x._kw, decl, NewObject, acc, seen)
    elif isinstance(x, dict):
        for k, v in x.items():
            if not isinstance(k, str):
                acc.add("nonstr-key")
            features(v, decl, NewObject, acc, seen)
    elif isinstance(x, (list, tuple)):
        if isinstance(x, tuple):
            acc.add("tuple")
        for v in x:
            features(v, decl, NewObject, acc, seen)
    return acc


def detuple(x, decl, NewObject):
    """the value with every tuple turned into a list (YAML has sequences only)"""
    if isinstance(x, decl.FindBy):
        return decl.FindBy(detuple(dict(x.attributes), decl, NewObject))
    if isinstance(x, NewObject):
        return NewObject(x._type_hint, **detuple(x._kw, decl, NewObject))
    if isinstance(x, dict):
        return {k: detuple(v, decl, NewObject) for k, v in x.items()}
    if isinstance(x, (list, tuple)):
        return [detuple(v, decl, NewObject) for v in x]
    return x


def structurally_equal(a, b, decl, NewObject):
    """equality that looks inside NewObject (used to tell a missing __eq__ from a real loss)"""
    if isinstance(a, NewObject) and isinstance(b, NewObject):
        return a._type_hint == b._type_hint and structurally_equal(a._kw, b._kw, decl, NewObject)
    if isinstance(a, decl.FindBy) and isinstance(b, decl.FindBy):
        return structurally_equal(dict(a.attributes), dict(b.attributes), decl, NewObject)
    if isinstance(a, dict) and isinstance(b, dict):
        return a.keys() == b.keys() and all(structurally_equal(a[k], b[k], decl, NewObject) for k in a)
    if isinstance(a, list) and isinstance(b, list):
        return len(a) == len(b) and all(structurally_equal(x, y, decl, NewObject) for x, y in zip(a, b))
    return type(a) is type(b) and a == b


def to_dval(x, decl, NewObject):
    if isinstance(x, str):
        return {"s": x}
    if isinstance(x, bool):
        return {"plain": ["bool", "true" if x else "false"]}
    if x is None:
        return {"plain": ["null", "null"]}
    if isinstance(x, int):
        return {"plain": ["int", str(x)]}
    if isinstance(x, float):
        return {"plain": ["float", repr(x)]}
    if isinstance(x, decl.Promise):
        return {"p": x.identifier}
    if isinstance(x, decl.UUIDReference):
        return {"u": x.uuid}
    if isinstance(x, decl.FindBy):
        return {"f": [[k, to_dval(v, decl, NewObject)] for k, v in x.attributes.items()]}
    if isinstance(x, NewObject):
        return {"n": [to_dval(x._type_hint, decl, NewObject), [[k, to_dval(v, decl, NewObject)] for k, v in x._kw.items()]]}
    if isinstance(x, dict):
        return {"m": [[k if isinstance(k, str) else {"key": repr(k)}, to_dval(v, decl, NewObject)] for k, v in x.items()]}
    if isinstance(x, (list, tuple)):
        return {"l": [to_dval(v, decl, NewObject) for v in x]}
    raise TypeError(type(x))


def node_json(n, plain_as_text=True):
    import yaml

    def short(tag):
        return tag[len("tag:yaml.org,2002:"):] if tag.startswith("tag:yaml.org,2002:") else tag

    if isinstance(n, yaml.ScalarNode):
        return {"sc": [short(n.tag), n.value]}
    if isinstance(n, yaml.MappingNode):
        return {"mp": [short(n.tag), [[node_json(k), node_json(v)] for k, v in n.value]]}
    return {"sq": [short(n.tag), [node_json(v) for v in n.value]]}


def canon_node(j):
    """sort mapping pairs by key text (dict order is not significant); plain non-str scalars keep only their tag"""
    if "sc" in j:
        t, v = j["sc"]
        return {"sc": [t, v if t in ("str", "!promise", "!uuid") else "*"]}
    if "mp" in j:
        t, kvs = j["mp"]
        return {"mp": [t, sorted(([canon_node(k), canon_node(v)] for k, v in kvs), key=lambda p: str(p[0]))]}
    return {"sq": [j["sq"][0], [canon_node(v) for v in j["sq"][1]]]}


def canon_dval(j):
    if "plain" in j:
        return {"plain": [j["plain"][0], "*"]}
    for k in ("f", "m"):
        if k in j:
            return {k: sorted(([a, canon_dval(v)] for a, v in j[k]), key=lambda p: p[0])}
    if "n" in j:
        return {"n": [canon_dval(j["n"][0]), sorted(([a, canon_dval(v)] for a, v in j["n"][1]), key=lambda p: p[0])]}
    if "l" in j:
        return {"l": [canon_dval(v) for v in j["l"]]}
    return j


BAD_TEXTS = [
    "- parent: !promise {a: 1}\n", "- parent: !promise [x]\n", "- parent: !uuid 'not a uuid!'\n", "- parent: !uuid [a]\n",
    "- x: !new_object {name: n}\n", "- x: !new_object {_type: T, name: n}\n", "- x: !new_object scalar\n",
    "- x: !new_object {_type: [a], name: n}\n", "- x: !find scalar\n", "- x: !find [a, b]\n", "- x: !find {}\n",
    "- x: !find {_type: T, name: !promise p}\n", "a: 1\n---\n- x: 1\n", "a: 1\n---\n[]\n---\n[]\n", "", "---\n", "[]\n", "null\n",
    "- x: !new_object {_type: T, 1: n}\n", "- x: !new_object {_type: T, [a]: n}\n", "~\n---\n- parent: !promise p\n",
    "- x: !promise ''\n", "- x: !uuid ''\n", "- x: !new_object {_type: 5}\n",
]


def run_yaml(ctx, out, yreq, ypending):
    capellambse, decl = L.cap()
    from capellambse.model import NewObject
    import yaml

    rng = ctx.rng
    neq_classes: dict[str, int] = {}
    feat_count: dict[str, int] = {}
    out.extra["yaml_streams_by_feature"] = feat_count
    for k in range(pick(ctx, 400, 4000)):
        instrs, meta = gen_stream(rng, decl, NewObject)
        marks = sorted(markers_in(instrs, decl, NewObject, set()))
        feats = features([instrs, meta], decl, NewObject, set())
        for f in feats or {"none"}:
            feat_count[f] = feat_count.get(f, 0) + 1
        case = {"kind": "yaml", "instrs": to_dval(instrs, decl, NewObject)["l"],
                "meta": None if meta is None else to_dval(meta, decl, NewObject)["m"], "share": "alias" in feats}
        out.case(("yaml", common.sha(case)), {"stream": "yaml", **case} if k == 3 else None, bool(marks))
        if "tuple" in feats:
            # YAML has no tuples: SafeDumper writes a sequence, the loader returns a list. Outside the claim
            # (excluded point, Lean: WF has no tuples); everything else must still come back.
            instrs, meta = detuple(instrs, decl, NewObject), (None if meta is None else detuple(meta, decl, NewObject))
        try:
            text = decl.dump(instrs, metadata=meta)
            back_meta, back = decl.load_with_metadata(io.StringIO(text))
            only = decl.load(io.StringIO(text))
        except Exception as e:  # noqa: BLE001
            out.find(f"dump-load|raises:{type(e).__name__}|{'+'.join(marks) or 'plain'}",
                     f"dump/load of a generated stream raises {type(e).__name__}: {str(e)[:120]}", case)
            continue
        out.traces_validated += 1
        want_meta = meta or {}
        if back != instrs or only != instrs or back_meta != want_meta:
            seq = structurally_equal(back, instrs, decl, NewObject) and structurally_equal(back_meta, want_meta, decl, NewObject)
            cls = "new_object-compares-by-identity" if seq else "content-lost"
            neq_classes[cls] = neq_classes.get(cls, 0) + 1
            where = "new_object" if "new_object" in markers_in([instrs, want_meta], decl, NewObject, set()) else "+".join(marks) or "plain"
            out.find(f"dump-load|not-equal:{cls}|{where}",
                     f"decl.load(io.StringIO(decl.dump(x))) != x for a stream with markers {marks} ({cls})", case)
        # codec correspondence: the node graph of the dumped text vs. the model's represent
        try:
            docs = [canon_node(node_json(n)) for n in yaml.compose_all(text, Loader=decl.YDMLoader)]
        except Exception as e:  # noqa: BLE001
            out.find(f"dump-load|unparsable-output:{type(e).__name__}|{'+'.join(marks) or 'plain'}",
                     f"the text decl.dump wrote cannot be composed: {str(e)[:120]}", case)
            continue
        if "nonstr-key" in feats:
            continue  # the model's mappings have string keys: monitor only
        yreq.append({"op": "yaml.dump", "instrs": case["instrs"], "meta": case["meta"] or []})
        ypending.append(("yaml.represent", case, docs))
        yreq.append({"op": "yaml.load", "docs": [node_json(n) for n in yaml.compose_all(text, Loader=decl.YDMLoader)]})
        ypending.append(("yaml.load", case, {"meta": canon_dval(to_dval(back_meta, decl, NewObject)),
                                             "instrs": canon_dval(to_dval(back, decl, NewObject))}))
    # hand-made / malformed texts: construct side, including the error branches
    texts = list(BAD_TEXTS)
    for _ in range(pick(ctx, 60, 600)):
        instrs, meta = gen_stream(rng, decl, NewObject)
        ok, t = guarded(out, "dump-load|dump", {"kind": "yaml", "instrs": to_dval(instrs, decl, NewObject)["l"],
                                                "meta": None if meta is None else to_dval(meta, decl, NewObject)["m"]},
                        decl.dump, instrs, metadata=meta)
        if not ok or "nonstr-key" in features([instrs, meta], decl, NewObject, set()):
            continue
        r = rng.random()
        if r < 0.3:
            t = t.replace("!promise", "!uuid", 1)
        elif r < 0.5:
            t = t.replace("_type:", "_typo:", 1)
        elif r < 0.6:
            t = t.replace("!find", "!new_object", 1)
        elif r < 0.7:
            t = t + "---\n- 1\n"
        texts.append(t)
    for t in texts:
        case = {"kind": "yaml-text", "text": t}
        try:
            nodes = list(yaml.compose_all(t, Loader=decl.YDMLoader))
        except yaml.YAMLError:
            continue
        try:
            m, i = decl.load_with_metadata(io.StringIO(t))
            impl = {"meta": canon_dval(to_dval(m, decl, NewObject)), "instrs": canon_dval(to_dval(i, decl, NewObject))}
        except TypeError:
            impl = {"error": "typeError"}
        except ValueError as e:
            impl = {"error": "count" if "1 or 2 documents" in str(e) else "valueError"}
        except Exception as e:  # noqa: BLE001
            impl = {"error": type(e).__name__}
        out.case(("yaml-text", t), None, "!" in t)
        out.hit("yaml.load:" + impl.get("error", "ok"))
        yreq.append({"op": "yaml.load", "docs": [node_json(n) for n in nodes]})
        ypending.append(("yaml.construct", case, impl))
    out.extra["dump_load_not_equal"] = neq_classes


# ------------------------------------------------------------------ pep440 / verify

TOKENS = ["0", "1", "10", "01", ".", "a", "b", "rc", "c", "!", ".post", ".dev", "post", "-", "+x"]


def run_meta(ctx, out, yreq, ypending):
    capellambse, decl = L.cap()
    n = 4 if os.environ.get("VERIF_WIDEN") == "1" else ctx.pick(4, 5)
    strs = set()
    for k in range(0, n + 1):
        for toks in itertools.product(TOKENS, repeat=k):
            strs.add("".join(toks))
    strs |= {"1.0\n", " 1.0", "1.0 ", "１.0", "1.0.post1.dev2", "2!1.2.3rc4.post5.dev6", "1..0", "1.0a", "1.0rc01", "00", "1.0.dev", "v1"}
    for s in sorted(strs):
        ok, iv = guarded(out, "pep440|_is_pep440", {"kind": "pep440", "s": s}, common.find_function(decl, "_is_pep440", ("pep440",)), s)
        if not ok:
            continue
        iv = bool(iv)
        out.case(("pep440", s), None, len(s) > 1)
        out.hit(f"pep440:{iv}")
        yreq.append({"op": "pep440", "s": s})
        ypending.append(("pep440", s, iv))
    out.extra["pep440_strings"] = len(strs)
    # _verify_metadata against a real model
    import importlib.metadata as imm

    import awesomeversion as av

    m = L.load_model("empty52")
    info = m.info.resources["\x00"]
    cur = av.AwesomeVersion(imm.version("capellambse").partition("+")[0], ensure_strategy=av.AwesomeVersionStrategy.PEP440)
    good = {"written_by": {"capellambse": "0.0.1"}, "model": {"url": info.url, "revision": info.rev_hash,
                                                                   "entrypoint": str(m.info.entrypoint)}}
    variants = [None, {}, good]
    for wb in ["", "0.0.0", "0.1.dev0", "0.1.dev1", "0.1.dev2", "0.1", "0.5", "999.0", "1.0.0.0.0", "abc", "1.0+local", "01.2", "7.0.dev1", "0.7.3a2", "3!0.1"]:
        v = copy.deepcopy(good)
        v["written_by"]["capellambse"] = wb
        variants.append(v)
    for fld, vals in (("url", ["x", None, info.url + "/"]), ("revision", ["abc", "", None]), ("entrypoint", ["x.aird", "", "./" + str(m.info.entrypoint), None])):
        for val in vals:
            v = copy.deepcopy(good)
            if val is None:
                v["model"].pop(fld, None)
            else:
                v["model"][fld] = val
            variants.append(v)
    variants += [{"written_by": {"generator": "g"}}, {"model": good["model"]}, {"written_by": good["written_by"]}]
    import pathlib

    for v in variants:
        try:
            decl._verify_metadata(m, v or {})
            impl = "ok"
        except ValueError as e:
            msg = str(e)
            impl = ("noMetadata" if "No metadata found" in msg else "noWriter" if "written_by:capellambse" in msg else
                    "malformedVersion" if "Malformed version" in msg else "tooOld" if "too old" in msg else
                    "cannotVerify" if "Cannot verify required" in msg else "url" if "URL mismatch" in msg else
                    "revision" if "version mismatch" in msg else "entrypoint" if "entrypoint mismatch" in msg else "other:" + msg[:40])
        except Exception as e:  # noqa: BLE001
            out.find(f"verify|_verify_metadata|raises:{type(e).__name__}",
                     f"_verify_metadata raises {type(e).__name__}: {str(e)[:160]}", {"kind": "verify", "meta": v})
            continue
        out.case(("verify", common.sha(v)), None, bool(v))
        out.hit("verify:" + impl)
        if impl == "cannotVerify":
            continue
        md = v or {}
        wb = md.get("written_by", {}).get("capellambse", "")
        try:
            ne = bool(cur >= av.AwesomeVersion(wb, ensure_strategy=av.AwesomeVersionStrategy.PEP440)) if wb else True
        except Exception:  # noqa: BLE001
            ne = True
        mm = md.get("model", {})
        yreq.append({"op": "verify", "present": bool(md), "written_by": wb, "url": mm.get("url"), "revision": mm.get("revision"),
                     "entrypoint": str(pathlib.PurePosixPath(mm.get("entrypoint", ""))), "info_url": info.url,
                     "info_rev": info.rev_hash, "info_entrypoint": str(m.info.entrypoint), "new_enough": ne})
        ypending.append(("verify", v, impl))


def run_strict(ctx, out):
    """`strict=True` end to end: what `dump(…, metadata=model)` writes is accepted by `apply(model, …, strict=True)`
    for the same model and rejected once any verified field is changed (checked on the text that was written)"""
    capellambse, decl = L.cap()
    import yaml

    n = {"accepted": 0, "rejected": 0}
    for key in ("empty52", "write"):
        base = L.Base(key)
        m = L.load_model(key)
        doc = [{"parent": {"u": base.root_id("rf")}, "sync": [["functions", [{"nid": 10000, "nid2": 15000,
                                                                               "keys": [["name", {"s": "strict e2e"}]]}]]]}]
        case = {"kind": "strict", "model": key}
        ok, text = guarded(out, f"strict|dump|{key}", case, decl.dump, L.to_decl(doc, base), metadata=m, generator="verif")
        if not ok:
            continue
        meta, _ = decl.load_with_metadata(io.StringIO(text))
        out.case(("strict", key), None, True)
        try:
            decl.apply(L.load_model(key), io.StringIO(text), strict=True)
            n["accepted"] += 1
        except Exception as e:  # noqa: BLE001
            out.find(f"strict|rejects-own-dump:{type(e).__name__}|{key}",
                     f"apply(strict=True) rejects the text dump(metadata=model) wrote for the same model: {str(e)[:160]}", case)
        for fld, mut in (("url", lambda md: md["model"].__setitem__("url", str(md["model"]["url"]) + "x")),
                         ("revision", lambda md: md["model"].__setitem__("revision", "0" * 40)),
                         ("entrypoint", lambda md: md["model"].__setitem__("entrypoint", "other.aird")),
                         ("version-newer", lambda md: md["written_by"].__setitem__("capellambse", "99999.0")),
                         ("version-malformed", lambda md: md["written_by"].__setitem__("capellambse", "1.0+local")),
                         ("no-writer", lambda md: md.pop("written_by")),
                         ("no-metadata", lambda md: md.clear())):
            md = copy.deepcopy(meta)
            mut(md)
            t2 = yaml.dump_all([md, L.to_decl(doc, base)], Dumper=decl.YDMDumper) if md else decl.dump(L.to_decl(doc, base))
            out.case(("strict", key, fld), None, True)
            try:
                decl.apply(L.load_model(key), io.StringIO(t2), strict=True)
                out.find(f"strict|accepts-tampered:{fld}|{key}",
                         f"apply(strict=True) accepts a document whose metadata field {fld} does not match the model",
                         dict(case, field=fld))
            except ValueError:
                n["rejected"] += 1
            except Exception as e:  # noqa: BLE001
                out.find(f"strict|raises:{type(e).__name__}|{fld}", f"apply(strict=True) raises {type(e).__name__}: {str(e)[:160]}",
                         dict(case, field=fld))
    out.extra["strict_end_to_end"] = n


# ------------------------------------------------------------------ typed find keys


# kind -> (root of empty52, list attribute, `_type` hint or None, python attribute, needs a unique `name` key)
TYPED_SLOTS = {
    "string": ("rf", "functions", None, "summary", True),
    "html": ("rf", "functions", None, "description", True),
    "bool": ("dp", "classes", None, "is_abstract", True),
    "enum": ("dp", "classes", None, "visibility", True),
    "int": ("rf", "property_values", "IntegerPropertyValue", "value", True),
    "float": ("rf", "property_values", "FloatPropertyValue", "value", True),
    "datetime": ("req", "attributes", "DateValueAttribute", "value", False),
}
TYPED_ALPHA = ["a", "B", " ", "  ", "&", "<", ">", '"', "'", "\t", "\n", "&amp;", "<p>", "</p>", "é", "😀", ";", "x"]


def typed_values(rng, kind, enum_names, n_random):
    """(class label, value) pairs: the boundary values of the kind, the `_fails` witnesses of Props/C13.lean
    (always present: they are replayed on the implementation in every run), then seeded random ones"""
    import datetime as dt
    import math

    tz = dt.timezone
    vals = [("null", None)]
    if kind in ("string", "html"):
        vals += [("empty", ""), ("plain", "plain"), ("amp", "a & b"), ("lt", "a<b"), ("gt", "1 > 0"), ("quote", 'q"uote\''),
                 ("ws-run", "x  y"), ("lead", " lead"), ("trail", "trail "), ("tab", "tab\there"), ("newline", "new\nline"),
                 ("escaped", "a &amp; b"), ("markup", "<p>x</p>"), ("markup", "<b>bold</b> text"), ("entity", "&nbsp;")]
        for _ in range(n_random):
            vals.append(("random", "".join(rng.choice(TYPED_ALPHA) for _ in range(rng.randint(1, 8)))))
    elif kind == "bool":
        vals += [("true", True), ("false", False), ("int0", 0), ("int1", 1), ("str", "true")]
    elif kind == "enum":
        vals += [("default-member" if i == 0 else "member", n) for i, n in enumerate(enum_names)]
        vals += [("unknown-name", "nope"), ("lowercase", enum_names[-1].lower())]
    elif kind == "int":
        vals += [("zero", 0), ("one", 1), ("negative", -7), ("large", 2**31), ("huge", 10**30), ("huge-negative", -(10**25)),
                 ("bool", True), ("bool", False), ("float", 1.5), ("str", "3")]
        for _ in range(n_random):
            vals.append(("random", rng.randint(-10**rng.randint(1, 40), 10**rng.randint(1, 40))))
    elif kind == "float":
        vals += [("zero", 0.0), ("neg-zero", -0.0), ("finite", 1.5), ("finite", -2.25), ("big", 1e300), ("denormal", 5e-324),
                 ("inf", math.inf), ("neg-inf", -math.inf), ("nan", math.nan), ("int-zero", 0), ("int-exact", 1), ("int-exact", -3),
                 ("bool", True), ("int-exact", 2**53), ("int-inexact", 2**53 + 1), ("int-overflow", 10**400), ("str", "1.5")]
        for _ in range(n_random):
            if rng.random() < 0.5:
                vals.append(("random-float", rng.uniform(-1, 1) * 10 ** rng.randint(-20, 20)))
            else:
                i = rng.randint(-10**rng.randint(1, 30), 10**rng.randint(1, 30))
                vals.append(("int-exact" if float(i) == i else "int-inexact", i))
    elif kind == "datetime":
        vals += [("naive", dt.datetime(2001, 1, 1, 10, 0, 0)), ("aware-utc", dt.datetime(2001, 1, 1, 10, 0, 0, tzinfo=tz.utc)),
                 ("aware-ms", dt.datetime(2024, 2, 29, 23, 59, 59, 999000, tzinfo=tz.utc)),
                 ("aware-us", dt.datetime(2001, 1, 1, 10, 0, 0, 123456, tzinfo=tz.utc)),
                 ("aware-offset", dt.datetime(1999, 12, 31, 0, 0, 0, tzinfo=tz(dt.timedelta(hours=5, minutes=30)))),
                 ("aware-neg-offset", dt.datetime(2020, 6, 1, 12, 0, 0, 500000, tzinfo=tz(-dt.timedelta(hours=8)))),
                 ("naive-us", dt.datetime(2010, 5, 5, 5, 5, 5, 5)), ("date", dt.date(2001, 1, 1)), ("str", "2001-01-01T00:00:00+00:00")]
        for _ in range(n_random):
            us = rng.choice([0, 1000 * rng.randint(0, 999), rng.randint(0, 999999)])
            off = tz(dt.timedelta(minutes=rng.randint(-14 * 60, 14 * 60)))
            vals.append(("aware-ms" if us % 1000 == 0 else "aware-us",
                         dt.datetime(rng.randint(1, 9999), rng.randint(1, 12), rng.randint(1, 28), rng.randint(0, 23),
                                     rng.randint(0, 59), rng.randint(0, 59), us, tzinfo=off)))
    return vals


def typed_json(v):
    """the YAML value as the Lean driver reads it, plus the oracles CPython/libxml2 answer for it"""
    import datetime as dt
    import math

    capellambse, _ = L.cap()
    extra: dict = {}
    if v is None:
        j = {"t": "none"}
    elif isinstance(v, bool):
        j = {"t": "bool", "v": v}
    elif isinstance(v, int):
        j = {"t": "int", "v": str(v)}
    elif isinstance(v, float):
        j = {"t": "float", "v": "nan" if math.isnan(v) else repr(v)}
    elif isinstance(v, str):
        j = {"t": "str", "v": v}
        try:
            extra["repair"] = str(capellambse.helpers.repair_html(v))
        except Exception:  # noqa: BLE001
            extra["repair"] = None
    elif isinstance(v, dt.datetime):
        def fields(t):
            off = t.utcoffset()
            return [t.year, t.month, t.day, t.hour, t.minute, t.second, t.microsecond,
                    (off.days * 86400 + off.seconds) * 1000000 + off.microseconds]
        if v.tzinfo is None:
            j = {"t": "naive", "v": v.isoformat()}
            try:
                extra["localize"] = fields(v.astimezone())
            except Exception:  # noqa: BLE001
                extra["localize"] = None
        else:
            j = {"t": "aware", "f": fields(v)}
    else:
        j = {"t": "other"}
    if isinstance(v, int):
        try:
            extra["fofint"] = repr(float(v))
            extra["exact"] = float(v) == v
        except OverflowError:
            extra["fofint"] = None
            extra["exact"] = False
    return j, extra


def typed_parent(m, root):
    if root == "req":
        return m.la.requirement_modules.create(name="M").requirements.create(name="R")
    return {"rf": m.la.root_function, "dp": m.la.data_package}[root]


def typed_twice(kind, v, k):
    """`find: {name: <unique>, <attr>: v}` applied twice to a freshly loaded empty_project_52"""
    import yaml

    capellambse, decl = L.cap()
    root, attr, hint, pyattr, named = TYPED_SLOTS[kind]
    m = L.load_model("empty52")
    par = typed_parent(m, root)
    find: dict = {}
    if hint:
        find["_type"] = hint
    if named:
        find["name"] = f"typed {k}"
    find[pyattr] = v
    text = yaml.dump([{"parent": decl.UUIDReference(par.uuid), "sync": {attr: [{"find": find}]}}], Dumper=decl.YDMDumper, sort_keys=False)
    loaded = yaml.load(text, Loader=decl.YDMLoader)[0]["sync"][attr][0]["find"][pyattr]
    res = {"text": text, "loaded": loaded, "created": [], "errors": [], "cls": None}
    for _ in range(2):
        before = {o.uuid for o in getattr(par, attr)}
        n0 = len(list(m.search()))
        err = None
        try:
            decl.apply(m, io.StringIO(text))
        except RecursionError:
            err = "RecursionError"
        except Exception as e:  # noqa: BLE001
            err = type(e).__name__
        res["created"].append(len(list(m.search())) - n0)
        res["errors"].append(err)
        new = [o for o in getattr(par, attr) if o.uuid not in before]
        if new and res["cls"] is None:
            res["cls"] = type(new[0])
    return res


def run_typed(ctx, out, treq, tpending):
    import gen_pods

    rng = ctx.rng
    L.cap()
    rows = gen_pods.collect()["rows"]
    row_of = {(r["cls"], r["pyname"]): i for i, r in enumerate(rows)}
    n_random = pick(ctx, 3, 40)
    dist: dict = {}
    k = 0
    # the class behind every slot: create one probe object per kind on a scratch model
    probe = L.load_model("empty52")
    for kind, (root, attr, hint, pyattr, _named) in TYPED_SLOTS.items():
        par = typed_parent(probe, root)
        obj = getattr(par, attr).create(hint) if hint else getattr(par, attr).create()
        cls = type(obj)
        key = (gen_pods.qual(cls), pyattr)
        if key not in row_of or rows[row_of[key]]["kind"] != kind:
            out.find(f"typed-find|slot-not-in-pod-table|{kind}", f"{key} is not a {kind} row of the live POD table", {"kind": "typed-slot", "slot": list(key)})
            continue
        row = row_of[key]
        enum_names = list(getattr(cls, pyattr).enumcls.__members__) if kind == "enum" else []
        for label, v in typed_values(rng, kind, enum_names, n_random):
            k += 1
            res = typed_twice(kind, v, k)
            v = res["loaded"]  # what PyYAML hands to decl (equal to v; floats/timestamps as parsed)
            d = dist.setdefault(kind, {})
            d[label] = d.get(label, 0) + 1
            e1, e2 = res["errors"]
            c1, c2 = res["created"]
            if e1 is not None:
                impl = f"rejected:{e1}"
            elif c2 == 0 and e2 is None:
                impl = "found"
            elif e2 is not None:
                impl = f"second-run-raises:{e2}"
            else:
                impl = "creates-again"
            case = {"kind": "typed", "pod": kind, "label": label, "yaml": res["text"]}
            out.case(("typed", kind, label, repr(v)), None, c1 > 0)
            out.hit(f"typed.{kind}:{impl}")
            out.traces_validated += 1
            # monitor: a find value the first run accepted must be found by the second
            if e1 is None and c1 != 1:
                out.find(f"typed-find|first-run-creates:{c1}|{kind}-find-key",
                         f"find key {pyattr}={v!r} ({kind}): the first run created {c1} objects", case)
            elif e1 is None and impl != "found":
                sig_kind = "null" if v is None else kind
                out.find(f"sync-twice|{'creates-again' if impl == 'creates-again' else impl}|{sig_kind}-find-key",
                         f"empty52: find key {pyattr}={v!r} on a {kind} attribute ({label}): the object the first run created "
                         f"is not found by the second ({impl}): the value read back does not equal the value written in the document", case)
            j, extra = typed_json(v)
            treq.append(dict({"op": "typed", "row": row, "value": j}, **extra))
            tpending.append((kind, label, key, case, impl))
    out.extra["typed_find_inputs"] = dist


def judge_typed(out, tpending, answers):
    for (kind, label, key, case, impl), ans in zip(tpending, answers):
        if "err" in ans:
            out.disagree("driver.typed-find", case, impl, ans)
            continue
        a = ans["ok"]
        if (a["cls"], a["pyname"], a["kind"]) != (key[0], key[1], kind):
            out.disagree("typed-find.table-row", case, [key[0], key[1], kind], [a["cls"], a["pyname"], a["kind"]])
            continue
        out.hit(f"model.typed.{kind}:{a['twice'].split(':')[0]}" + ("+keyOk" if a["keyOk"] else ""))
        if a["twice"] != impl or a["finds"] != (impl == "found"):
            out.disagree("typed-find", case, impl, {"twice": a["twice"], "finds": a["finds"]})
        elif a["keyOk"] and impl != "found":
            out.disagree("typed-find.theorem-instance", case, impl, a)


# ------------------------------------------------------------------ run


def run(ctx: Ctx) -> Outcome:
    L.cap()
    out = Outcome(rule=RULE)
    bases = {k: L.Base(k) for k in (["empty52", "melody52", "write"] +
                                    (["melody50", "melody60"] if ctx.thorough and os.environ.get("VERIF_WIDEN") != "1" else []))}
    req, pending, yreq, ypending, treq, tpending = [], [], [], [], [], []
    run_sync(ctx, out, bases, req, pending)
    run_typed(ctx, out, treq, tpending)
    run_yaml(ctx, out, yreq, ypending)
    run_meta(ctx, out, yreq, ypending)
    run_strict(ctx, out)
    if os.environ.get("VERIF_NO_MODEL") != "1":
        answers = []
        for i in range(0, len(req), 300):
            answers += common.model(req[i:i + 300], driver="Decl")
        for (_, base, doc, flavour, res), ans in zip(pending, answers):
            case = {"model": base.key, "doc": doc, "flavour": flavour}
            if "err" in ans:
                out.disagree("driver", case, None, ans)
                continue
            if flavour in ("html-key", "dotted"):
                continue  # no HTML normalisation / dotted attribute paths in the abstract graph: monitor only
            a = ans["ok"]
            # first run
            if "error" in a["first"]:
                m1 = ("err", L.norm_model_err(a["first"]))
            else:
                m1 = ("ok", L.render_model(a["first"], base))
            if m1 != tuple(res["first"]):
                out.disagree(f"sync.first.{flavour}", case, res["first"], m1)
                continue
            out.hit("model.first:" + m1[0])
            if res["second"] is None:
                continue
            if "error" in a.get("second", {}):
                m2 = ("err", L.norm_model_err(a["second"]))
            else:
                m2 = ("ok", L.render_model(a["second"], base))
            if m2 != tuple(res["second"]):
                out.disagree(f"sync.second.{flavour}", case, res["second"], m2)
            elif m2[0] == "ok" and a["created"] != res["created_second"]:
                out.disagree(f"sync.created.{flavour}", case, res["created_second"], a["created"])
            out.hit("model.second:" + (m2[0] if m2[0] == "ok" else m2[1]["error"]))
        judge_typed(out, tpending, common.model(treq, driver="DeclTyped") if treq else [])
        yans = []
        for i in range(0, len(yreq), 20000):
            yans += common.model(yreq[i:i + 20000], driver="DeclYaml")
        for (stream, case, impl), ans in zip(ypending, yans):
            if "err" in ans:
                out.disagree("driver." + stream, case, impl, ans)
                continue
            a = ans["ok"]
            if stream == "yaml.represent":
                mv = [canon_node(n) for n in a]
            elif stream in ("yaml.load", "yaml.construct"):
                mv = a if "error" in a else {"meta": canon_dval(a["meta"]), "instrs": canon_dval(a["instrs"])}
                if "error" in a and a["error"] == "unhashable":
                    mv = {"error": "typeError"}  # PyYAML's ConstructorError for unhashable keys is outside decl
                    if impl.get("error") == "ConstructorError":
                        impl = mv
                if "error" in a and a["error"] == "shape" and "error" not in impl:
                    continue  # documents of a kind `dump` never writes
            else:
                mv = a
            if mv != impl:
                out.disagree(stream, case, impl, mv)
            out.hit("model." + stream)
    return out


def replay(ctx: Ctx, case: dict):
    capellambse, decl = L.cap()
    from capellambse.model import NewObject

    if case.get("kind") == "sync":
        base = L.Base(case["model"])
        import tempfile

        with tempfile.TemporaryDirectory(prefix="c13-replay-") as td:
            res = apply_twice(base, case["doc"], td if case.get("reload") else None)
        o = Outcome()
        judge_sync(o, base, case["doc"], case["flavour"], res, {})
        return o.findings[0].what if o.findings else None
    if case.get("kind") == "typed":
        import yaml

        m = L.load_model("empty52")
        doc = yaml.load(case["yaml"], Loader=decl.YDMLoader)
        root, attr, _hint, _py, _n = TYPED_SLOTS[case["pod"]]
        par = typed_parent(m, root)
        doc[0]["parent"] = decl.UUIDReference(par.uuid)
        text = yaml.dump(doc, Dumper=decl.YDMDumper, sort_keys=False)
        counts = []
        for _ in range(2):
            n0 = len(list(m.search()))
            try:
                decl.apply(m, io.StringIO(text))
            except Exception as e:  # noqa: BLE001
                return f"sync with a typed find key raises {type(e).__name__}: {str(e)[:160]}" if counts else None
            counts.append(len(list(m.search())) - n0)
        return f"second run creates {counts[1]} more object(s)" if counts[1] else None
    if case.get("kind") == "yaml":
        memo: dict = {}

        def from_dval(j):
            if case.get("share") and not ("s" in j or "plain" in j):
                key = common.sha(j)
                if key not in memo:
                    memo[key] = from_dval0(j)
                return memo[key]
            return from_dval0(j)

        def keyof(k):
            return k if isinstance(k, str) else eval(k["key"], {"__builtins__": {}}, {})  # repr of int/float/bool/None

        def from_dval0(j):
            if "s" in j:
                return j["s"]
            if "plain" in j:
                t, s = j["plain"]
                return {"bool": s == "true", "null": None, "int": int(s) if t == "int" else 0, "float": float(s) if t == "float" else 0.0}[t]
            if "p" in j:
                return decl.Promise(j["p"])
            if "u" in j:
                return decl.UUIDReference(j["u"])
            if "f" in j:
                return decl.FindBy({k: from_dval(v) for k, v in j["f"]})
            if "n" in j:
                return NewObject(from_dval(j["n"][0]), **{k: from_dval(v) for k, v in j["n"][1]})
            if "m" in j:
                return {keyof(k): from_dval(v) for k, v in j["m"]}
            return [from_dval(v) for v in j["l"]]

        instrs = [from_dval(v) for v in case["instrs"]]
        meta = None if case["meta"] is None else {k: from_dval(v) for k, v in case["meta"]}
        try:
            text = decl.dump(instrs, metadata=meta)
            bm, back = decl.load_with_metadata(io.StringIO(text))
        except Exception as e:  # noqa: BLE001
            return f"dump/load raises {type(e).__name__}: {str(e)[:200]}"
        if back != instrs or bm != (meta or {}):
            return f"load(dump(x)) != x: {back!r} vs {instrs!r}"[:400]
        return None
    return None
