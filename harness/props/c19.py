"""C19 — diagram cache lookups return the cached image of exactly that diagram.

Correspondence: Lean `Capella.Cache.render/asFmt/convertFormat` (run on the *generated* converter
table) against the real `Diagram.render` / `diagram.as_<fmt>` / `convert_format`, comparing the
TRACE (file names opened on the cache handler, converters run in order, internal renderer run) and
the result. Two instrumentations of the real converters:
  * "tag":  every converter is replaced by a stub returning a term that records what was applied to
            what (the free interpretation the Lean driver uses) — exact comparison with the model;
  * "real": the real converters run (PNG's cairosvg call, unavailable here, is replaced by a
            deterministic stub) wrapped by recorders — trace compared with the model, values judged
            by the monitor.
Monitor (does not use the model): on every case, recompute the nearest cached ancestor by brute
force from the live `depends` attributes, and require: result == convert_format(<that format>,
<requested>, from_cache(<that file>)); only files `<uuid><ext>` of this diagram were opened; the
internal renderer did not run on a hit; on a miss an error (error image for `as_<fmt>`) unless
fallback is on, in which case the value equals the one of the same model loaded without cache.
"""

from __future__ import annotations

import hashlib
import itertools
import os
import pathlib
import shutil
import sys
import zipfile

import common
from common import Ctx, Outcome

DRIVERS = ["Cache"]
TABLES = True
LEVEL = "proof"
RULE = ("(second layer) histories of 1-6 calls on one diagram object over all entry points with per-call cache contents, faults at every "
        "(operation, converter) point and every own cache name x 3 exception kinds, 6 ways of filling the in-memory state; (first layer) "
        "exhaustive product: all subsets of the cache-file universe {d.svg, d.png, d.txt, other.svg, other.png, junk} "
        "(thorough: + d.svg.bak, d.PNG) x all registered formats + None + an unknown name x render()/as_<fmt> x "
        "pretty_print x fallback_render_aird x internal renderer ok/failing x the ways of giving the cache (str path, "
        "pathlib path, file:// URL, zip+file:// URL, dict forms {path: other directory | the model's own path argument} x "
        "{subdir absent | present}, FileHandler instance (memory, local), same as the model path, falsy None/''/{}; every other "
        "plausible directory - model directory, parent directory - holds labelled decoys of all candidate names, and the handler's "
        "resolved root is compared with the configured location) x diagram roles swapped x an adversarial-uuid model (uuids '_D' and "
        "'_D.svg', or colliding ones derived from the live extension table if it is not suffix-free) x path-like uuids ('_D' next to 'x/../_D', './_D', thorough: '/_D', '_D/../_D', '//_D', 'a/b/../../_D') whose names a file handler normalises onto the other diagram's file; plus real-converter runs on corpus diagrams with seeded random cache subsets. "
        "distinct = distinct (mode, way, model, diagram, files, fmt, via, pretty, fallback, fresh_ok); non-trivial = a "
        "cache is configured and the format is registered (the lookup runs)")
ASSUMPTIONS = [
    "first layer (Capella.Cache.render): converters are total functions and the handler's open(name) returns the file or raises "
    "FileNotFoundError; second layer (CacheSM): any converter call and any open() may raise (kinds KeyError / UnknownOutputFormat / "
    "other), propagated as the except clauses of the code do. cairosvg is absent on this image, so PNGFormat.convert is replaced by a "
    "deterministic stub in the real-converter runs; PermissionError is injected (the harness runs as root), the directory named "
    "<uuid><ext> is real",
    "one call is atomic with respect to the cache contents (no concurrent modification during a call); BaseExceptions are not modelled",
    "diagram uuids are arbitrary strings; the handlers' own name normalisation is composed with the lookup (C14 path model): "
    "names that are not one clean path component are never looked up (modelled: plainName; exercised: uuids 'x/../_D', './_D', "
    "'/_D', ... next to '_D' on local, memory and zip handlers); case-insensitive or Unicode-normalising file systems are not modelled",
    "the installed entry-point metadata does not change during a run (importlib.metadata.entry_points is memoised by the harness: "
    "the real code re-reads all distributions' metadata on every render, ~10 ms)",
    "pretty_print is not part of the property's quantifier: on a cache hit the code ignores it (modelled as coded; counted in "
    "extra.pretty_ignored_on_hit); the monitor's direct conversion uses the default pretty_print=False",
]
TRUSTED = ["C19: harness instrumentation of converter classes (harness/props/c19.py: stubs/recorders patched onto the live classes)"]
MANIFEST = dict(
    text=("Lean theorems over a model of _walk_converters, AbstractDiagram.__load_cache, render, as_<fmt>, convert_format and the "
          "diagram_cache dispatch, generic in the converter table, the converters' functions, the cache contents and the uuid: a "
          "hit returns from_cache of the nearest cached ancestor's file converted forward and equals convert_format of that file; "
          "only names uuid+ext are opened and uuid+ext is injective for suffix-free extensions, so files of other diagrams and junk "
          "never influence the result; composed with the handlers' path normalisation (C14 model): every opened name is one clean path "
          "component which every handler resolves to itself, distinct uuids get distinct handler paths or the lookup refuses; a miss is an error unless fallback is enabled, in which case the value equals the uncached "
          "one. The live entry-point table is generated into Lean and its well-formedness (chains end, dispatch tests agree, "
          "extensions suffix-free, cache-loadable converters registered, unique ids) is checked by the kernel. Tie: exhaustive "
          "differential run (all cache-file subsets x formats x flags x ways of specifying the cache) comparing traces and "
          "results of the real code with the model, plus an independent brute-force monitor. Second layer: converters and handler may "
          "raise, the object's in-memory render state and every entry point (render, as_<fmt>, __html__, __repr__, _repr_mimebundle_, "
          "save) are in the model; proved for all call sequences: a render whose lookup is decided by the cache has the output of a fresh "
          "object; on every path a returned value is the complete conversion of this diagram's own cache file (or of the internal "
          "rendering), never partial, never another diagram's."),
    design_ref="§6 C19",
    note=("Trusted: Lean kernel; the instrumentation stubs; cairosvg is absent so PNG conversion is stubbed. Second layer (CacheSM): raising "
          "converters / handlers, the in-memory render state and the entry points as_<fmt>, __html__, __repr__, _repr_mimebundle_, save are "
          "modelled and run as call sequences with faults at particular points; two findings of _repr_mimebundle_ (rendered internally "
          "regardless of the fallback flag; did not use a cached ancestor format) are repaired in /repo and the repaired code is what is modelled "
          "(mimebundle_respects_fallback proved in general)."),
    technique="Lean 4 proof (induction over converter chains, generated table checked by decide +kernel) + exhaustive trace-level differential correspondence",
)

PREFIX = b"VERIF-FILE:"


class InjectedRenderError(Exception):
    """raised by the patched Diagram._create_diagram when the case says the internal renderer fails"""


class Rec:
    def __init__(self):
        self.events: list = []
        self.enabled = True

    def ev(self, e):
        if self.enabled:
            self.events.append(e)


REC = Rec()
STATE = {"fail_fresh": False, "conv_faults": {}, "open_faults": {}, "created": 0}
_MISSING = object()


class InjectedKey(KeyError):
    """fault injection: a KeyError raised by a converter / the cache handler"""


class InjectedOther(OSError):
    """fault injection: any other exception (PermissionError-like OSError of a handler, RuntimeError of a converter)"""


def injected(kind: str, D):
    if kind == "KeyError":
        return InjectedKey("injected")
    if kind == "UnknownOutputFormat":
        return type("InjectedUnknown", (D.UnknownOutputFormat,), {})("injected")
    return InjectedOther("injected")


class TagBytes(bytes):
    """what a tagged format class hands on where the real one produces `bytes`: the JSON text of the term"""

    def decode(self, *a, **k):
        r = TagStr(bytes.decode(self, *a, **k))
        r._verif_tag = self._verif_tag
        return r


class TagStr(str):
    """… where the real one produces `str` (so that `save`, `Markup(...)`, `.encode()` behave as with real data)"""

    def encode(self, *a, **k):
        r = TagBytes(str.encode(self, *a, **k))
        r._verif_tag = self._verif_tag
        return r


def tagged(term, orig):
    import json

    ann = getattr(orig, "__annotations__", {}).get("return")
    cls = TagBytes if ann in ("bytes", bytes) else TagStr
    r = cls(json.dumps(term).encode() if cls is TagBytes else json.dumps(term))
    r._verif_tag = term
    return r


class Patch:
    def __init__(self):
        self.saved: list = []

    def set(self, obj, name, val):
        self.saved.append((obj, name, vars(obj).get(name, _MISSING)))
        setattr(obj, name, val)

    def restore(self):
        for obj, name, old in reversed(self.saved):
            if old is _MISSING:
                delattr(obj, name)
            else:
                setattr(obj, name, old)
        self.saved.clear()


def tagof(x):
    if isinstance(x, list):
        return x
    t = getattr(x, "_verif_tag", None)  # set on diagram.Diagram objects by the recorders below
    if t is not None:
        return t
    return ["untagged", type(x).__name__]


def errname(e: BaseException, D) -> str:
    if isinstance(e, InjectedKey):
        return "Injected:KeyError"
    if isinstance(e, InjectedOther):
        return "Injected:Other"
    if type(e).__name__ == "InjectedUnknown":
        return "Injected:UnknownOutputFormat"
    if isinstance(e, D.UnknownOutputFormat):
        return "UnknownOutputFormat"
    if isinstance(e, InjectedRenderError):
        return "RenderError"
    if isinstance(e, IsADirectoryError):
        return "Injected:Other"   # the real fault: a directory called <uuid><ext> in the cache
    if isinstance(e, TypeError) and str(e).startswith("Cannot write format"):
        return "TypeError"
    if isinstance(e, RuntimeError) and str(e).startswith("Diagram not in cache"):
        return "NotInCache"
    if isinstance(e, KeyError):
        return "KeyError"
    if isinstance(e, ValueError):
        return "ValueError"
    return "Other:" + type(e).__name__


def canon(v):
    """comparable form of a real converter's output"""
    if isinstance(v, (str, bytes)):
        return (type(v).__name__, v)
    if hasattr(v, "to_string"):  # svg.generate.SVGDiagram
        return (type(v).__name__, v.to_string())
    return (type(v).__name__, repr(v))


def png_stub(svg) -> bytes:
    data = svg.encode("utf-8") if isinstance(svg, str) else bytes(svg)
    return b"\x89PNG-stub:" + hashlib.sha256(data).hexdigest().encode()


def install(mode: str):
    """Patch recorders (mode 'real') or term stubs (mode 'tag') onto the live converter objects."""
    import gen_formats
    from capellambse.model import diagram as D

    entries, _unl, objs, ids = gen_formats.walk_objects()
    P = Patch()
    for obj in objs:
        cid = ids[id(obj)]
        if isinstance(obj, type):
            for attr, evname in (("convert", "convert"), ("convert_pretty", "convert_pretty"), ("from_cache", "from_cache")):
                if not hasattr(obj, attr):
                    continue
                orig = getattr(obj, attr)
                if mode == "tag":
                    if attr == "from_cache":
                        def f(cache, cid=cid, evname=evname, orig=orig):
                            REC.ev([evname, cid])
                            if (evname, cid) in STATE["conv_faults"] and REC.enabled:
                                raise injected(STATE["conv_faults"][(evname, cid)], D)
                            name = bytes(cache)[len(PREFIX):].decode() if bytes(cache).startswith(PREFIX) else "?"
                            return tagged([evname, cid, ["file", name]], orig)
                    else:
                        def f(data, cid=cid, evname=evname, orig=orig):
                            REC.ev([evname, cid])
                            if (evname, cid) in STATE["conv_faults"] and REC.enabled:
                                raise injected(STATE["conv_faults"][(evname, cid)], D)
                            return tagged([evname, cid, tagof(data)], orig)
                else:
                    if attr == "convert" and obj is D.PNGFormat:
                        orig = png_stub
                    def f(data, cid=cid, evname=evname, orig=orig):
                        REC.ev([evname, cid])
                        if (evname, cid) in STATE["conv_faults"] and REC.enabled:
                            raise injected(STATE["conv_faults"][(evname, cid)], D)
                        return orig(data)
                P.set(obj, attr, staticmethod(f))
        else:  # plain callable: replace every reference (module attribute, `depends` of others)
            orig = obj
            if mode == "tag":
                def w(data, cid=cid):
                    REC.ev(["call", cid])
                    if ("call", cid) in STATE["conv_faults"] and REC.enabled:
                        raise injected(STATE["conv_faults"][("call", cid)], D)
                    return ["call", cid, tagof(data)]
            else:
                def w(data, cid=cid, orig=orig):
                    REC.ev(["call", cid])
                    if ("call", cid) in STATE["conv_faults"] and REC.enabled:
                        raise injected(STATE["conv_faults"][("call", cid)], D)
                    return orig(data)
            w.__name__ = getattr(obj, "__name__", "w")
            w.__qualname__ = getattr(obj, "__qualname__", "w")
            w.__module__ = getattr(obj, "__module__", None)
            mod = sys.modules.get(getattr(obj, "__module__", ""))
            if mod is not None and getattr(mod, obj.__name__, None) is obj:
                P.set(mod, obj.__name__, w)
            for other in objs:
                if isinstance(other, type) and vars(other).get("depends") is obj:
                    P.set(other, "depends", w)

    # importlib.metadata.entry_points() re-reads every installed distribution's metadata (~10 ms per call, the code calls
    # it on every render): memoised per (group, name) for the duration of the run -- the installed metadata is constant.
    import importlib.metadata as imm

    orig_eps = imm.entry_points
    memo: dict = {}

    def entry_points(**kw):
        key = tuple(sorted(kw.items()))
        if key not in memo:
            memo[key] = orig_eps(**kw)
        return memo[key]

    P.set(imm, "entry_points", entry_points)

    AD = D.AbstractDiagram
    n_rf = common.find_private(AD, "_AbstractDiagram__render_fresh", callable, ("render_fresh", "fresh"))
    n_ei = common.find_private(AD, "_AbstractDiagram__create_error_image", callable, ("error_image", "error"))
    orig_rf = getattr(AD, n_rf)
    orig_ei = getattr(AD, n_ei)
    orig_cd = D.Diagram._create_diagram

    def render_fresh(self, params):
        REC.ev(["fresh"])
        r = orig_rf(self, params)
        if getattr(r, "_verif_tag", None) is None:
            r._verif_tag = ["fresh"]
        return r

    def create_error_image(self, stage, error):
        if stage == "render":
            REC.ev(["error_image", stage])
        img = orig_ei(self, stage, error)
        img._verif_tag = ["error_image", stage, errname(error, D)]
        return img

    def create_diagram(self, params):
        STATE["created"] += 1
        if STATE["fail_fresh"]:
            raise InjectedRenderError("injected")
        return orig_cd(self, {k: v for k, v in params.items() if k != "verif_param"})

    P.set(AD, n_rf, render_fresh)
    P.set(AD, n_ei, create_error_image)
    P.set(D.Diagram, "_create_diagram", create_diagram)
    return P


# ------------------------------------------------------------------ brute-force view of the table (monitor)


def live_table(D):
    """name -> list of live ancestor objects (format first), straight from the `depends` attributes."""
    import importlib.metadata as imm

    table = {}
    for ep in imm.entry_points(group="capellambse.diagram.formats"):
        obj = ep.load()
        chain, seen = [], set()
        while obj is not None and id(obj) not in seen:
            seen.add(id(obj))
            chain.append(obj)
            obj = getattr(obj, "depends", None)
        table[ep.name] = chain
    return table


def name_of(table, obj):
    for n, ch in table.items():
        if ch[0] is obj:
            return n
    return None


# ------------------------------------------------------------------ cache "ways"

FALSY = {"falsy-none": None, "falsy-empty-str": "", "falsy-empty-dict": {}}
# dict forms: path {another directory, the model's own path argument} x subdir {absent, present}
WAYS = ["path-str", "path-pathlib", "url-file", "url-zip", "dict-path", "dict-subdir", "dict-modelpath", "dict-modelpath-subdir",
        "handler-memory", "handler-local", "same-as-model", "falsy-none", "falsy-empty-str", "falsy-empty-dict"]
SPEC_KIND = {"path-str": "pathOrUrl", "path-pathlib": "pathOrUrl", "url-file": "pathOrUrl", "url-zip": "pathOrUrl",
             "dict-path": "mapping", "dict-subdir": "mapping", "dict-modelpath": "mapping", "dict-modelpath-subdir": "mapping",
             "handler-memory": "handler", "handler-local": "handler",
             "same-as-model": "samePath", "falsy-none": "falsy", "falsy-empty-str": "falsy", "falsy-empty-dict": "falsy"}
CACHED_WAYS = [w_ for w_ in WAYS if SPEC_KIND[w_] != "falsy"]
EXPECT_HANDLER = {"pathOrUrl": "fromPath", "mapping": "fromKwargs", "handler": "given", "samePath": "loaders", "falsy": None}


class World:
    """One loaded model + one way of giving it a cache, whose contents can be switched."""

    def __init__(self, ctx: Ctx, src_model: pathlib.Path, way: str, allow: bool, rewrite_uids: dict | None = None, tag: str = ""):
        import capellambse
        from capellambse.filehandler import local as fh_local
        from capellambse.filehandler import memory as fh_mem

        self.way, self.allow = way, allow
        self.base = ctx.scratch / f"w-{tag}-{way}-{int(allow)}"
        if self.base.exists():
            shutil.rmtree(self.base)
        self.mdir = self.base / "model"
        shutil.copytree(src_model, self.mdir)
        self.aird = next(self.mdir.glob("*.aird"))
        if rewrite_uids:
            txt = self.aird.read_text(encoding="utf-8")
            for old, new in rewrite_uids.items():
                assert txt.count(f'uid="{old}"') == 1
                txt = txt.replace(f'uid="{old}"', f'uid="{new}"')
            self.aird.write_text(txt, encoding="utf-8")
        self.cdir = self.base / "cache"
        self.cdir.mkdir()
        self.capellambse = capellambse
        self.model_kw: dict = {}
        self.static = True  # handler reads the directory live; contents can be switched without reloading
        path: object = str(self.aird)
        if way in FALSY:
            spec: object = FALSY[way]
        elif way == "path-str":
            spec = str(self.cdir)
        elif way == "path-pathlib":
            spec = self.cdir
        elif way == "url-file":
            spec = "file://" + str(self.cdir)
        elif way == "url-zip":
            spec = "zip+file://" + str(self.cdir / "cache.zip")
            self.static = False
        elif way == "dict-path":
            spec = {"path": str(self.cdir)}
        elif way == "dict-subdir":
            spec = {"path": str(self.base), "subdir": "cache"}
        elif way == "dict-modelpath":  # the dict's path is the model's own path argument (a directory + entrypoint)
            path = str(self.mdir)
            self.model_kw = {"entrypoint": self.aird.name}
            spec = {"path": path}
            self.cdir = self.mdir
        elif way == "dict-modelpath-subdir":  # ... plus a further handler argument: the cache is a sub-directory of the model's
            path = str(self.mdir)
            self.model_kw = {"entrypoint": self.aird.name}
            spec = {"path": path, "subdir": "cache"}
            self.cdir = self.mdir / "cache"
            self.cdir.mkdir()
        elif way == "handler-memory":
            spec = fh_mem.MemoryFileHandler()
        elif way == "handler-local":
            spec = fh_local.LocalFileHandler(self.cdir)
        elif way == "same-as-model":
            path = str(self.mdir)
            spec = path
            self.cdir = self.mdir
        else:
            raise ValueError(way)
        self.path, self.spec = path, spec
        self.model = None
        self.current: dict | None = None
        self.baseline_names = {p.name for p in self.cdir.iterdir()} if self.cdir.exists() else set()
        # places a wrongly resolved cache location would look in: same file names, different (labelled) content
        self.decoy_dirs = [(lbl, d) for lbl, d in (("modeldir", self.mdir), ("parentdir", self.base)) if d != self.cdir]
        self.decoys_written: set[str] = set()
        self.on_disk = way not in FALSY and way not in ("handler-memory", "url-zip")

    def load(self):
        self.model = self.capellambse.MelodyModel(self.path, diagram_cache=self.spec, fallback_render_aird=self.allow, **self.model_kw)
        h = self.model.diagram_cache
        if h is not None:
            orig = h.open

            def opened(name, *a, _orig=orig, **k):
                REC.ev(["open", str(name)])
                if str(name) in STATE["open_faults"] and REC.enabled:
                    from capellambse.model import diagram as D_
                    raise injected(STATE["open_faults"][str(name)], D_)
                return _orig(name, *a, **k)

            h.open = opened
        return self.model

    def set_files(self, files: dict[str, bytes], decoy_names: tuple = (), mode: str = "tag"):
        """Make the cache contain exactly `files` (plus, for same-as-model, the model's own files); every other
        plausible directory (model directory, parent directory) permanently holds a decoy of each name."""
        for n in decoy_names:
            if n not in self.decoys_written:
                self.decoys_written.add(n)
                for lbl, d in self.decoy_dirs:
                    (d / n).write_bytes(decoy_content(n, lbl, mode))
        if self.way in FALSY:
            self.current = dict(files)
            if self.model is None:
                self.load()
            return
        if self.way == "handler-memory":
            if self.model is None:
                self.load()
            self.spec._data.clear()
            for n, c in files.items():
                with self.spec.open(n, "wb") as f:
                    f.write(c)
        elif self.way == "url-zip":
            if self.model is not None:
                self.model = None
            zp = self.cdir / "cache.zip"
            with zipfile.ZipFile(zp, "w") as z:
                z.writestr("zz-keep-1", b"")  # two root entries: avoids the single-directory default-subdir rule
                z.writestr("zz-keep-2", b"")
                for n, c in files.items():
                    z.writestr(n, c)
            self.load()
        else:
            for p in list(self.cdir.iterdir()):
                if p.name not in self.baseline_names and p.is_file() and not (self.cdir in [d for _l, d in self.decoy_dirs]):
                    p.unlink()
            for n, c in files.items():
                (self.cdir / n).write_bytes(c)
            if self.model is None:
                self.load()
        self.current = dict(files)

    def handler_kind(self):
        m = self.model
        if m.diagram_cache is None:
            return None
        if m.diagram_cache is m._loader.filehandler:
            return "loaders"
        if self.way.startswith("handler-") and m.diagram_cache is self.spec:
            return "given"
        return {"mapping": "fromKwargs", "pathOrUrl": "fromPath"}.get(SPEC_KIND[self.way], "?")


# ------------------------------------------------------------------ one observation + its judgement


def observe(D, d, case: dict):
    """Run the real code once; returns {'trace': [...], 'result': {'ok'|'raise': ...}, 'value': raw}."""
    REC.events = []
    REC.enabled = True
    try:
        if case["via"] == "render":
            v = d.render(case["fmt"], pretty_print=case["pretty"])
        else:
            v = getattr(d, "as_" + case["fmt"])
        res = {"ok": tagof(v) if case["mode"] == "tag" else "value"}
    except Exception as e:  # noqa: BLE001
        v = e
        res = {"raise": errname(e, D)}
    finally:
        REC.enabled = False
    return {"trace": list(REC.events), "result": res, "value": v}


def judge(out: Outcome, D, table, world: World, d, other_uuids: list[str], case: dict, obs: dict, baseline):
    """The property statement, directly, on one observed case. `baseline(case)` gives the uncached observation."""
    def fail(cls: str, what: str):
        out.find(f"{case['via']}|{cls}", f"{what} [way={case['way']} fmt={case['fmt']} files={sorted(case['files'])} "
                 f"fallback={case['allow']} pretty={case['pretty']}]", {k: v for k, v in case.items()})

    fmt = case["fmt"]
    opened = [e[1] for e in obs["trace"] if e[0] == "open"]
    present = set(case["files"])
    uuid = d.uuid
    configured = world.model.diagram_cache is not None
    if (SPEC_KIND[case["way"]] != "falsy") != configured:
        fail("cache-config", f"diagram_cache configured={configured} for spec {case['way']}")
    if world.handler_kind() != EXPECT_HANDLER[SPEC_KIND[case["way"]]]:
        fail("cache-config", f"handler identity {world.handler_kind()}")
    hp = getattr(world.model.diagram_cache, "path", None)
    if world.on_disk and isinstance(hp, pathlib.Path) and os.path.realpath(hp) != os.path.realpath(world.cdir):
        fail("cache-location", f"cache files are looked up in {hp}, configured location is {world.cdir}")
    if case["mode"] == "tag" and "DECOY@" in str(obs["result"]):
        fail("cache-location", f"the result derives from a file outside the configured cache: {obs['result']}")
    if fmt is None or fmt not in table:
        if opened:
            fail("opens-without-format", f"opened {opened}")
        return
    chain = table[fmt]
    exts = {}
    for ch in table.values():
        for cv in ch:
            e = getattr(cv, "filename_extension", None)
            if e and hasattr(cv, "from_cache"):
                exts[e] = cv
    # (1) only this diagram's files are ever asked for
    for n in opened:
        if not configured:
            fail("opens-without-cache", f"opened {n!r} although no cache is configured")
        if not (n.startswith(uuid) and n[len(uuid):] in exts):
            fail("opens-foreign-file", f"opened {n!r}, not <uuid><ext> of diagram {uuid}")
        for ou in other_uuids:
            if any(n == ou + e for e in exts):
                fail("opens-other-diagram", f"opened {n!r}, a cache file of diagram {ou}")
    if case["mode"] == "tag" and "ok" in obs["result"]:
        t = obs["result"]["ok"]
        while isinstance(t, list) and t and t[0] in ("convert", "call", "convert_pretty", "from_cache"):
            t = t[-1]
        if isinstance(t, list) and t and t[0] == "file" and not (str(t[1]).startswith(uuid) and str(t[1])[len(uuid):] in exts):
            owner = [ou for ou in other_uuids if any(t[1] == ou + e for e in exts)]
            fail("reads-other-diagram" if owner else "reads-foreign-file",
                 f"the result of diagram {uuid!r} was made from the bytes of {t[1]!r}" + (f", the cache file of diagram {owner[0]!r}" if owner else ""))
    if not configured:
        return
    nearest = None
    for k, cv in enumerate(chain):
        e = getattr(cv, "filename_extension", None)
        if e and hasattr(cv, "from_cache") and (uuid + e) in present:
            nearest = (k, cv, uuid + e)
            break
    fresh_ran = ["fresh"] in obs["trace"]
    if nearest is not None:
        k, cv, fname = nearest
        if "raise" in obs["result"]:
            fail("hit-raises", f"{fname} is cached but the result is {obs['result']}")
            return
        if fresh_ran:
            fail("fresh-on-hit", f"{fname} is cached but the internal renderer ran")
        src = name_of(table, cv)
        content = world.current[fname]
        REC.enabled = False
        direct = D.convert_format(src, fmt, cv.from_cache(content))
        same = (tagof(direct) == obs["result"]["ok"]) if case["mode"] == "tag" else (canon(direct) == canon(obs["value"]))
        if not same:
            fail("hit-differs-from-direct", f"result is not convert_format({src!r}, {fmt!r}, from_cache({fname}))")
        if case["pretty"]:
            pd = D.convert_format(src, fmt, cv.from_cache(content), pretty_print=True)
            differs = (tagof(pd) != obs["result"]["ok"]) if case["mode"] == "tag" else (canon(pd) != canon(obs["value"]))
            if differs:
                out.extra["pretty_ignored_on_hit"] = out.extra.get("pretty_ignored_on_hit", 0) + 1
        if case["mode"] == "tag":
            # the bytes that went in are those of <uuid><ext>, nothing else
            t = obs["result"]["ok"]
            while isinstance(t, list) and t and t[0] != "file":
                t = t[-1]
            if t != ["file", fname]:
                fail("hit-wrong-file", f"result derives from {t}, expected file {fname}")
    else:
        if not case["allow"]:
            if fresh_ran:
                fail("fresh-without-fallback", "nothing cached, fallback off, but the internal renderer ran")
            if case["via"] == "render":
                if obs["result"] != {"raise": "NotInCache"}:
                    fail("miss-no-error", f"nothing cached, fallback off, result {obs['result']}")
            else:
                ok = obs["result"].get("ok")
                if case["mode"] == "tag":
                    t = ok
                    while isinstance(t, list) and t and t[0] in ("convert", "call", "convert_pretty"):
                        t = t[-1]
                    if t != ["error_image", "render", "NotInCache"]:
                        fail("miss-no-error", f"nothing cached, fallback off, as_{fmt} gives {ok}")
                elif "raise" in obs["result"] or ["error_image", "render"] not in obs["trace"]:
                    fail("miss-no-error", f"nothing cached, fallback off, as_{fmt} gives {obs['result']}")
        else:
            b = baseline(case)
            same = (b["result"] == obs["result"]) if case["mode"] == "tag" else (
                b["result"] == obs["result"] and ("raise" in b["result"] or canon(b["value"]) == canon(obs["value"])))
            if not same:
                fail("fallback-differs-from-uncached", f"fallback result {obs['result']} differs from the uncached model's {b['result']}")


def decoy_content(name: str, where: str, mode: str) -> bytes:
    if mode == "tag":
        return PREFIX + f"DECOY@{where}|{name}".encode()
    if name.endswith(".svg"):
        return f'<svg xmlns="http://www.w3.org/2000/svg"><!-- DECOY in {where}: {name} --></svg>'.encode("utf-8")
    return b"\x89PNG\r\n\x1a\nDECOY in " + where.encode() + b" " + name.encode()


def content_for(name: str, mode: str) -> bytes:
    if mode == "tag":
        return PREFIX + name.encode()
    if name.endswith(".svg"):
        return f'<svg xmlns="http://www.w3.org/2000/svg"><!-- cached {name} é --></svg>'.encode("utf-8")
    return b"\x89PNG\r\n\x1a\ncached " + name.encode()


def model_request(case: dict, uuid: str) -> dict:
    return {"op": "cache.render", "via": case["via"], "uuid": uuid, "fmt": case["fmt"], "pretty": case["pretty"],
            "spec": SPEC_KIND[case["way"]], "allow": case["allow"], "files": sorted(case["files"]), "fresh_ok": case["fresh_ok"]}


# ------------------------------------------------------------------ the run


def _imports():
    if str(common.REPO) not in sys.path:
        sys.path.insert(0, str(common.REPO))
    import capellambse  # noqa: F401
    from capellambse.model import diagram as D
    return D


LIB_UIDS = ("_yLAzgKNzEeyJNLcTD9ngpQ", "_yyMh8aFHEeyn0YWM8vjd5w")


def adversarial_uuids(live: dict) -> dict:
    """uuids for the two Library Test diagrams whose cache names would collide if the live extension table were not
    suffix-free (ext' = a + ext -> uuids '_D' and '_D' + a); with a suffix-free table: '_D' and '_D.svg'."""
    exts = [r["ext"] for r in live["convs"] if r["ext"] and r["fromCache"]]
    for e in exts:
        for e2 in exts:
            if e2 != e and e2.endswith(e):
                return {LIB_UIDS[0]: "_D", LIB_UIDS[1]: "_D" + e2[: len(e2) - len(e)]}
    return {LIB_UIDS[0]: "_D", LIB_UIDS[1]: "_D.svg"}


def universe(uuid: str, others: list[str], thorough: bool) -> list[str]:
    u = [uuid + ".svg", uuid + ".png", uuid + ".txt"]
    for o in others[:1]:
        u += [o + ".svg", o + ".png"]
    u.append("junk.bin")
    if thorough:
        u += [uuid + ".svg.bak", uuid + ".PNG"]
    # a uuid that is not a plain file name ('x/../_D') has no file of its own in a flat cache directory
    return [n for n in u if "/" not in n]


def pathlike_uuids(thorough: bool) -> list[dict]:
    """uuids for the two Library Test diagrams of which the second is a PATH that a file handler normalises onto the
    first one's name ('x/../_D.svg', './_D.svg', '/_D.svg' all resolve to '_D.svg')."""
    vs = ["x/../_D", "./_D"] + (["/_D", "_D/../_D", "//_D", "a/b/../../_D"] if thorough else [])
    return [{LIB_UIDS[0]: "_D", LIB_UIDS[1]: v} for v in vs]


def run(ctx: Ctx) -> Outcome:
    os.environ.setdefault("XDG_CACHE_HOME", str(ctx.scratch / "xdg"))
    D = _imports()
    import gen_formats
    import logging

    logging.disable(logging.CRITICAL)  # the library logs every cache miss / unknown filter
    out = Outcome(rule=RULE)
    out.table_obligations = 6
    use_model = os.environ.get("VERIF_NO_MODEL") != "1"
    data = common.REPO / "tests" / "data"
    lib = data / "Library Test"

    requests: dict[str, dict] = {}   # dedup key -> model request
    pending: list[tuple[str, dict, dict]] = []  # (key, case, impl observation sans value)
    dist: dict[str, int] = {}

    def count(k):
        dist[k] = dist.get(k, 0) + 1

    # ---- translator round trip + convert_format correspondence
    live = gen_formats.collect()
    fmts = [n for n, _ in live["entries"]]
    conv_cases = [(s, t_, p) for s in [None, "bogus"] + fmts for t_ in fmts + ["bogus"] for p in (False, True)]

    phases: dict[str, float] = {}

    def run_mode(mode: str, model_dirs: list[tuple[pathlib.Path, str, dict | None]], ways: list[str], subsets_of, fmt_list, pretties, freshes, vias, roles):
        import time

        t0 = time.time()
        P = install(mode)
        try:
            table = live_table(D)
            for src, mtag, rewrite in model_dirs:
                nocache = World(ctx, src, "falsy-none", False, rewrite, tag=f"{mode}-{mtag}-base")
                nocache.set_files({})
                base_cache: dict = {}
                for way in ways:
                    for allow in (False, True):
                        w = World(ctx, src, way, allow, rewrite, tag=f"{mode}-{mtag}")
                        w.set_files({})
                        dgs = list(w.model.diagrams)
                        for role in roles(len(dgs)):
                            d = dgs[role]
                            others = [x.uuid for x in dgs if x.uuid != d.uuid]
                            bd = next(x for x in nocache.model.diagrams if x.uuid == d.uuid)
                            for files in subsets_of(d.uuid, others, way):
                                w.set_files({n: content_for(n, mode) for n in files}, tuple(universe(d.uuid, others, False)), mode)
                                d = next(x for x in w.model.diagrams if x.uuid == d.uuid)  # zip way reloads the model
                                for fresh_ok in freshes:
                                    STATE["fail_fresh"] = not fresh_ok
                                    d.invalidate_cache()
                                    for fmt, via, pretty in itertools.product(fmt_list, vias, pretties):
                                        if via == "as" and (fmt is None or pretty):
                                            continue
                                        case = {"mode": mode, "model": mtag, "way": way, "allow": allow, "diagram": role, "uuid": d.uuid,
                                                "files": sorted(files), "fmt": fmt, "via": via, "pretty": pretty, "fresh_ok": fresh_ok}
                                        obs = observe(D, d, case)

                                        def baseline(c, bd=bd, mode=mode):
                                            key = (c["fmt"], c["via"], c["pretty"], c["fresh_ok"], bd.uuid)
                                            if key not in base_cache:
                                                STATE["fail_fresh"] = not c["fresh_ok"]
                                                bd.invalidate_cache()
                                                base_cache[key] = observe(D, bd, dict(c, mode=mode))
                                                STATE["fail_fresh"] = not fresh_ok
                                            return base_cache[key]

                                        judge(out, D, table, w, d, others, case, obs, baseline)
                                        nontriv = SPEC_KIND[way] != "falsy" and fmt in table
                                        out.case(common.sha(case), {k: case[k] for k in ("way", "files", "fmt", "via", "allow")} | {"impl": obs["result"], "trace": obs["trace"]}
                                                 if (nontriv and len(out.samples) < 6 and ctx.rng.random() < 0.002) else None, nontriv)
                                        out.traces_validated += 1
                                        count(f"way:{way}"); count(f"fmt:{fmt}"); count(f"mode:{mode}")
                                        if "/" in d.uuid:
                                            count("uuid:pathlike")
                                            out.hit("probe:nonplain-name-skipped" if not any(e[0] == "open" for e in obs["trace"]) else "probe:nonplain-name-OPENED")
                                        hit = any(e[0] == "from_cache" for e in obs["trace"])
                                        count("outcome:" + ("hit" if hit else ("raise:" + obs["result"]["raise"] if "raise" in obs["result"] else ("fresh" if ["fresh"] in obs["trace"] else "error-image"))))
                                        req = model_request(case, d.uuid)
                                        key = common.sha(req)
                                        requests.setdefault(key, req)
                                        impl = {"trace": obs["trace"], "result": obs["result"] if mode == "tag" else {k: ("value" if k == "ok" else v) for k, v in obs["result"].items()}}
                                        pending.append((key, case, impl))
                        w.model = None
                        shutil.rmtree(w.base, ignore_errors=True)
                shutil.rmtree(nocache.base, ignore_errors=True)
            # convert_format correspondence (tag mode only: exact terms)
            if mode == "tag":
                for s, t_, p in conv_cases:
                    REC.enabled = False
                    try:
                        r = {"ok": tagof(D.convert_format(s, t_, ["file", "DATA"], pretty_print=p))}
                    except Exception as e:  # noqa: BLE001
                        r = {"raise": errname(e, D)}
                    req = {"op": "cache.convert_format", "src": s, "tgt": t_, "pretty": p}
                    key = common.sha(req)
                    requests.setdefault(key, req)
                    pending.append((key, {"stream": "convert_format", "src": s, "tgt": t_, "pretty": p}, r))
                    out.case(("convert_format", s, t_, p), None, s is not None)
        finally:
            P.restore()
            STATE["fail_fresh"] = False
            phases[f"{mode}:{model_dirs[0][1]}:{len(pending)}"] = round(time.time() - t0, 1)

    def all_subsets(uuid, others, way):
        u = universe(uuid, others, ctx.thorough)
        if SPEC_KIND[way] == "falsy":
            yield from ([], u)  # no cache location exists: contents are only told to the model
            return
        for r in range(len(u) + 1):
            yield from (list(c) for c in itertools.combinations(u, r))

    all_fmts = [None, "bogus"] + fmts
    adversarial = adversarial_uuids(live)
    # (A) exhaustive, tagged converters, Library Test (two diagrams; both roles), every way
    run_mode("tag", [(lib, "lib", None)], WAYS, all_subsets, all_fmts, (False, True), (True, False), ("render", "as"),
             lambda n: range(min(n, 2)))
    # (B) adversarial uuids ('_D' / '_D.svg'): the file names of one diagram extend the other's
    run_mode("tag", [(lib, "adv", adversarial)], ["path-str", "handler-memory", "same-as-model", "dict-modelpath-subdir"] if not ctx.thorough else CACHED_WAYS,
             all_subsets, all_fmts, (False,), (True,), ("render",), lambda n: range(min(n, 2)))

    # (B') path-like uuids: the handler normalises '<uuid><ext>' of one diagram onto the cache file of the other
    for k, rw in enumerate(pathlike_uuids(ctx.thorough)):
        run_mode("tag", [(lib, f"pathlike{k}", rw)], ["path-str", "handler-memory", "url-zip"] if not ctx.thorough else CACHED_WAYS,
                 all_subsets, ["svg", "png", "svg_confluence", "datauri_svg", "html_img", None, "bogus"], (False,), (True,), ("render", "as"),
                 lambda n: range(min(n, 2)))

    # (C) real converters: Library Test exhaustively over the file subsets for two ways; corpus diagrams with random subsets
    def few_subsets(uuid, others, way):
        u = universe(uuid, others, False)
        if SPEC_KIND[way] == "falsy":
            yield []
            return
        for r in range(len(u) + 1):
            for c in itertools.combinations(u, r):
                if ctx.thorough or len(c) in (0, 1, len(u)) or ctx.rng.random() < 0.25:
                    yield list(c)

    run_mode("real", [(lib, "lib", None)], ["path-str", "handler-memory", "dict-modelpath-subdir"] if not ctx.thorough else CACHED_WAYS, few_subsets, all_fmts,
             (False, True), (True, False) if ctx.thorough else (True,), ("render", "as"), lambda n: range(min(n, 2)))
    corpus = [data / "melodymodel" / v for v in (("5_0", "5_2", "6_0") if ctx.thorough else ("5_2",))]
    ndg = ctx.pick(4, 12)

    def rnd_subsets(uuid, others, way):
        u = universe(uuid, others, False)
        yield []
        for _ in range(ctx.pick(3, 6)):
            yield [n for n in u if ctx.rng.random() < 0.5]

    def rnd_roles(n):
        return sorted(ctx.rng.sample(range(n), min(n, ndg)))

    run_mode("real", [(c, c.name, None) for c in corpus], ["path-str", "url-zip"] if ctx.thorough else ["path-str"], rnd_subsets,
             ["svg", "png", "svg_confluence", "html_img", "termgraphics", "svgdiagram"], (False,), (True,), ("render",), rnd_roles)

    # (D) call sequences on one diagram object: every entry point, faults at particular points, in-memory render state
    import time as _time
    _t0 = _time.time()
    run_seq(ctx, out, D, lib, fmts, requests, pending, count)
    phases[f"seq:{len(pending)}"] = round(_time.time() - _t0, 1)

    # ---- model side
    if use_model:
        keys = list(requests)
        raw = common.model([requests[k] for k in keys] + [{"op": "cache.dump-table"}], driver="Cache")
        answers = dict(zip(keys, raw))
        dump = raw[-1].get("ok")
        want = {"convs": [{k: r[k] for k in ("id", "ext", "fromCache", "hasConvert", "isFormat", "isPretty", "depends")} for r in live["convs"]],
                "entries": [list(e) for e in live["entries"]]}
        got = {"convs": dump["convs"], "entries": dump["entries"]} if dump else None
        if got != want:
            out.disagree("table-roundtrip", "cache.dump-table", want, got)
        out.hit("table-roundtrip")
        for key, case, impl in pending:
            ans = answers[key]
            if "ok" not in ans:
                out.disagree("driver-error", case, impl, ans)
                continue
            m = ans["ok"]
            if case.get("stream") == "seq":
                if m != impl and os.environ.get("VERIF_DEBUG"):
                    k_ = next((i for i, (a, b) in enumerate(zip(m, impl)) if a != b), 0)
                    print("SEQ-DISAGREE", case["way"], case["allow"], case.get("conv_faults"), case["calls"][k_], "\n  impl ", impl[k_], "\n  model", m[k_], file=sys.stderr)
                if m != impl:
                    k = next((i for i, (a, b) in enumerate(zip(m, impl)) if a != b), min(len(m), len(impl)))
                    out.disagree("seq", dict(case, upto=k), impl[k] if k < len(impl) else None, m[k] if k < len(m) else None)
                for mm, cc in zip(m, case["calls"]):
                    out.hit(f"model:seq:{cc['entry']}:" + ("raise:" + mm["result"]["raise"] if "raise" in mm["result"] else
                            ("hit" if any(e[0] == "from_cache" for e in mm["trace"]) else ("fresh" if ["fresh"] in mm["trace"] else "other")))
                            + (":created" if mm["created"] else ""))
                continue
            if case.get("stream") == "convert_format":
                if m != impl:
                    out.disagree("convert_format", case, impl, m)
                out.hit("convert_format:" + ("ok" if "ok" in m else m["raise"]))
                continue
            mres = m["result"] if case["mode"] == "tag" else {k: ("value" if k == "ok" else v) for k, v in m["result"].items()}
            if m["trace"] != impl["trace"] or mres != impl["result"]:
                out.disagree(f"render.{case['mode']}", case, impl, {"trace": m["trace"], "result": mres})
            br = ("hit" if any(e[0] == "from_cache" for e in m["trace"]) else
                  ("raise:" + m["result"]["raise"]) if "raise" in m["result"] else
                  ("error-image" if any(e[0] == "error_image" for e in m["trace"]) or str(m["result"]).find("error_image") >= 0 else
                   ("fallback-fresh" if any(e[0] == "open" for e in m["trace"]) else "uncached-fresh")))
            out.hit(f"model:{case['via']}:{br}")
    out.extra["input_distribution"] = dict(sorted(dist.items()))
    out.extra["distinct_model_requests"] = len(requests)
    out.extra["phase_seconds"] = phases
    out.extra["fingerprints"] = common.source_fingerprint(
        "capellambse/model/diagram.py",
        ["AbstractDiagram.render", "AbstractDiagram.__getattr__", "AbstractDiagram.__load_cache", "AbstractDiagram.__render_fresh",
         "convert_format", "_run_converter_chain", "_find_format_converter", "_walk_converters", "Diagram._allow_render"])
    out.exhaustive = True
    return out



# ------------------------------------------------------------------ call sequences on one diagram object (second layer)

ENTRIES = ("render", "as", "html", "repr", "mimebundle", "save", "invalidate")
MIMES = ("image/svg+xml", "image/png")


def unjson(txt):
    import json

    try:
        return json.loads(txt)
    except Exception:  # noqa: BLE001
        return ["untagged-text", str(txt)[:60]]


def seq_call(D, w: "World", d, call: dict, tmp: pathlib.Path):
    """one call of a history on the real object; returns (canonical result, raw)"""
    import io
    import markupsafe

    e = call["entry"]
    params = {} if call.get("pe", True) else {"verif_param": 1}
    if e == "render":
        return tagof(d.render(call["fmt"], pretty_print=call.get("pretty", False), **params))
    if e == "as":
        return tagof(getattr(d, "as_" + call["fmt"]))
    if e == "html":
        h = d.__html__()
        pre, post = "<figure>", "<figcaption>" + str(markupsafe.escape(d.name)) + "</figcaption></figure>"
        if not (isinstance(h, markupsafe.Markup) and h.startswith(pre) and h.endswith(post)):
            return ["malformed-html", str(h)[:80]]
        return ["figure", unjson(str(h)[len(pre): len(h) - len(post)])]
    if e == "repr":
        D.REPR_DRAW = call.get("draw", False)
        r = repr(d)
        short = f"<Diagram {d.name!r}>"
        if r == short:
            return ["repr"]
        if r.startswith(short + "\n"):
            return ["repr", unjson(r[len(short) + 1:])]
        return ["malformed-repr", r[:80]]
    if e == "mimebundle":
        D.REPR_DRAW = call.get("draw", False)
        b = d._repr_mimebundle_(include=call.get("inc"), exclude=call.get("exc") or None)
        if b is None:
            return ["none"]
        if list(b) == ["text/plain"]:
            short = f"<Diagram {d.name!r}>"
            r = b["text/plain"]
            return ["bundle_text", ["repr"] if r == short else ["repr", unjson(r[len(short) + 1:])]]
        return ["bundle", [[m, tagof(v)] for m, v in b.items()]]
    if e == "save":
        fmt, kind = call["fmt"], call.get("target", "path")
        if not call.get("given", True):
            cwd = os.getcwd()
            os.chdir(tmp)
            try:
                before = set(os.listdir(tmp))
                d.save(None, fmt, pretty_print=call.get("pretty", False), **params)
                new = sorted(set(os.listdir(tmp)) - before)
            finally:
                os.chdir(cwd)
            if len(new) != 1:
                return ["written-files", new]
            data = (tmp / new[0]).read_bytes()
            (tmp / new[0]).unlink()
            return ["written", new[0], unjson(data.decode("utf-8"))]
        if kind == "fileobj":
            buf = io.BytesIO()
            d.save(buf, fmt, pretty_print=call.get("pretty", False), **params)
            data = buf.getvalue()
        else:
            target = tmp / "saved.out"
            if target.exists():
                target.unlink()
            d.save(str(target) if kind == "path" else target, fmt, pretty_print=call.get("pretty", False), **params)
            data = target.read_bytes()
        return ["written", None, unjson(data.decode("utf-8"))]
    if e == "invalidate":
        d.invalidate_cache()
        return ["done"]
    raise ValueError(e)


def leaf_of(t):
    while isinstance(t, list) and t and t[0] in ("convert", "call", "convert_pretty", "from_cache"):
        t = t[-1]
    return t


def values_of(res):
    """the converter terms inside a canonical result"""
    if not isinstance(res, list) or not res:
        return []
    if res[0] in ("figure",):
        return [res[1]]
    if res[0] == "repr":
        return res[1:]
    if res[0] == "bundle":
        return [v for _m, v in res[1]]
    if res[0] == "bundle_text":
        return res[1][1:]
    if res[0] == "written":
        return [res[2]]
    if res[0] in ("none", "done"):
        return []
    return [res]


def full_term(chain, base, pretty=False, D=None):
    """the complete conversion of `base` through `chain` (format first), brute force from the live objects"""
    import gen_formats

    ids = gen_formats.walk_objects()[3]
    t = base
    for cv in reversed(chain):
        cid = ids[id(cv)] if id(cv) in ids else getattr(cv, "__qualname__", "?")
        if pretty and isinstance(cv, D.PrettyDiagramFormat):
            t = ["convert_pretty", cid, t]
        elif isinstance(cv, D.DiagramFormat):
            t = ["convert", cid, t]
        else:
            t = ["call", cid, t]
    return t


def seq_format_of(call: dict):
    e = call["entry"]
    if e in ("render", "as", "save"):
        return call["fmt"]
    if e == "html":
        return "svg"
    if e == "repr" and call.get("draw"):
        return "termgraphics"
    return None


def judge_seq(out: Outcome, D, table, w: "World", d, hist: dict, k: int, call: dict, obs: dict):
    """the property on ONE call of a history, whatever happened before on this object (no model involved)"""
    def fail(cls: str, what: str):
        out.find(f"{call['entry']}|{cls}", f"{what} [call {k} of {[c['entry'] + ':' + str(c.get('fmt')) for c in hist['calls']]} way={hist['way']} "
                 f"files={call['files']} bad={call.get('bad')} fallback={hist['allow']}]", dict(hist, stream="seq", upto=k))

    uuid = d.uuid
    configured = w.model.diagram_cache is not None
    exts = {}
    for ch in table.values():
        for cv in ch:
            e_ = getattr(cv, "filename_extension", None)
            if e_ and hasattr(cv, "from_cache"):
                exts[e_] = cv
    opened = [e[1] for e in obs["trace"] if e[0] == "open"]
    for n in opened:
        if not configured:
            fail("opens-without-cache", f"opened {n!r} although no cache is configured")
        if not (n.startswith(uuid) and n[len(uuid):] in exts):
            fail("opens-foreign-file", f"opened {n!r}, not <uuid><ext> of diagram {uuid}")
    present, bad = set(call["files"]), dict(call.get("bad") or [])
    faults = hist.get("conv_faults") or []
    res = obs["result"]
    fresh_ran = ["fresh"] in obs["trace"]
    # (a) whatever comes out is a COMPLETE conversion of this diagram's own cache file, or of an internal rendering / error image
    ok_ = res.get("ok") if "ok" in res else None
    if isinstance(ok_, list) and ok_ and ok_[0] == "bundle":
        pairs = [(m_, v_) for m_, v_ in ok_[1]]
    else:
        pairs = [(None, v_) for v_ in values_of(ok_)]
    for mime_, v in pairs:
        leaf = leaf_of(v)
        if isinstance(leaf, list) and leaf and leaf[0] == "file":
            if not (str(leaf[1]).startswith(uuid) and str(leaf[1])[len(uuid):] in exts and leaf[1] in present):
                fail("reads-foreign-file", f"the value derives from {leaf[1]!r}, not a cached file of diagram {uuid}")
                continue
            src_cv = exts[str(leaf[1])[len(uuid):]]
            # a bundle item is the format registered for its MIME type (dict-assignment semantics: the last entry
            # point with that mimetype); the text/plain fallback is repr(): termgraphics
            fmts_ = [seq_format_of(call)] if call["entry"] != "mimebundle" else (
                ["termgraphics"] if res["ok"][0] == "bundle_text" else
                [[n_ for n_, ch_ in table.items() if getattr(ch_[0], "mimetype", None) == mime_][-1:] or [None]][0])
            f = fmts_[0]
            if f in table and src_cv in table[f]:
                want = full_term(table[f][: table[f].index(src_cv)], ["from_cache", name_id(src_cv), leaf], False, D)
                if v != want:
                    fail("partial-conversion", f"value {v} is not the complete conversion {want} of {leaf[1]}")
            else:
                fail("hit-wrong-format", f"value {v} for format {f}")
    f = seq_format_of(call)
    if not configured or f is None or f not in table:
        return
    if call["entry"] == "save" and not call.get("given", True) and not getattr(table[f][0], "filename_extension", None):
        if res != {"raise": "ValueError"} or obs["trace"]:
            fail("no-extension-not-refused", f"save(None, {f!r}) has no file name to generate, result {res}, trace {obs['trace']}")
        return
    # (b) the lookup is decided by the cache contents alone, whatever was rendered before on this object
    first = None
    for cv in table[f]:
        e_ = getattr(cv, "filename_extension", None)
        if e_ and hasattr(cv, "from_cache"):
            n = uuid + e_
            if n in bad:
                first = ("bad", cv, n, bad[n])
                break
            if n in present:
                first = ("hit", cv, n, None)
                break
    on_path = []
    if first and first[0] == "hit":
        cv = first[1]
        pre = table[f][: table[f].index(cv)]
        on_path = [("from_cache", name_id(cv))] + [("convert" if hasattr(c, "convert") else "call", name_id(c)) for c in reversed(pre)]
    broken = [x for x in faults if (x[0], x[1]) in on_path]
    raising = call["entry"] in ("render", "save")
    if first and first[0] == "hit" and not broken:
        if fresh_ran or obs["created"]:
            fail("fresh-on-hit", f"{first[2]} is cached but the internal renderer ran")
        vals = values_of(res.get("ok")) if "ok" in res else []
        writable = not (call["entry"] == "save" and not isinstance(table[f][0], type))
        if writable and (not vals or leaf_of(vals[0]) != ["file", first[2]]):
            fail("hit-not-served", f"{first[2]} is cached (nearest) but the result is {res}")
    elif first and first[0] == "hit" and broken and broken[0][2] != "KeyError":
        if raising and "ok" in res:
            fail("value-despite-converter-error", f"converter {broken[0]} raised on the hit path but a value came out: {res}")
        if fresh_ran:
            fail("fresh-after-converter-error", "a converter raised on the hit path and the internal renderer ran")
    elif first and first[0] == "bad" and first[3] != "KeyError":
        if raising and res != {"raise": "Injected:" + first[3]}:
            fail("handler-error-not-propagated", f"open({first[2]}) raised {first[3]}, result {res}")
        if fresh_ran:
            fail("fresh-after-handler-error", f"open({first[2]}) raised and the internal renderer ran")
    elif first is None and not hist["allow"]:
        if fresh_ran or obs["created"]:
            fail("fresh-without-fallback", "nothing cached, fallback off, but the internal renderer ran")
        if raising and res != {"raise": "NotInCache"}:
            fail("miss-no-error", f"nothing cached, fallback off, result {res}")
        if call["entry"] in ("as", "html") and ("ok" not in res or leaf_of(values_of(res["ok"])[0]) != ["error_image", "render", "NotInCache"]) \
                and not (hist.get("conv_faults") and "raise" in res and res["raise"].startswith("Injected")):
            fail("miss-no-error-image", f"nothing cached, fallback off: the 'not in cache' error image is expected, result {res}")
        if call["entry"] == "repr" and res != {"ok": ["repr"]}:
            fail("miss-no-error", f"nothing cached, fallback off, repr drew {res}")


def name_id(cv):
    import gen_formats

    return gen_formats.walk_objects()[3].get(id(cv), getattr(cv, "__qualname__", "?"))


def judge_bundle(out: Outcome, D, table, w: "World", d, hist: dict, k: int, call: dict, obs: dict):
    """`_repr_mimebundle_`: the C19 statement per selected MIME type"""
    def fail(cls: str, what: str):
        out.find(f"mimebundle|{cls}", f"{what} [call {k}, way={hist['way']} files={call['files']} include={call.get('inc')} "
                 f"fallback={hist['allow']}]", dict(hist, stream="seq", upto=k))

    if w.model.diagram_cache is None or "ok" not in obs["result"] or call.get("bad") or hist.get("conv_faults"):
        return
    uuid, present = d.uuid, set(call["files"])
    inc, exc = call.get("inc"), call.get("exc") or []
    selected = {}
    for n, ch in table.items():
        m = getattr(ch[0], "mimetype", None)
        if m and (inc is None or m in inc) and m not in exc:
            selected[m] = ch
    res = obs["result"]["ok"]
    got = dict((m, v) for m, v in res[1]) if res[0] == "bundle" else {}
    # per selected MIME type: the nearest cached ancestor of that format's WHOLE depends chain (brute force)
    served = {}
    for m, ch in selected.items():
        for idx, cv in enumerate(ch):
            e_ = getattr(cv, "filename_extension", None)
            if e_ and hasattr(cv, "from_cache") and (uuid + e_) in present:
                served[m] = full_term(ch[:idx], ["from_cache", name_id(cv), ["file", uuid + e_]], False, D)
                break
    for m, want in served.items():
        if got.get(m) != want:
            own_ext = getattr(selected[m][0], "filename_extension", None)
            cls = "hit-not-served" if own_ext and (uuid + own_ext) in present else "ancestor-not-used"
            fail(cls, f"bundle[{m}] = {got.get(m)}, expected the conversion {want} of the nearest cached file")
    fresh_ran = ["fresh"] in obs["trace"]
    if served or not selected:
        if fresh_ran:
            fail("fresh-on-hit" if any(getattr(selected[m][0], "filename_extension", None) and
                                       (uuid + selected[m][0].filename_extension) in present for m in served)
                 else "ancestor-not-used", "a selected format can be served from the cache but the internal renderer ran")
        for m in got:
            if m not in served:
                fail("item-not-from-cache", f"bundle[{m}] = {got[m]} although other selected formats were served from the cache")
        return
    if not hist["allow"]:
        if fresh_ran or obs["created"]:
            fail("fresh-without-fallback", "no selected format is cached, fallback off, but the diagram was rendered internally")
        for m, v in got.items():
            if leaf_of(v) != ["error_image", "render", "NotInCache"]:
                fail("miss-no-error-image", f"nothing cached, fallback off: bundle[{m}] = {v}, the 'not in cache' error image is expected")
        if res[0] not in ("bundle", "bundle_text"):
            fail("miss-no-error-image", f"nothing cached, fallback off: result {res}")


def gen_histories(ctx: Ctx, fmts: list[str], uuid: str, others: list[str], way: str, n_random: int):
    """systematic two-step histories (every way of filling the in-memory state, then every entry point) + random ones"""
    rng = ctx.rng
    u = universe(uuid, others, False)
    own = [uuid + ".svg", uuid + ".png"]
    kinds = ["KeyError", "UnknownOutputFormat", "Other"]
    ops_ids = None

    def entry_calls(files, bad=None):
        cs = [{"entry": "render", "fmt": f, "pretty": False} for f in ["svg", "png", "termgraphics", "html_img", "svgdiagram"]]
        cs += [{"entry": "as", "fmt": "svg"}, {"entry": "as", "fmt": "png"}, {"entry": "html"}, {"entry": "repr", "draw": True}, {"entry": "repr", "draw": False},
               {"entry": "mimebundle", "inc": None}, {"entry": "mimebundle", "inc": ["image/png"]}, {"entry": "mimebundle", "inc": ["image/svg+xml"], "draw": True},
               {"entry": "mimebundle", "inc": None, "exc": ["image/png", "image/svg+xml"]}, {"entry": "mimebundle", "inc": ["text/html"]}]
        cs += [{"entry": "save", "fmt": f, "given": g, "target": t_} for f in fmts for g, t_ in ((True, "path"), (True, "fileobj"), (True, "pathlib"), (False, None))]
        return [dict(c, files=list(files), bad=list(bad or [])) for c in cs]

    fills = [[], [{"entry": "render", "fmt": None, "files": [], "bad": []}],
             [{"entry": "render", "fmt": None, "files": [], "bad": [], "create_ok": False}],
             [{"entry": "render", "fmt": "svg", "files": [], "bad": []}],     # a fallback render (if enabled) fills the state too
             [{"entry": "mimebundle", "inc": None, "files": [], "bad": []}],
             [{"entry": "render", "fmt": None, "files": [], "bad": [], "pe": False}, {"entry": "invalidate", "files": [], "bad": []}]]
    file_sets = [[], [own[0]], [own[1]], own + [o + ".svg" for o in others[:1]]]
    for fill in fills:
        for files in file_sets:
            for c in entry_calls(files):
                if fill and c["entry"] == "save" and c.get("target") in ("fileobj", "pathlib"):
                    continue
                yield {"calls": [dict(x) for x in fill] + [c], "conv_faults": []}
    # faults at a particular point: every (op, converter) x kind on a hit path; every own name raising x kind
    import gen_formats
    live = gen_formats.collect()
    points = [("from_cache", r["id"]) for r in live["convs"] if r["fromCache"]] + \
             [("convert" if r["hasConvert"] else "call", r["id"]) for r in live["convs"]]
    for (op, cid), kind in itertools.product(points, kinds):
        for files in ([own[0]], own):
            for c in [{"entry": "render", "fmt": f} for f in fmts] + [{"entry": "as", "fmt": "png"}, {"entry": "html"}, {"entry": "repr", "draw": True},
                                                                          {"entry": "mimebundle", "inc": None}, {"entry": "save", "fmt": "png", "given": True, "target": "fileobj"}]:
                if rng.random() < (1.0 if ctx.thorough else 0.35):
                    yield {"calls": [dict(c, files=list(files), bad=[])], "conv_faults": [[op, cid, kind]]}
    for name, kind in itertools.product(own, kinds):
        for files in ([], [own[0]], own):
            for c in [{"entry": "render", "fmt": f} for f in ("svg", "png", "html_img", "termgraphics")] + \
                     [{"entry": "as", "fmt": "png"}, {"entry": "html"}, {"entry": "repr", "draw": True}, {"entry": "mimebundle", "inc": None},
                      {"entry": "save", "fmt": "svg", "given": True, "target": "path"}]:
                yield {"calls": [dict(c, files=list(files), bad=[[name, kind]])], "conv_faults": []}
    if way == "path-str":  # the real thing: a DIRECTORY called <uuid>.svg / <uuid>.png in the cache
        for name in own:
            for f in ("svg", "png", "html_img"):
                yield {"calls": [{"entry": "render", "fmt": f, "files": [], "bad": [[name, "Other"]], "real_dir": True},
                                 {"entry": "as", "fmt": f, "files": [own[1]] if name == own[0] else [], "bad": [[name, "Other"]], "real_dir": True}], "conv_faults": []}
    for _ in range(n_random):
        calls = []
        for _k in range(rng.randint(2, 6)):
            e = rng.choice(ENTRIES)
            c = {"entry": e, "files": sorted(n for n in u if rng.random() < 0.4), "bad": [], "create_ok": rng.random() < 0.8}
            if rng.random() < 0.15:
                c["bad"] = [[rng.choice(own), rng.choice(kinds)]]
            if e in ("render", "as", "save"):
                c["fmt"] = rng.choice(fmts + (["bogus"] if e != "as" else []) + ([None] if e == "render" else []))
            if e in ("render", "save"):
                c["pretty"], c["pe"] = rng.random() < 0.3, rng.random() < 0.75
            if e == "save":
                c["given"] = rng.random() < 0.7
                c["target"] = rng.choice(["path", "fileobj", "pathlib"])
            if e in ("repr", "mimebundle"):
                c["draw"] = rng.random() < 0.5
            if e == "mimebundle":
                c["inc"] = rng.choice([None, ["image/png"], ["image/svg+xml"], ["image/png", "image/svg+xml"], ["text/html"]])
                c["exc"] = rng.choice([[], [], ["image/png"]])
            calls.append(c)
        cf = []
        if rng.random() < 0.3:
            op, cid = rng.choice(points)
            cf = [[op, cid, rng.choice(kinds)]]
        yield {"calls": calls, "conv_faults": cf}


def run_history(D, w: "World", d, hist: dict, tmp: pathlib.Path, upto: int | None = None):
    """replay one history on the real object (state reset first); returns the list of observations"""
    STATE["conv_faults"] = {(op, cid): kind for op, cid, kind in hist.get("conv_faults") or []}
    d.invalidate_cache()
    obs_all = []
    saved_draw = vars(D).get("REPR_DRAW", _MISSING)
    made_dirs: list[pathlib.Path] = []
    try:
        for k, call in enumerate(hist["calls"] if upto is None else hist["calls"][: upto + 1]):
            w.set_files({n: content_for(n, "tag") for n in call["files"]}, (), "tag")
            d2 = next(x for x in w.model.diagrams if x.uuid == d.uuid)
            assert d2 is d, "diagram proxy identity lost between calls"
            if call.get("real_dir"):
                STATE["open_faults"] = {}
                for n, _kind in call["bad"]:
                    p = w.cdir / n
                    if p.is_file():
                        p.unlink()
                    p.mkdir(exist_ok=True)
                    made_dirs.append(p)
            else:
                STATE["open_faults"] = {n: kind for n, kind in call.get("bad") or []}
            STATE["fail_fresh"] = not call.get("create_ok", True)
            STATE["created"] = 0
            REC.events = []
            REC.enabled = True
            try:
                res = {"ok": seq_call(D, w, d, call, tmp)}
            except Exception as e:  # noqa: BLE001
                res = {"raise": errname(e, D)}
                e.__traceback__ = None
            finally:
                REC.enabled = False
            for p in made_dirs:
                if p.is_dir():
                    p.rmdir()
            made_dirs.clear()
            state = "failed" if hasattr(d, "_error") else ("rendered" if hasattr(d, "_render") else "empty")
            obs_all.append({"trace": list(REC.events), "result": res, "state": state, "created": STATE["created"] > 0})
    finally:
        STATE["conv_faults"], STATE["open_faults"], STATE["fail_fresh"] = {}, {}, False
        if saved_draw is _MISSING:
            D.__dict__.pop("REPR_DRAW", None)
        else:
            D.REPR_DRAW = saved_draw
        d.invalidate_cache()
    return obs_all


def seq_request(hist: dict, d) -> dict:
    calls = []
    for c in hist["calls"]:
        calls.append({k: v for k, v in c.items() if k not in ("target", "real_dir")} | {"files": sorted(c["files"])})
    return {"op": "cache.seq", "uuid": d.uuid, "name": d.name, "spec": SPEC_KIND[hist["way"]], "allow": hist["allow"],
            "conv_faults": hist.get("conv_faults") or [], "calls": calls}


def run_seq(ctx: Ctx, out: Outcome, D, lib: pathlib.Path, fmts: list[str], requests: dict, pending: list, count):
    P = install("tag")
    tmp = ctx.scratch / "seq-tmp"
    tmp.mkdir(exist_ok=True)
    try:
        table = live_table(D)
        for way in ("path-str", "handler-memory", "falsy-none"):
            for allow in (False, True):
                w = World(ctx, lib, way, allow, None, tag="seq")
                w.set_files({})
                dgs = list(w.model.diagrams)
                d = dgs[0]
                others = [x.uuid for x in dgs if x.uuid != d.uuid]
                for hist in gen_histories(ctx, fmts, d.uuid, others, way, ctx.pick(60, 400) if way != "falsy-none" else ctx.pick(15, 60)):
                    hist = dict(hist, way=way, allow=allow, uuid=d.uuid, model="lib")
                    obs_all = run_history(D, w, d, hist, tmp)
                    for k, (call, obs) in enumerate(zip(hist["calls"], obs_all)):
                        judge_seq(out, D, table, w, d, hist, k, call, obs)
                        if call["entry"] == "mimebundle":
                            judge_bundle(out, D, table, w, d, hist, k, call, obs)
                        count(f"seq.entry:{call['entry']}")
                        count("seq.state-before:" + (obs_all[k - 1]["state"] if k else "empty"))
                        if call.get("bad"):
                            count("seq.open-fault:" + call["bad"][0][1] + (":real-directory" if call.get("real_dir") else ""))
                        out.hit("seq.impl:" + call["entry"] + ":" + ("raise:" + obs["result"]["raise"] if "raise" in obs["result"] else
                                                                  ("hit" if any(e[0] == "from_cache" for e in obs["trace"]) else
                                                                   ("fresh" if ["fresh"] in obs["trace"] else "other"))))
                    for x in hist.get("conv_faults") or []:
                        count(f"seq.conv-fault:{x[0]}:{x[2]}")
                    count(f"seq.len:{len(hist['calls'])}")
                    nontriv = SPEC_KIND[way] != "falsy"
                    out.case(common.sha(hist), None, nontriv)
                    out.traces_validated += len(obs_all)
                    req = seq_request(hist, d)
                    key = common.sha(req)
                    requests.setdefault(key, req)
                    pending.append((key, {"stream": "seq", **hist}, obs_all))
                w.model = None
                shutil.rmtree(w.base, ignore_errors=True)
    finally:
        P.restore()
        shutil.rmtree(tmp, ignore_errors=True)

# ------------------------------------------------------------------ single-case replay


def replay_seq(ctx: Ctx, case: dict) -> str | None:
    D = _imports()
    import logging

    logging.disable(logging.CRITICAL)
    out = Outcome()
    P = install("tag")
    tmp = ctx.scratch / "seq-tmp"
    tmp.mkdir(exist_ok=True)
    try:
        table = live_table(D)
        w = World(ctx, common.REPO / "tests" / "data" / "Library Test", case["way"], case["allow"], None, tag="replay-seq")
        w.set_files({})
        d = next(x for x in w.model.diagrams if x.uuid == case["uuid"])
        hist = {k: v for k, v in case.items() if k not in ("stream", "upto")}
        obs_all = run_history(D, w, d, hist, tmp, case.get("upto"))
        try:
            m = common.model([seq_request(hist, d)], driver="Cache")[0].get("ok")
        except Exception as e:  # noqa: BLE001
            m = None
            print(f"  (model not available: {e})")
        print(f"replay (history on one diagram object): way={case['way']} fallback={case['allow']} converter faults={case.get('conv_faults')}")
        for k, (call, obs) in enumerate(zip(hist["calls"], obs_all)):
            print(f"  call {k}: {call}")
            print(f"    implementation: trace={obs['trace']} result={obs['result']} state={obs['state']} rendered-internally={obs['created']}")
            if m:
                print(f"    model:          trace={m[k]['trace']} result={m[k]['result']} state={m[k]['state']} rendered-internally={m[k]['created']}")
                if m[k] != obs:
                    out.find("seq|model-differs", f"call {k}: implementation {obs} / model {m[k]}", case)
            judge_seq(out, D, table, w, d, hist, k, call, obs)
            if call["entry"] == "mimebundle":
                judge_bundle(out, D, table, w, d, hist, k, call, obs)
    finally:
        P.restore()
        shutil.rmtree(tmp, ignore_errors=True)
    if out.findings:
        return "; ".join(f"{f.signature}: {f.what}" for f in out.findings)
    return None


def replay(ctx: Ctx, case: dict) -> str | None:
    os.environ.setdefault("XDG_CACHE_HOME", str(ctx.scratch / "xdg"))
    if case.get("stream") == "seq":
        return replay_seq(ctx, case)
    D = _imports()
    data = common.REPO / "tests" / "data"
    srcs = {"lib": (data / "Library Test", None),
            "adv": (data / "Library Test", adversarial_uuids(__import__("gen_formats").collect()))}
    for k, rw in enumerate(pathlike_uuids(True)):
        srcs[f"pathlike{k}"] = (data / "Library Test", rw)
    src, rewrite = srcs.get(case["model"], (data / "melodymodel" / case["model"], None))
    out = Outcome()
    P = install(case["mode"])
    try:
        table = live_table(D)
        w = World(ctx, src, case["way"], case["allow"], rewrite, tag="replay")
        w.set_files({})
        d = next(x for x in w.model.diagrams if x.uuid == case["uuid"])
        others = [x.uuid for x in w.model.diagrams if x.uuid != d.uuid]
        w.set_files({n: content_for(n, case["mode"]) for n in case["files"]}, tuple(universe(d.uuid, others, False)), case["mode"])
        d = next(x for x in w.model.diagrams if x.uuid == case["uuid"])
        nocache = World(ctx, src, "falsy-none", False, rewrite, tag="replay-base")
        nocache.set_files({})
        bd = next(x for x in nocache.model.diagrams if x.uuid == d.uuid)
        STATE["fail_fresh"] = not case["fresh_ok"]
        d.invalidate_cache()
        obs = observe(D, d, case)

        def baseline(c):
            bd.invalidate_cache()
            return observe(D, bd, c)

        judge(out, D, table, w, d, others, case, obs, baseline)
        print(f"replay: way={case['way']} files={case['files']} fmt={case['fmt']} via={case['via']} fallback={case['allow']}")
        print(f"  implementation trace:  {obs['trace']}")
        print(f"  implementation result: {obs['result']}")
        try:
            m = common.model([model_request(case, d.uuid)], driver="Cache")[0].get("ok")
            print(f"  model trace:           {m['trace']}")
            print(f"  model result:          {m['result']}")
        except Exception as e:  # noqa: BLE001
            print(f"  (model not available: {e})")
    finally:
        P.restore()
        STATE["fail_fresh"] = False
    if out.findings:
        return "; ".join(f"{f.signature}: {f.what}" for f in out.findings)
    return None
