"""C02 — a saved model reloads to exactly what was in memory.

Monitor (independent of the model): random edit histories through the public API (create / delete / move /
attribute-set (also on diagrams, which live in the .aird) / reference-set / specification-set, strings over the XML-legal alphabet, types that need a namespace
the file did not declare: requirements, property values) on scratch copies of corpus models; at random points
`model.save()`, reload with a fresh `MelodyModel`, compare every fragment's lxml tree element by element with the
tree that was in memory (same elements in the same order, same attributes, text and namespaces) and a set of API
queries (name / summary / description / specification bodies by UUID) before and after. The same histories run on
FRAGMENTED layouts (harness/fragmenter.py; one cut leaves a placeholder that is the only user of its namespace in the
parent file). Every file a save wrote is also read as BYTES by a tag tokenizer with a namespace scope stack (no lxml):
every prefix of an element name, attribute name or xsi:type / xmi:type value has to be declared in scope.

Correspondence: at every save point each written fragment is exported; Lean `writeXml` must give the written bytes,
Lean `parse` of the bytes must be lxml's reloaded tree, and the statement of `save_reload` (`wfDoc d → parse (writeXml
k d) = canonDoc d`, `canonDoc d` information-equal to `d`) is evaluated on the in-memory document; `wfDoc` is compared
with the harness' reading of "Capella-shaped". Tree edits (`setAttr`, `setText`, `insertKid`, `removeKid`) of the
model are compared with the same edits done with lxml.
"""

from __future__ import annotations

import json
import logging
import os
import pathlib
import shutil
import sys

import common
from common import Ctx, Outcome

import props.c01 as c01
import props.xml_edits as xml_edits
import props.xml_ns as xml_ns

sys.path.insert(0, str(pathlib.Path(__file__).resolve().parent.parent))
import fragmenter  # noqa: E402  (independent writer of Capella-style fragmented layouts, shared with C05 / C06)

DRIVERS = ["Xml"]
TABLES = True
LEVEL = "proof"
RULE = ("edit histories of 5..40 API operations (set name/summary/description, create component / function / port / "
        "constraint / state machine / property value (group) / requirement module / requirement / relation, delete, move "
        "into another parent, allocate / deallocate, bool and enum attributes, specification bodies, diagram name / "
        "description) on scratch copies "
        "of corpus models [quick: writemodel + one history on the 5.0 test model; thorough: also 5.2/6.0, library, pvmt] and on "
        "FRAGMENTED scratch copies of them written by harness/fragmenter.py (one cut chosen so that its type prefix occurs "
        "only on the placeholder left in the parent file - typically a whole architecture layer -, 0-2 further cuts), "
        "strings over an alphabet of every escapable character, TAB LF CR, ]]>, white-space-only strings, U+0085/A0/2028, "
        "astral code points and random XML-legal code points; directed: every boundary string in a specification body, "
        "one attribute of 10.5 M characters, 300 nested functions; a save + fresh reload after each operation with "
        "probability 1/4 and at the end (up to 6 save-edit rounds per history). distinct = distinct (model, seed, history "
        "index, save index); non-trivial = at least one operation succeeded since the previous save")
ASSUMPTIONS = [
    "lxml trees are compared after save() (update_namespaces, which save() performs, is part of saving)",
    "'' and None text are the same XML information; attribute order and namespace declaration order are not information",
    "API calls that raise are refusals (counted), not edits",
]
TRUSTED = ["C02: the tree comparison and the query snapshot in harness/props/c02.py (independent of the Lean model)"]
MANIFEST = dict(
    text=("Lean theorems on top of the C01 writer/reader models: for every Capella-shaped in-memory document and every "
          "fragment kind, parsing what write_xml wrote gives the document back up to attribute / declaration order "
          "(save_reload, from parse_ser), the result is information-equal to what was in memory, and the tree edits the "
          "object layer performs (set/delete attribute with any XML-legal string, set text, insert / remove / move child "
          "with declared names) preserve Capella-shapedness, hence the same holds after any finite edit history with saves "
          "interleaved (history_save_reload). Tied to /repo by exporting the in-memory trees at every save of random API "
          "edit histories (model bytes = written bytes, model parse = lxml reload). An independent monitor compares the "
          "trees and API query answers before save and after a fresh reload."),
    design_ref="§6 C02",
    note=("Trusted: Lean kernel; lxml as parser oracle; the object layer (descriptors) is exercised through the public "
          "API, not modelled here - its tree effect is observed at every save. update_namespaces is modelled "
          "(Model/XmlNsUpdate.lean: declared = asked for by some element, fragment placeholders included) and tied at every "
          "save, also on fragmented layouts. Mixed content and comments inside elements are outside the theorem's domain."),
    technique="Lean 4 proof (corollaries of the parse/serialize round trip + preservation lemmas for tree edits) + API-level edit-history monitor with fresh reload",
)

STR_ALPHA = c01.ALPHA + [" ", "   ", "\n", "\t", "\xa0", "\u3000", "", "x", "Name", "a b", "\xfc", "\u0416", "\u4e2d", "\ufffd"]


def rand_str(rng) -> str:
    k = rng.random()
    if k < 0.12:
        return rng.choice(["", " ", "  ", "\n", "\t", "\xa0", "\u2028", "\x85", " \n ", "\u3000"])
    if k < 0.6:
        return "".join(rng.choice(STR_ALPHA) for _ in range(rng.randint(1, 6)))
    out = []
    for _ in range(rng.randint(1, 10)):
        r = rng.random()
        if r < 0.5:
            out.append(chr(rng.randint(0x20, 0x7E)))
        elif r < 0.8:
            out.append(chr(rng.choice([rng.randint(0x80, 0xD7FF), rng.randint(0xE000, 0xFFFD)])))
        else:
            out.append(chr(rng.randint(0x10000, 0x10FFFF)))
    return "".join(out)


def setup():
    if str(common.REPO) not in sys.path:
        sys.path.insert(0, str(common.REPO))
    import capellambse

    logging.getLogger("capellambse").setLevel(logging.CRITICAL)
    return capellambse


# ------------------------------------------------------------------ observation (independent of the model)


def frag_roots(model) -> dict:
    out = {}
    for fname, frag in model._loader.trees.items():
        if fname.parts[0] != "\0":
            continue
        out[str(pathlib.PurePosixPath(*fname.parts[1:]))] = frag.root
    return out


def canon(e, nodecl: bool | None = None):
    if not isinstance(e.tag, str):
        return ("#" + getattr(e.tag, "__name__", "node"), e.text, None, None, [], {})
    if nodecl is None:
        nodecl = c01.no_child_decls(e)  # once per tree; see there
    if nodecl and e.getparent() is not None:
        own = {}
    else:
        own = {k: v for k, v in e.nsmap.items() if e.getparent() is None or e.getparent().nsmap.get(k) != v}
    # white space between child elements is layout, not information (libxml2 keeps indentation runs longer than 300
    # characters - nesting deeper than ~148 - as text even with remove_blank_text; the writer ignores them again)
    text = e.text or None
    if text is not None and len(e) and not text.strip(" \t\r\n"):
        text = None
    tail = e.tail or None
    if tail is not None and not tail.strip(" \t\r\n"):
        tail = None
    return (e.tag, dict(e.attrib), text, tail, [canon(c, nodecl) for c in e], own)


def diff(a, b, path=""):
    """first difference between two canon() trees: (class, description) or None"""
    here = f"{path}/{a[0].split('}')[-1] if isinstance(a[0], str) else a[0]}"
    if a[0] != b[0]:
        return "tag", f"{here}: tag {a[0]!r} vs {b[0]!r}"
    if a[5] != b[5]:
        return "namespaces", f"{here}: declared namespaces {a[5]} vs {b[5]}"
    if a[1] != b[1]:
        ks = [k for k in sorted(set(a[1]) | set(b[1])) if a[1].get(k) != b[1].get(k)]
        return "attribute", f"{here}: attributes differ: " + "; ".join(f"{k}: {a[1].get(k)!r} -> {b[1].get(k)!r}" for k in ks[:3])
    if a[2] != b[2]:
        cls = "text-whitespace-only" if (a[2] or "").strip() == "" and (b[2] or "").strip() == "" else "text"
        return cls, f"{here}: text {a[2]!r} -> {b[2]!r}"
    if a[3] != b[3]:
        return "tail", f"{here}: tail {a[3]!r} -> {b[3]!r}"
    if len(a[4]) != len(b[4]):
        return "children", f"{here}: {len(a[4])} -> {len(b[4])} children"
    for i, (x, y) in enumerate(zip(a[4], b[4])):
        d = diff(x, y, f"{here}[{i}]")
        if d:
            return d
    return None


REL_STATS: dict = {}


def relations_of(o) -> dict:
    """every relation descriptor of the object's class (all `Accessor`s that are not plain attributes), answered through
    the public API and canonicalised: a list of UUIDs (order kept), one UUID, None; an exception is recorded by class"""
    from capellambse.model import _descriptors as D
    from capellambse.model import _obj as O

    out = {}
    cls = type(o)
    for attr in sorted(dir(cls)):
        if attr.startswith("_") or attr in ("parent", "diagrams", "visible_on_diagrams", "xtype", "progress_status", "pvmt"):
            continue
        try:
            acc = getattr(cls, attr)
        except Exception:  # noqa: BLE001
            continue
        if not isinstance(acc, D.Accessor) or type(acc).__name__ in ("BasePOD",) or hasattr(acc, "attribute") and not hasattr(acc, "aslist"):
            continue
        kind = type(acc).__name__
        try:
            v = getattr(o, attr)
        except Exception as e:  # noqa: BLE001
            out[attr] = {"raises": type(e).__name__}
            REL_STATS[kind + ":raises"] = REL_STATS.get(kind + ":raises", 0) + 1
            continue
        if isinstance(v, O.ElementList):
            try:
                out[attr] = [getattr(x, "uuid", None) or type(x).__name__ for x in v]
            except Exception as e:  # noqa: BLE001
                out[attr] = {"raises": type(e).__name__}
        elif isinstance(v, O.ModelElement):
            try:
                out[attr] = v.uuid
            except Exception:  # noqa: BLE001
                out[attr] = type(v).__name__
        elif v is None:
            out[attr] = None
        else:
            continue
        REL_STATS[kind] = REL_STATS.get(kind, 0) + 1
    return out


def queries(model, uuids: list | None = None, touched: set | None = None, limit: int = 400, rel_for: list | None = None) -> dict:
    """answers of a set of API queries, keyed by UUID. Without `uuids` (the in-memory side) the objects are chosen:
    all of them for small models, else every owner of a specification, everything the history touched and an evenly
    spread sample; with `uuids` (the reloaded side) exactly those are looked up again with `by_uuid`."""
    out = {}
    if uuids is None:
        objs = list(model.search())
        if len(objs) > limit:
            step = len(objs) // limit + 1
            spec_owners = {id(e.getparent()) for e in model._loader.iterall("ownedSpecification")}
            objs = [o for i, o in enumerate(objs) if i % step == 0 or id(o._element) in spec_owners
                    or (touched and getattr(o, "uuid", None) in touched)]
    else:
        objs = []
        dg_ids = set()
        try:
            dg_ids = {dg.uuid for dg in model.diagrams}
        except Exception:  # noqa: BLE001
            pass
        for u in uuids:
            if u in dg_ids:
                continue
            try:
                objs.append(model.by_uuid(u))
            except KeyError:
                out[u] = {"missing": True}
    try:
        dgs = list(model.diagrams)
    except Exception:  # noqa: BLE001
        dgs = []
    for dg in dgs:
        if uuids is not None and dg.uuid not in uuids:
            continue
        rec = {"type": "Diagram"}
        for attr in ("name", "description"):
            try:
                v = getattr(dg, attr)
                rec[attr] = str(v) if v is not None else None
            except Exception:  # noqa: BLE001
                pass
        out[dg.uuid] = rec
    for o in objs:
        try:
            u = o.uuid
        except Exception:  # noqa: BLE001
            continue
        if u in out:
            continue
        rec = {"type": type(o).__name__}
        for attr in ("name", "summary", "description", "long_name", "value"):
            try:
                v = getattr(o, attr)
            except Exception:  # noqa: BLE001
                continue
            if isinstance(v, (str, bool, int, float)) or v is None:
                rec[attr] = str(v) if v is not None else None
        try:
            spec = o.specification
            rec["spec"] = {k: spec[k] for k in spec}
        except Exception:  # noqa: BLE001
            pass
        if rel_for is not None and u in rel_for:
            rec["relations"] = relations_of(o)
        out[u] = rec
    return out


def shaped_up_to_empty(doc: dict) -> bool:
    """Capella-shaped when every `""` text is read as some text (the harness' reading of the Lean predicate `wfDocE`)"""
    def fill(e):
        return [e[0], e[1], e[2], "x" if e[3] == "" else e[3], e[4], [fill(k) for k in e[5]]]
    return c01.capella_shaped({"pre": doc["pre"], "root": fill(doc["root"]), "post": doc["post"]})


def expected_uri(plugin, viewpoints: dict) -> str | None:
    """the namespace URI a plugin must be declared with (own reading of Plugin / version_precision): the plugin name,
    for versioned plugins followed by the activated viewpoint version with all but the first `version_precision`
    parts zeroed"""
    uri = plugin.name.rstrip("/")
    if plugin.version is None:
        return uri
    v = viewpoints.get(plugin.viewpoint)
    if not v:
        return None
    parts = v.split(".")
    parts = parts[: plugin.version_precision] + ["0"] * (len(parts) - plugin.version_precision)
    return uri + "/" + ".".join(parts)


def check_type_namespaces(model, path: pathlib.Path, out: Outcome, replay: dict, label: str) -> None:
    """Every written semantic fragment, parsed from its bytes: each prefix used by an xsi:type / xmi:type value must be
    declared in scope, and for a known plugin with the URI the activated viewpoint version demands."""
    etree, exs, core = c01.impl()
    import capellambse._namespaces as _n

    vps = dict(model._loader.referenced_viewpoints())
    for name in frag_roots(model):
        if pathlib.PurePosixPath(name).suffix not in core.SEMANTIC_EXTS:
            continue
        root = etree.parse(str(path.parent / name), etree.XMLParser(huge_tree=True)).getroot()
        for e in root.iter():
            if not isinstance(e.tag, str):
                continue
            for att in ("{%s}type" % c01.XSI, "{%s}type" % c01.XMI):
                xt = e.get(att)
                if not xt or ":" not in xt:
                    continue
                p = xt.split(":")[0]
                if p not in e.nsmap:
                    out.find("MelodyModel.save|type-prefix-undeclared",
                             f"{label}: {name} uses xsi:type {xt!r} but declares no namespace {p!r} (Capella cannot load this)",
                             {**replay, "observed": "undeclared:" + p})
                    return
                plugin = _n.NAMESPACES_PLUGINS.get(p)
                want = expected_uri(plugin, vps) if plugin is not None else None
                if want is not None and e.nsmap[p] != want:
                    out.find("MelodyModel.save|namespace-uri-mismatch",
                             f"{label}: {name} declares {p!r} as {e.nsmap[p]!r}, the activated viewpoint demands {want!r}",
                             {**replay, "observed": "uri:" + p})
                    return
    out.hit("type-namespaces-checked")


# ------------------------------------------------------------------ namespace well-formedness of the written BYTES

import re  # noqa: E402

_NAME = r"[^\s<>/=\"']+"
_TOKEN = re.compile(
    r"<!--.*?-->|<\?.*?\?>|<!\[CDATA\[.*?\]\]>|<!DOCTYPE[^>]*>"
    r"|<(?P<close>/)?(?P<name>" + _NAME + r")(?P<attrs>(?:\s+" + _NAME + r"\s*=\s*(?:\"[^\"]*\"|'[^']*'))*)\s*(?P<empty>/)?>",
    re.S)
_ATTR = re.compile(r"(" + _NAME + r")\s*=\s*(?:\"([^\"]*)\"|'([^']*)')", re.S)
_QNAME_VALUE = re.compile(r"[A-Za-z_][\w.\-]*:[\w.\-]+\Z")


def raw_namespace_problems(data: bytes, limit: int = 5) -> list[tuple[str, str]]:
    """Namespace well-formedness of a written file, read off its bytes with a tag tokenizer and a scope stack (no lxml, no
    capellambse): every prefix used in an element name, in an attribute name or in the VALUE of an xsi:type / xmi:type
    attribute must be bound by an `xmlns:prefix` declaration on the element itself or on an ancestor ("Namespaces in
    XML" §3 for names; the QName-valued type attributes are resolved by EMF / Capella against the same scope).
    Returns [(class, description)], class in element-prefix / attribute-prefix / type-prefix / unbalanced."""
    text = data.decode("utf-8")
    scope: list[dict] = [{"xml": "http://www.w3.org/XML/1998/namespace"}]
    problems: list[tuple[str, str]] = []
    for mt in _TOKEN.finditer(text):
        name = mt.group("name")
        if name is None:
            continue
        if mt.group("close"):
            if len(scope) > 1:
                scope.pop()
            else:
                problems.append(("unbalanced", f"</{name}> without an open element"))
            continue
        attrs = [(a.group(1), a.group(2) if a.group(2) is not None else a.group(3)) for a in _ATTR.finditer(mt.group("attrs") or "")]
        here = dict(scope[-1])
        for k, v in attrs:
            if k.startswith("xmlns:"):
                here[k[6:]] = v
        if ":" in name and name.split(":", 1)[0] not in here:
            problems.append(("element-prefix", f"<{name}>: prefix {name.split(':', 1)[0]!r} is not declared in scope"))
        for k, v in attrs:
            if k == "xmlns" or k.startswith("xmlns:") or ":" not in k:
                continue
            pfx, local = k.split(":", 1)
            if pfx not in here:
                problems.append(("attribute-prefix", f"<{name} {k}=...>: prefix {pfx!r} is not declared in scope"))
                continue
            if local == "type" and here[pfx] in (c01.XSI, c01.XMI) and _QNAME_VALUE.match(v):
                if v.split(":", 1)[0] not in here:
                    problems.append(("type-prefix", f"<{name} {k}={v!r}>: prefix {v.split(':', 1)[0]!r} is not declared in scope"))
        if not mt.group("empty"):
            scope.append(here)
        if len(problems) >= limit:
            break
    return problems


def check_written_bytes(out: Outcome, folder: pathlib.Path, names, label: str, replay: dict, seen: dict, thorough: bool) -> None:
    """the byte-level namespace oracle on every file save() wrote (semantic, visual, metadata); an unchanged big file is
    scanned once"""
    for name in names:
        p = folder / name
        try:
            data = p.read_bytes()
        except OSError:
            continue
        key = (len(data), hash(data))
        if seen.get(name) == key:
            continue
        seen[name] = key
        for cls, what in raw_namespace_problems(data)[:1]:
            out.find(f"MelodyModel.save|written-bytes|{cls}-undeclared" if cls != "unbalanced" else "MelodyModel.save|written-bytes|unbalanced",
                     f"{label}: {name} as written by save() is not namespace-well-formed: {what} "
                     "(a strict XML-namespace reader / Capella cannot load this)",
                     {**replay, "observed": "bytes:" + cls + ":" + name})
        out.traces_validated += 1
        out.hit("written-bytes-namespaces-checked" + ("" if pathlib.PurePosixPath(name).suffix not in (".capellafragment", ".melodyfragment") else ":fragment-file"))


# ------------------------------------------------------------------ fragmented layouts (harness/fragmenter.py)


def fragment_cuts(rng, aird: pathlib.Path) -> tuple[list, dict]:
    """cut set for a fragmented scratch copy: one cut whose type prefix occurs NOWHERE else in the file that keeps the
    placeholder (typically a whole architecture layer: the main file then carries `oa:OperationalAnalysis` on the
    placeholder only) when the model has one, plus 0-2 further (possibly nested) cuts anywhere"""
    from lxml import etree

    main, _ = fragmenter.find_main(aird)
    root = etree.parse(str(aird.parent / main)).getroot()
    XT = fragmenter.XT
    cands = [e for e in root.iter() if isinstance(e.tag, str) and e is not root and e.get("id") and ":" in (e.get(XT) or "")
             and e.get("href") is None and e.getparent() is not None and e.getparent().get("id")]
    count: dict = {}
    for e in root.iter():
        if isinstance(e.tag, str) and ":" in (e.get(XT) or ""):
            count[e.get(XT).split(":")[0]] = count.get(e.get(XT).split(":")[0], 0) + 1
    sole = []
    for e in cands:
        p = e.get(XT).split(":")[0]
        inside = sum(1 for x in e.iter() if isinstance(x.tag, str) and (x.get(XT) or "").split(":")[0] == p)
        if inside == count[p] and len(e) > 0:
            sole.append(e)
    chosen = []
    info = {"sole_user_cut": False}
    if sole:
        chosen.append(rng.choice(sole))
        info["sole_user_cut"] = True
    others = [e for e in cands if len(e) > 0 and e not in chosen]
    for _ in range(rng.randint(0 if chosen else 1, 2)):
        if others:
            e = rng.choice(others)
            if e not in chosen:
                chosen.append(e)
    used: set = set()
    cuts = []
    for i, e in enumerate(chosen):
        local = e.get(XT).split(":")[1]
        sub = rng.choice(["fragments/", "fragments/", "", "sub dir/frag%23/"])
        fname = f"{sub}{local} {i}.capellafragment"
        if fname in used:
            continue
        used.add(fname)
        cuts.append((e.get("id"), fname))
    info["cuts"] = [(e.get(XT), f) for e, (_, f) in zip(chosen, cuts)]
    return cuts, info


def fresh_fragmented(ctx: Ctx, out: Outcome, aird: pathlib.Path, tag: str) -> tuple[pathlib.Path, dict]:
    """a fragmented scratch copy of a corpus model, written by harness/fragmenter.py (independent of capellambse)"""
    work = ctx.scratch / "c02" / tag
    shutil.rmtree(work, ignore_errors=True)
    cuts, info = fragment_cuts(ctx.rng, aird)
    lay = fragmenter.fragment(aird, work, cuts)
    for f in aird.parent.iterdir():  # what fresh_copy would also bring along (.project ...); never overwrite
        if f.is_file() and not (lay.root / lay.project / f.name).exists():
            shutil.copy(f, lay.root / lay.project / f.name)
    out.hit("layout:fragmented")
    if info["sole_user_cut"]:
        out.hit("layout:fragmented:a-type-prefix-occurs-only-on-a-placeholder")
    if len(cuts) > 1:
        out.hit("layout:fragmented:several-cuts")
    return lay.aird, info


# ------------------------------------------------------------------ edit histories


class History:
    def __init__(self, ctx: Ctx, out: Outcome, model, label: str):
        self.ctx, self.out, self.m, self.label = ctx, out, model, label
        self.rng = ctx.rng
        self.created: list = []  # (owner, list attribute, object)
        self.log: list = []
        self.ok_since_save = 0
        self._objs = None
        self._diagrams = None
        self.touched: set = set()
        self.model_checked: set = set()
        self.undo: list = []
        self.ns_tried: set = set()
        self.snap: dict | None = None   # exported trees after the previous operation (edit link)
        self.cases: list | None = None  # model requests are queued here
        self.observe_every = 1
        self.n_obs = 0
        self.bytes_seen: dict = {}

    def export(self, visual: bool) -> dict:
        out = {}
        for fname, frag in self.m._loader.trees.items():
            if fname.parts[0] != "\0":
                continue
            kind = frag.fragment_type.name
            if kind == "SEMANTIC" or (visual and kind == "VISUAL"):
                fl: set = set()
                d = c01.export_doc(frag.root, fl)
                if not fl:
                    out[str(pathlib.PurePosixPath(*fname.parts[1:]))] = d
        return out

    def observe(self, desc: str) -> None:
        """the edit link: diff the trees before / after this operation into modelled edits (harness/props/xml_edits.py)
        and let the model check the script and the contract `okAll`"""
        if self.cases is None:
            return
        self.n_obs += 1
        if self.n_obs % self.observe_every:
            self.snap = None
            return
        visual = "Diagram" in desc
        now = self.export(visual)
        if self.snap is not None:
            for name, after in now.items():
                before = self.snap.get(name)
                if before is None or before == after:
                    continue
                a, b, edits, unmodelled = xml_edits.diff_doc(before, after)
                for e in edits:
                    self.out.hit("edit-link:" + e["edit"])
                for u in unmodelled:
                    self.out.hit("edit-link:unmodelled:" + u)
                if unmodelled:
                    self.out.disagree("edit.link", {"op": desc, "file": name}, "the API changed: " + ", ".join(sorted(set(unmodelled))),
                                      "no modelled edit kind expresses this")
                self.cases.append(({"op": "xml.history", "doc": a, "edits": edits, "after": b},
                                   ("edit.link", {"op": desc, "file": name, "edits": [{k: v for k, v in e.items() if k != "kid"} for e in edits][:12]},
                                    {"ok": True, "same": True})))
        if self.snap is None or not visual:
            self.snap = {**(self.snap or {}), **now} if self.snap is not None else now
        else:
            self.snap.update(now)

    def objs(self):
        """objects of the primary resource (libraries are separate, read-only resources that save() does not write)"""
        if self._objs is None:
            ld = self.m._loader
            self._objs = [o for o in self.m.search() if ld.find_fragment(o._element).parts[0] == "\0"]
        return self._objs

    def diagrams(self):
        if self._diagrams is None:
            try:
                self._diagrams = list(self.m.diagrams)
            except Exception:  # noqa: BLE001
                self._diagrams = []
        return self._diagrams

    def pick(self, *names):
        cands = [o for o in self.objs() if type(o).__name__ in names]
        return self.rng.choice(cands) if cands else None

    BOUNDARY = [" ", "\xa0", "\n", "\t \r", "]]>", "x]]>y", "a\r\nb", "\u2028", "\x85", "<![CDATA[x]]>", "&amp;", "\"'"]

    def boundary_step(self, i: int):
        """directed: the i-th boundary string goes into a specification body (if the model has one) and into a name"""
        s = self.BOUNDARY[i % len(self.BOUNDARY)]
        owners = []
        for o in self.objs():
            try:
                o.specification  # noqa: B018
                owners.append(o)
            except Exception:  # noqa: BLE001
                pass
        try:
            if owners:
                o = self.rng.choice(owners)
                o.specification[self.rng.choice(["Python", "LinkedText"])] = s
                self.touched.add(o.uuid)
                self.out.hit("op:spec-boundary")
                self.log.append({"op": "set specification (boundary)", "arg": s})
            dgs = self.diagrams()
            if dgs:
                dg = self.rng.choice(dgs)
                dg.name = "D " + s
                self.touched.add(dg.uuid)
                self.out.hit("op:diagram-boundary")
                self.log.append({"op": "set Diagram.name (boundary)", "arg": "D " + s})
            o = self.rng.choice(self.objs())
            o.name = s
            self.touched.add(o.uuid)
            self.out.hit("op:name-boundary")
            self.log.append({"op": f"set {type(o).__name__}.name (boundary)", "arg": s})
            self.ok_since_save += 1
            self.observe("boundary step (Diagram name, specification, name)")
        except Exception as e:  # noqa: BLE001
            self.out.hit("refused:" + type(e).__name__)

    def undo_rounds(self, save, variants) -> bool:
        """directed, at the very start of a history (the trees still serialise to the loaded bytes): edit -> save ->
        the exact inverse edit -> save, each save followed by the reload comparison. `save(tag)` returns False to stop."""
        rng, m = self.rng, self.m
        for v in variants:
            try:
                if v == "attribute":
                    o = rng.choice([x for x in self.objs() if x._element.get("name")] or self.objs())
                    attr = rng.choice(["name", "summary", "description"])
                    xml_attr = attr
                    old = o._element.get(xml_attr)
                    setattr(o, attr, (old or "") + " (draft " + rand_str(rng) + ")")
                    self.touched.add(o.uuid)
                    self.log.append({"op": f"set {type(o).__name__}.{attr}", "arg": "value + draft suffix"})
                    self.ok_since_save += 1
                    if not save("undo-attr-1"):
                        return False
                    setattr(o, attr, old if old is not None else "")
                    undone = o._element.get(xml_attr) == old
                    self.log.append({"op": f"restore {type(o).__name__}.{attr}", "arg": old, "exact": undone})
                elif v == "create":
                    owner = self.pick("LogicalComponent", "SystemComponent", "PhysicalComponent") or m.la.root_component
                    kind = rng.choice(["components", "ports", "constraints", "property_value_groups"])
                    obj = getattr(owner, kind).create(name="undo " + rand_str(rng))
                    self.touched.add(owner.uuid)
                    self._objs = None
                    self.log.append({"op": f"create {type(owner).__name__}.{kind}", "arg": ""})
                    self.ok_since_save += 1
                    if not save("undo-create-1"):
                        return False
                    getattr(owner, kind).remove(obj)
                    self._objs = None
                    self.log.append({"op": f"delete the created object from {kind}", "arg": ""})
                elif v == "move":
                    fns = [f for f in self.objs() if type(f).__name__ == "LogicalFunction" and type(f.parent).__name__ == "LogicalFunction"]
                    pairs = [(a, b) for a in fns for b in fns if a is not b and a.parent == b.parent][:50]
                    if not pairs:
                        continue
                    a, b = rng.choice(pairs)
                    parent = a.parent
                    idx = [x.uuid for x in parent.functions].index(a.uuid)
                    b.functions.append(a)
                    self.log.append({"op": "move function below a sibling", "arg": ""})
                    self.ok_since_save += 1
                    if not save("undo-move-1"):
                        return False
                    parent.functions.insert(idx, a)
                    self.log.append({"op": "move function back to its old place", "arg": idx})
                self.ok_since_save += 1
                self.out.hit("op:undo-" + v)
                self.observe("undo round " + v)
            except Exception as e:  # noqa: BLE001
                self.out.hit("refused:" + type(e).__name__)
                self.log.append({"op": "undo round " + v, "refused": type(e).__name__})
            if not save("undo-" + v + "-2"):
                return False
        return True

    def all_spec_boundaries(self):
        """directed: every boundary string (']]>' among them) goes into the body of a different specification"""
        owners = []
        for o in self.objs():
            try:
                o.specification  # noqa: B018
                owners.append(o)
            except Exception:  # noqa: BLE001
                pass
        for i, s in enumerate(self.BOUNDARY):
            if not owners:
                return
            o = owners[i % len(owners)]
            try:
                o.specification["Python" if i < len(owners) else f"L{i}"] = s
                self.touched.add(o.uuid)
                self.out.hit("op:spec-boundary")
                self.log.append({"op": "set specification (boundary)", "arg": s})
                self.ok_since_save += 1
                self.observe("set specification (boundary)")
            except Exception as e:  # noqa: BLE001
                self.out.hit("refused:" + type(e).__name__)

    def step(self):
        rng, m = self.rng, self.m
        op = rng.choice(["set_str"] * 5 + ["create"] * 4 + ["delete", "move", "alloc", "flag", "spec", "spec", "req", "pv",
                         "diagram", "diagram", "undo", "undo", "ns"])
        s = rand_str(rng)
        desc = op
        try:
            if op == "set_str":
                o = rng.choice(self.objs())
                attr = rng.choice(["name", "name", "summary", "description"])
                old = o._element.get(attr)
                setattr(o, attr, s)
                self.undo.append((o, attr, old))
                desc = f"set {type(o).__name__}.{attr}"
            elif op == "undo":
                # the exact inverse of an earlier attribute edit (the tree may serialise to earlier bytes again)
                if not self.undo:
                    return
                o, attr, old = self.undo.pop()
                setattr(o, attr, old if old is not None else "")
                desc = f"restore {type(o).__name__}.{attr}"
            elif op == "ns":
                # the last user of a type prefix goes away / the first user of an undeclared one appears
                users = xml_ns.users_by_prefix(m)
                small = sorted(p for p, es in users.items() if len(es) <= 30 and not any(e.getparent().getparent() is None for e in es))
                if small and rng.random() < 0.6:
                    p = rng.choice(small)
                    removed, left = xml_ns.remove_users(m, p, self.out)
                    desc = f"remove every user of type prefix {p} ({removed} removed, {left} left)"
                    self.created = [c for c in self.created if c[2]._element.getparent() is not None]
                else:
                    declared = {k for _, f in xml_ns.primary_semantic(m) for k in f.root.nsmap if k}
                    r = xml_ns.add_first_user(m, rng, self.out, declared, self.ns_tried)
                    desc = f"add first user of an undeclared type prefix: {r}"
                self._objs = None
            elif op == "diagram":
                # diagrams live in the visual fragment (.aird) of the primary resource; name / description are writable
                dgs = self.diagrams()
                if not dgs:
                    return
                dg = rng.choice(dgs)
                attr = rng.choice(["name", "name", "description"])
                setattr(dg, attr, s)
                self.touched.add(dg.uuid)
                desc = f"set Diagram.{attr}"
            elif op == "create":
                kind = rng.choice(["components", "functions", "ports", "constraints", "state_machines", "property_value_groups"])
                if kind == "functions":
                    owner = self.pick("LogicalFunction", "SystemFunction", "PhysicalFunction") or m.la.root_function
                else:
                    owner = self.pick("LogicalComponent", "SystemComponent", "PhysicalComponent") or m.la.root_component
                obj = getattr(owner, kind).create(name=s)
                self.created.append((owner, kind, obj))
                desc = f"create {type(owner).__name__}.{kind}"
            elif op == "pv":
                owner = rng.choice(self.objs())
                obj = owner.property_values.create("StringPropertyValue", name=s, value=rand_str(rng))
                self.created.append((owner, "property_values", obj))
                desc = "create property value"
            elif op == "req":
                layer = rng.choice([m.oa, m.sa, m.la, m.pa])
                mods = list(layer.requirement_modules)
                if not mods or rng.random() < 0.3:
                    mod = layer.requirement_modules.create(long_name=s)
                    self.created.append((layer, "requirement_modules", mod))
                else:
                    mod = rng.choice(mods)
                req = mod.requirements.create(long_name=rand_str(rng), text=rand_str(rng))
                self.created.append((mod, "requirements", req))
                if rng.random() < 0.5:
                    req.relations.create(target=rng.choice(self.objs()))
                desc = "create requirement"
            elif op == "delete":
                if not self.created:
                    return
                owner, kind, obj = self.created.pop(rng.randrange(len(self.created)))
                getattr(owner, kind).remove(obj)
                desc = f"delete from {kind}"
            elif op == "move":
                fns = [c for c in self.created if c[1] == "functions"]
                if len(fns) < 2:
                    return
                (o1, k1, a), (o2, k2, b) = rng.sample(fns, 2)
                a.functions.append(b)
                desc = "move function"
            elif op == "alloc":
                comp = self.pick("LogicalComponent")
                fn = self.pick("LogicalFunction")
                if comp is None or fn is None:
                    return
                if fn in comp.allocated_functions and rng.random() < 0.5:
                    comp.allocated_functions.remove(fn)
                else:
                    comp.allocated_functions.append(fn)
                desc = "allocate function"
            elif op == "flag":
                comp = self.pick("LogicalComponent", "SystemComponent", "PhysicalComponent")
                if comp is None:
                    return
                if rng.random() < 0.5:
                    comp.is_abstract = rng.random() < 0.5
                else:
                    comp.is_human = rng.random() < 0.5
                desc = "set flag"
            elif op == "spec":
                cands = []
                for o in self.objs():
                    try:
                        o.specification  # noqa: B018
                        cands.append(o)
                    except Exception:  # noqa: BLE001
                        pass
                if not cands:
                    return
                o = rng.choice(cands)
                lang = rng.choice(["Python", "LinkedText", "capella:linkedText", rand_str(rng) or "L"])
                o.specification[lang] = s
                desc = f"set specification[{lang!r}]"
        except Exception as e:  # noqa: BLE001
            self.out.hit("refused:" + type(e).__name__)
            self.log.append({"op": desc, "arg": s, "refused": type(e).__name__})
            return
        for v in list(locals().values()):
            u = getattr(v, "uuid", None) if hasattr(v, "_element") else None
            if isinstance(u, str):
                self.touched.add(u)
        self.out.hit("op:" + op)
        if op in ("create", "delete", "pv", "req", "move"):
            self._objs = None
        self.ok_since_save += 1
        self.log.append({"op": desc, "arg": s})
        self.observe(desc)


def fresh_copy(ctx: Ctx, aird: pathlib.Path, tag: str) -> pathlib.Path:
    work = ctx.scratch / "c02" / tag
    shutil.rmtree(work, ignore_errors=True)
    shutil.copytree(aird.parent, work / aird.parent.name)
    if aird.parent.name == "Library Project":
        shutil.copytree(aird.parent.parent / "Library Test", work / "Library Test")
    return work / aird.parent.name / aird.name


def load(capellambse, path: pathlib.Path):
    res = {"Library Test": str(path.parent.parent / "Library Test")} if path.parent.name == "Library Project" else {}
    return capellambse.MelodyModel(str(path), resources=res)


def save_and_compare(h: History, path: pathlib.Path, capellambse, key, cases: list, model_side: bool = True) -> bool:
    """save, reload into a fresh model, compare trees and queries; queue the model requests (unless `model_side` is
    off: the 10 MB attribute of the size-limit history is not sent through the Lean driver). False = stop history."""
    out, m = h.out, h.m
    etree, exs, core = c01.impl()
    replay = {"kind": "history", "model": str(path.relative_to(h.ctx.scratch / "c02").parts[1:] and pathlib.Path(*path.relative_to(h.ctx.scratch / "c02").parts[1:])),
              "label": h.label, "log": list(h.log)}
    last = next((l for l in reversed(h.log) if "refused" not in l), {"op": "none"})
    # the in-memory semantic trees and the viewpoints as save() is about to see them (model of update_namespaces)
    ns_before, ns_vps = {}, []
    if model_side:
        try:
            ns_vps = [[k, v] for k, v in dict(m._loader.referenced_viewpoints()).items()]
            for name, frag in xml_ns.primary_semantic(m):
                fl: set = set()
                d0 = c01.export_doc(frag.root, fl)
                if not fl:
                    ns_before[name] = d0
        except Exception:  # noqa: BLE001
            ns_before = {}
    try:
        m.save()
    except Exception as e:  # noqa: BLE001
        out.find(f"MelodyModel.save|raises|{type(e).__name__}", f"save() after {len(h.log)} API operations raised {type(e).__name__}: {e}", replay)
        return False
    mem = {k: canon(v) for k, v in frag_roots(m).items()}
    # every relation of (some of) the touched objects, too: fewer on big models (back-reference relations scan the model)
    n_rel = 25 if (h.ctx.thorough or not big_model(path)) else 5
    rel_for = sorted(h.touched)[-n_rel:] if model_side else []
    q_mem = queries(m, touched=h.touched, rel_for=rel_for)
    out.case(key, {"model": h.label, "ops": len(h.log), "last": last} if len(out.samples) < 4 else None, h.ok_since_save > 0)
    out.traces_validated += 1
    h.ok_since_save = 0
    check_written_bytes(out, path.parent, list(frag_roots(m)), h.label, replay, h.bytes_seen, h.ctx.thorough)
    try:
        m2 = load(capellambse, path)
    except Exception as e:  # noqa: BLE001
        out.find(f"MelodyModel.save|reload-fails|{type(e).__name__}",
                 f"the model saved after {len(h.log)} API operations (last: {last}) cannot be loaded: {type(e).__name__}: {str(e)[:200]}", replay)
        return False
    check_type_namespaces(m, path, out, replay, h.label)  # after the reload: the files are known to be parseable
    xml_ns.check_written_namespaces(out, etree, path.parent, list(frag_roots(m)), h.label, replay)
    if model_side and (h.ctx.thorough or sum(p.stat().st_size for p in path.parent.iterdir() if p.is_file()) < 600_000):
        xml_ns.resave_fixpoint(out, lambda p: load(capellambse, p), path, h.label, replay)
    roots2 = frag_roots(m2)
    for name, tree in mem.items():
        d = diff(tree, canon(roots2[name])) if name in roots2 else ("fragment-missing", name)
        if d:
            out.find(f"MelodyModel.save|reload-differs|{d[0]}",
                     f"{h.label}: after save + reload {name} differs from memory: {d[1]} (last operation: {last})",
                     {**replay, "observed": "tree:" + d[0]})
    q2 = queries(m2, uuids=list(q_mem), rel_for=rel_for)
    if q2 != q_mem:
        bad = [(u, k, q_mem[u].get(k), q2.get(u, {}).get(k)) for u in q_mem for k in q_mem[u]
               if q2.get(u, {}).get(k) != q_mem[u].get(k)][:3]
        if bad and all(b[1] == "relations" for b in bad):
            u, _, a, b = bad[0]
            ks = [k for k in sorted(set(a or {}) | set(b or {})) if (a or {}).get(k) != (b or {}).get(k)][:3]
            bad = [(u, "relations." + k, (a or {}).get(k), (b or {}).get(k)) for k in ks]
        cls = "spec" if any(b[1] == "spec" for b in bad) else "relation" if any(str(b[1]).startswith("relations") for b in bad) else "attribute"
        out.find(f"MelodyModel.save|query-differs|{cls}",
                 f"{h.label}: an API query answers differently after save + reload: {bad!r}"[:600],
                 {**replay, "observed": "query:" + cls})
    # ---- model side: every written fragment
    for name, root in (frag_roots(m).items() if model_side else ()):
        p = path.parent / name
        kind = c01.frag_kind(core, pathlib.PurePosixPath(name))
        flags: set = set()
        doc = c01.export_doc(root, flags)
        if flags:
            out.hit("unrepresentable:" + ",".join(sorted(flags)))
            continue
        b = p.read_bytes()
        if kind != "semantic":
            # visual / metadata fragments are not edited by these histories: once per history, and the big ones only
            # in the thorough tier
            if name in h.model_checked or (len(b) > 500_000 and not h.ctx.thorough):
                continue
            h.model_checked.add(name)
        if name in ns_before:
            cases.append(({"op": "xml.updateNs", "doc": ns_before[name], "vps": ns_vps},
                          ("ns.api", {"file": name, "log": h.log[-3:]},
                           {"doc": doc, "replaced": doc["root"][1] != ns_before[name]["root"][1] or doc["post"] != ns_before[name]["post"]})))
        shaped = c01.capella_shaped(doc)
        want = {"out": b.decode("utf-8"), "wf": shaped}
        if shaped:
            want.update({"reload_is_canon": True, "info_equal": True})
        elif shaped_up_to_empty(doc):
            # the object layer wrote `text = ""` somewhere: the statement of `save_reload_empty`
            want.update({"wfE": True, "reload_is_canon_drop": True, "info_equal": True})
            out.hit("save_reload:empty-text-domain")
        cases.append(({"op": "xml.save_reload", "kind": kind, "doc": doc}, ("save_reload:" + kind, {"file": name, "log": h.log[-3:]}, want)))
        if name in roots2:
            cases.append(({"op": "xml.parse", "s": b.decode("utf-8")},
                          ("reload.parse:" + kind, {"file": name}, {"doc": c01.export_doc(roots2[name], set())})))
    h._objs = None  # save() replaced fragment roots (update_namespaces); wrappers of old roots are stale
    h.snap = h.export(True) if h.cases is not None and model_side else None
    return True


def directed_limits(ctx: Ctx, out: Outcome, capellambse, cases: list) -> None:
    """Two directed histories per run against the parser's built-in size limits (libxml2 without `huge_tree` refuses
    text/attribute nodes above 10,000,000 characters and nesting deeper than 256): (1) one attribute value of 10.5 M
    characters - e.g. a description with an inline data: image -, (2) 300 nested functions. Each: one save + reload."""
    aird = common.REPO / "tests" / "data" / "writemodel" / "WriteTestModel.aird"
    label = str(aird.relative_to(common.REPO / "tests" / "data"))
    for what in ("long-attribute", "deep-nesting"):
        path = fresh_copy(ctx, aird, "limits-" + what)
        m = load(capellambse, path)
        h = History(ctx, out, m, label + " [" + what + "]")
        try:
            fn = m.la.root_function.functions.create(name=what)
            if what == "long-attribute":
                fn.name = "x" * 10_500_000
                h.log.append({"op": "set LogicalFunction.name", "arg": "'x' * 10_500_000"})
            else:
                for i in range(300):
                    fn = fn.functions.create(name=f"n{i}")
                h.log.append({"op": "create 300 nested LogicalFunctions", "arg": ""})
            h.touched.add(fn.uuid)
            h.ok_since_save = 1
            out.hit("op:limit-" + what)
        except Exception as e:  # noqa: BLE001
            out.hit("refused:" + type(e).__name__)
            shutil.rmtree(path.parent.parent, ignore_errors=True)
            continue
        save_and_compare(h, path, capellambse, (label, ctx.seed, "limits", what), cases, model_side=False)
        shutil.rmtree(path.parent.parent, ignore_errors=True)


def tree_edit_cases(ctx: Ctx, out: Outcome, cases: list):
    """the model's tree edits against the same edits done with lxml"""
    etree, exs, core = c01.impl()
    rng = ctx.rng
    for i in range(ctx.pick(150, 1000)):
        d = {"pre": [], "root": c01.synth(rng), "post": []}
        root = c01.build_doc(etree, d)
        elems = [e for e in root.iter()]
        tgt = rng.choice(elems)
        path = []
        e = tgt
        while e.getparent() is not None:
            path.append(e.getparent().index(e))
            e = e.getparent()
        path.reverse()
        op = rng.choice(["setAttr", "delAttr", "setText", "insertKid", "removeKid"])
        req = {"op": "xml.edit", "edit": op, "path": path, "doc": d}
        s = rand_str(rng)
        if op == "setAttr":
            k = rng.choice(["name", "id", "{%s}type" % c01.XSI, "summary"] + list(tgt.keys()))
            try:
                tgt.set(k, s)
            except ValueError:
                continue
            req.update({"name": k, "value": s})
        elif op == "delAttr":
            k = rng.choice(["name", "id"] + list(tgt.keys()))
            tgt.attrib.pop(k, None)
            req.update({"name": k})
        elif op == "setText":
            if len(tgt):
                continue
            try:
                tgt.text = s
            except ValueError:
                continue
            req.update({"value": s})
        elif op == "insertKid":
            if tgt.text is not None:
                continue
            idx = rng.randint(0, len(tgt))
            tag = rng.choice(c01.TAGS)
            k = etree.Element(tag)
            k.set("id", "new")
            tgt.insert(idx, k)
            req.update({"index": idx, "kid": [tag, [], [["id", "new"]], None, None, []]})
        elif op == "removeKid":
            if not len(tgt):
                continue
            idx = rng.randrange(len(tgt))
            tgt.remove(tgt[idx])
            req.update({"index": idx})
        want = {"doc": c01.export_doc(root, set())}
        want["wf"] = c01.capella_shaped(want["doc"])
        cases.append((req, ("tree_edit:" + op, {"edit": op, "path": path}, want)))
        # ... and what write_xml makes of the edited tree
        import io

        buf = io.BytesIO()
        exs.write(root, buf, line_length=exs.LINE_LENGTH, siblings=True)
        cases.append(({"op": "xml.write", "kind": "semantic", "doc": want["doc"]},
                      ("edited.write_xml", {"edit": op, "value": req.get("value")}, {"out": buf.getvalue().decode("utf-8")})))
        out.case(("edit", i), None, True)
        out.hit("tree_edit:" + op)


# ------------------------------------------------------------------ the run


def models(ctx: Ctx) -> list[tuple[pathlib.Path, int, int, bool]]:
    """(aird, histories, max operations, fragmented layout?)"""
    data = common.REPO / "tests" / "data"
    ms = [(data / "writemodel" / "WriteTestModel.aird", ctx.pick(8, 24), 40, False),
          (data / "melodymodel" / "5_0" / "Melody Model Test.aird", 1, ctx.pick(12, 25), False),
          # the same histories on FRAGMENTED scratch copies (harness/fragmenter.py: a whole layer in its own file, so that
          # a type occurs on the placeholder only; further random cuts)
          (data / "writemodel" / "WriteTestModel.aird", ctx.pick(3, 8), 30, True),
          (data / "melodymodel" / "5_0" / "Melody Model Test.aird", 1, ctx.pick(6, 20), True)]
    if ctx.thorough:
        ms += [(data / "melodymodel" / "5_2" / "Melody Model Test.aird", 1, 25, False),
               (data / "melodymodel" / "6_0" / "Melody Model Test.aird", 1, 25, False),
               (data / "Library Project" / "Library Project.aird", 4, 30, False),
               (data / "pvmt" / "PVMTTest.aird", 4, 30, False),
               (data / "decl" / "empty_project_52" / "empty_project_52.aird", 4, 30, False),
               (data / "melodymodel" / "5_2" / "Melody Model Test.aird", 1, 12, True),
               (data / "pvmt" / "PVMTTest.aird", 2, 30, True),
               (data / "decl" / "empty_project_52" / "empty_project_52.aird", 2, 30, True)]
    return ms


def big_model(aird: pathlib.Path) -> bool:
    return aird.stat().st_size > 100_000 or (aird.parent / (aird.stem + ".capella")).stat().st_size > 400_000


def run(ctx: Ctx) -> Outcome:
    os.environ.setdefault("XDG_CACHE_HOME", str(ctx.scratch / "xdg"))
    capellambse = setup()
    out = Outcome(rule=RULE)
    cases: list = []
    layouts: list = []
    for aird, n_hist, max_ops, fragmented in models(ctx):
        label = str(aird.relative_to(common.REPO / "tests" / "data")) + (" [fragmented]" if fragmented else "")
        for hi in range(n_hist):
            if fragmented:
                path, info = fresh_fragmented(ctx, out, aird, f"{common.sha(label)}-{hi}")
                layouts.append({"model": label, "history": hi, **info})
                try:
                    m = load(capellambse, path)
                except Exception as e:  # noqa: BLE001
                    out.find(f"MelodyModel|load-fragmented-raises|{type(e).__name__}",
                             f"{label}: the fragmented layout {info['cuts']} cannot be loaded: {type(e).__name__}: {str(e)[:200]}",
                             {"kind": "history", "label": label, "log": [], "cuts": info["cuts"]})
                    shutil.rmtree(path.parent.parent, ignore_errors=True)
                    continue
            else:
                path = fresh_copy(ctx, aird, f"{common.sha(label)}-{hi}")
                try:
                    m = load(capellambse, path)
                except Exception as e:  # noqa: BLE001
                    raise common.InfraError(f"cannot load corpus model {label}: {e!r}") from e
            h = History(ctx, out, m, label)
            if fragmented:
                h.log.append({"op": "layout", "arg": info["cuts"]})
            h.cases = cases
            h.observe_every = 2 if (big_model(aird) and not ctx.thorough) else 1
            h.snap = h.export(True)
            saves = 0
            # directed part 0: edit -> save -> exact inverse edit -> save, before anything else touched the trees
            big = big_model(aird)
            if fragmented and big:
                # big model, fragmented: a short history (a few operations, a save in the middle and one at the end; the long
                # histories with undo rounds and boundary strings run on the small fragmented models)
                for k in range(ctx.rng.randint(4, max_ops)):
                    h.step()
                    if k == 1 and not save_and_compare(h, path, capellambse, (label, ctx.seed, hi, "mid"), cases):
                        break
                else:
                    save_and_compare(h, path, capellambse, (label, ctx.seed, hi, "final"), cases)
                shutil.rmtree(path.parent.parent, ignore_errors=True)
                continue
            variants = ["attribute"] if (big and not ctx.thorough) else (["attribute", "create", "move"] if hi == 0 else
                                                                          [ctx.rng.choice(["attribute", "create", "move"])])
            if not h.undo_rounds(lambda tag: save_and_compare(h, path, capellambse, (label, ctx.seed, hi, tag), cases), variants):
                shutil.rmtree(path.parent.parent, ignore_errors=True)
                continue
            # directed part: (first history of a model) every boundary string in a specification body, one save;
            # then two boundary strings per history, each followed by a save + reload
            if hi == 0:
                h.all_spec_boundaries()
                if h.ok_since_save and not save_and_compare(h, path, capellambse, (label, ctx.seed, hi, "spec-boundaries"), cases):
                    shutil.rmtree(path.parent.parent, ignore_errors=True)
                    continue
            for b in range(2):
                h.boundary_step(2 * hi + b + ctx.seed)
                if not save_and_compare(h, path, capellambse, (label, ctx.seed, hi, f"boundary{b}"), cases):
                    break
            for _ in range(ctx.rng.randint(5, max_ops)):
                h.step()
                if ctx.rng.random() < 0.25 and saves < 5:
                    saves += 1
                    if not save_and_compare(h, path, capellambse, (label, ctx.seed, hi, saves), cases):
                        break
            else:
                save_and_compare(h, path, capellambse, (label, ctx.seed, hi, "final"), cases)
            shutil.rmtree(path.parent.parent, ignore_errors=True)
    directed_limits(ctx, out, capellambse, cases)
    tree_edit_cases(ctx, out, cases)
    xml_ns.gen_witnesses(ctx, out, cases)  # the witnesses of the namespace theorems, replayed on the implementation
    # tree-level namespace histories in which fragment placeholders come and go (also as the only user of their namespace):
    # `update_namespaces` on the very same ModelFile after every edit, against the model (`placeholder_type_declared`)
    xml_ns.gen_tree_histories(ctx, out, cases, n=ctx.pick(40, 300), focus="placeholder")

    if os.environ.get("VERIF_NO_MODEL") != "1":
        answers = c01.run_model([c[0] for c in cases])
        for (req, (stream, case, want)), ans in zip(cases, answers):
            mv = ans.get("ok", {"err": ans.get("err")})
            out.hit(stream)
            if req["op"] == "xml.updateNs":
                xml_ns.compare_update(out, stream, case, req["doc"], want, mv)
                continue
            if req["op"] == "xml.history":
                if isinstance(mv, dict) and mv.get("ok") is True:
                    out.hit("edit-link:step-ok" if mv.get("ok_strict") else "edit-link:step-ok-only-up-to-empty-text")
                if not (isinstance(mv, dict) and mv.get("ok") is True and mv.get("same") is True):
                    bad = mv.get("first_bad") if isinstance(mv, dict) else None
                    what = ("the edit script does not lead to the observed tree" if isinstance(mv, dict) and mv.get("same") is False
                            else f"edit #{bad} of the script violates the contract Edit.ok" if bad is not None else "model error")
                    out.disagree(stream, {**case, "first_bad_edit": (case["edits"][bad] if isinstance(bad, int) and bad < len(case["edits"]) else None)},
                                 "an observed API step", what + ": " + json.dumps(mv)[:200])
                continue
            want = json.loads(json.dumps(want))
            if isinstance(mv, dict) and mv.get("wf") is False and want.get("wf") is False and "out" in want \
                    and not (mv.get("wfE") or want.get("wfE")):
                mv = {k: v for k, v in mv.items() if k in ("out", "wf")}
            if mv != want:
                short = lambda v: json.dumps(v, ensure_ascii=False)[:500]  # noqa: E731
                if isinstance(mv, dict) and isinstance(want, dict):
                    ks = [k for k in sorted(set(mv) | set(want)) if mv.get(k) != want.get(k)]
                    out.disagree(stream, {**case, "keys": ks}, short({k: want.get(k) for k in ks}), short({k: mv.get(k) for k in ks}))
                else:
                    out.disagree(stream, case, short(want), short(mv))
    out.extra["fragmented_layouts"] = layouts[:12]
    out.extra["alphabet"] = [a.encode("unicode_escape").decode("ascii") for a in STR_ALPHA]
    out.extra["relations_compared_by_accessor_kind"] = dict(sorted(REL_STATS.items()))
    return out


def replay(ctx: Ctx, case: dict):
    """Replays a recorded history: the operations that depended on random object choices cannot be re-run one by one,
    so the whole check is re-run with the recorded seed by check.py; here the known minimal reproducers are run."""
    capellambse = setup()
    os.environ.setdefault("XDG_CACHE_HOME", str(ctx.scratch / "xdg"))
    aird = common.REPO / "tests" / "data" / "melodymodel" / "5_0" / "Melody Model Test.aird"
    path = fresh_copy(ctx, aird, "replay")
    m = load(capellambse, path)
    target = None
    for o in m.search():
        try:
            o.specification  # noqa: B018
            target = o
            break
        except Exception:  # noqa: BLE001
            pass
    msgs = []
    for body in ["   ", "\xa0", "x[y[0]]>1"]:
        target.specification["Python"] = body
        m.save()
        try:
            m2 = load(capellambse, path)
        except Exception as e:  # noqa: BLE001
            msgs.append(f"body {body!r}: reload fails: {e}")
            continue
        got = m2.by_uuid(target.uuid).specification["Python"]
        if got != body:
            msgs.append(f"specification body {body!r} reads {got!r} after save + reload")
    return "; ".join(msgs) or None
