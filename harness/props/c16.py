"""C16 — saving to a git repository creates exactly one faithful commit, or none.

Implementation: the real `GitFileHandler` / `_GitTransaction` / `_WritableGitFile` with real git on scratch
repositories (several branches, a tag, nested directories), sequences of 1-4 transactions on one handler, all
option combinations (dry_run, ignore_empty, remote_branch, author, message, push), an
abort injected at every point of the body (before/between/inside writes, with a file left open, nested
transaction) and a failure injected at every git command the transaction issues, until no further point is
reached.  One stream saves a real model through `MelodyModel.save`.  A push stream gives the repository a bare
`origin` (the real counterpart of "the remote"; works offline) in four situations - in sync, diverged (somebody else
pushed: non-fast-forward), declining (pre-receive hook), absent - and runs pushing transactions, a failure injected
at every git command (push and the restoring update-ref included), each followed by further saves on the same handler.
Correspondence: Lean `Capella.Git` (driver `Git`) gets the same initial repository, handler and transaction
sequence and must produce the same git command trace, error kinds, refs, commits (parent, tree), HEAD, index and
work-tree status after every transaction.
Monitor: plain git on the repository and on the handler's work tree - `for-each-ref`, `rev-list --all`,
`cat-file -p`, `diff-tree`, `show <commit>:<path>`, `status --porcelain`, `rev-parse HEAD` before/after.
"""

from __future__ import annotations

import contextlib
import os
import pathlib
import re
import shutil
import subprocess
import sys

import common
from common import Ctx, Outcome

RULE = ("prepared transaction objects: histories of create/run steps (make A, make B, enter A, enter B; re-entering; aborts, dry runs, "
        "failing git commands and idiomatic transactions in between); "
        "systematic: for each (handler revision, subdir, option set) one body of writes (modified, new, unchanged, nested) is "
        "aborted at every position (before/between/inside writes, open file left behind, nested transaction) and failed at every "
        "git command index until none is left, each followed by a plain commit on the same handler; random: seeded sequences of "
        "1-4 transactions with random options/bodies; distinct = distinct (handler, sequence of (options, body, abort, fault)); "
        "non-trivial = at least one write, abort or fault")
ASSUMPTIONS = [
    "git 2.39 behaves as its manual says for rev-parse, add, write-tree, commit-tree -p, reset --soft/--hard, update-ref, clean (trusted, exercised)",
    "an injected git failure means the command did not run",
    "push: the remote is a bare repository on the same machine (file transport); it accepts a non-forced push iff no hook declines and the update is a fast-forward (git's rule, modelled as remoteAccepts); network failures are represented by the declining / absent remote and by injected failures of the push command",
    "commits have at most one parent in the model (the generated repositories have no merge commits); ancestry = following parent links",
    "nobody else moves the handler's revision or touches its private work tree during the handler's life (documented precondition)",
    "file locking (helpers.flock) and work-tree creation/removal are exercised but not modelled",
]
TRUSTED = ["C16: git itself; the interception of GitFileHandler._git in harness/props/c16.py"]
DRIVERS = ["Git"]
MANIFEST = dict(
    text=("Lean theorems over a model of the repository as the handler uses it (commits with parent and tree, refs, the private "
          "work tree's HEAD/index/files; rev-parse, add, write-tree, commit-tree -p, reset --soft/--hard, clean, update-ref) and of "
          "_GitTransaction/_WritableGitFile: a successful save adds exactly one commit whose parent is the handler's HEAD and whose "
          "tree is the parent's with exactly the written paths replaced, moves only the target ref and leaves a clean work tree; an "
          "unchanged save creates nothing; abort at any point of any body, dry-run, and failure of any git command restore refs, HEAD, "
          "index and files and close the transaction; object-like targets are refused; writing needs a transaction; cleanliness is "
          "an invariant of arbitrary transaction sequences; with push=True and the remote as a second ref store: the remote's refs are unchanged or exactly its "
          "target ref was set to the handler's new HEAD by a successful transaction (for every failing command), a refused push (non-fast-forward, declining remote) "
          "puts the local branch back and restores the work tree, with push=False the remote is never touched; making a transaction object and entering it "
          "are two steps: an object made in any earlier state and entered later behaves like one made at entry, and in every history of making/entering "
          "objects (any interleaving, re-entering, aborts, faults) a step adds at most one commit whose parent is the HEAD right before that step. Tied to /repo by differential runs against real git (command trace, "
          "refs, commits, index, status) and an independent git-CLI monitor."),
    design_ref="§6 C16",
    note=("Trusted: Lean kernel; git itself (semantics of the plumbing commands and of a non-forced push as modelled); the _git interception shim; "
          "flock, work-tree creation, LFS, credentials and network transports are not modelled."),
    technique="Lean 4 proof (state-machine invariant over transaction sequences, ∀ abort point / ∀ failing command) + differential runs against real git",
)

GITENV = dict(GIT_AUTHOR_NAME="Init", GIT_AUTHOR_EMAIL="init@example.invalid", GIT_COMMITTER_NAME="Comm",
              GIT_COMMITTER_EMAIL="comm@example.invalid", GIT_CONFIG_GLOBAL="/dev/null", GIT_CONFIG_SYSTEM="/dev/null",
              GIT_TERMINAL_PROMPT="0")


def finalize_handler(fh) -> None:
    """remove the handler's private work tree now (normally done when the handler is collected)"""
    import weakref

    common.get_private(fh, "_GitFileHandler__fnz", lambda v: isinstance(v, weakref.finalize))()


def object_name_regex(fg):
    """the module-private compiled regex that refuses object-like target refs: by its pinned name, else the only
    compiled pattern of the module"""
    r = getattr(fg, "_git_object_name", None)
    if r is None:
        c = [v for v in vars(fg).values() if isinstance(v, re.Pattern)]
        if len(c) != 1:
            raise common.BindingBroken(f"{fg.__name__}: regex '_git_object_name' not found ({len(c)} candidates)")
        r = c[0]
    return r


class Abort(Exception):
    """The exception the harness throws into a transaction body."""


def git(cwd, *args, binary=False, check=True):
    env = {**os.environ, **GITENV}
    p = subprocess.run(["git", *map(str, args)], cwd=cwd, capture_output=True, env=env)
    if check and p.returncode != 0:
        raise common.InfraError(f"git {' '.join(map(str, args))} failed in {cwd}: {p.stderr.decode(errors='replace')[:300]}")
    return p.stdout if binary else p.stdout.decode("utf-8", errors="replace")


INITIAL_FILES = {"a.txt": b"a0", "b.txt": b"b0", "sub/c.txt": b"c0", "sub/deep/d.txt": b"d0",
                 ".gitignore": b"*.tmp\nbuild/\n"}


def is_ignored(path: str) -> bool:
    """does the generated repositories' .gitignore match this (new) path?"""
    parts = pathlib.PurePosixPath(os.path.normpath(path)).parts
    return parts[-1].endswith(".tmp") or "build" in parts[:-1]


def make_repo(root: pathlib.Path) -> pathlib.Path:
    root.mkdir(parents=True)
    git(root, "-c", "init.defaultBranch=master", "init", "-q")
    git(root, "config", "user.name", "Repo User")
    git(root, "config", "user.email", "repo@example.invalid")
    for rel, data in INITIAL_FILES.items():
        (root / rel).parent.mkdir(parents=True, exist_ok=True)
        (root / rel).write_bytes(data)
    git(root, "add", "-A")
    git(root, "commit", "-q", "-m", "c0")
    git(root, "tag", "v1")
    (root / "a.txt").write_bytes(b"a1")
    git(root, "commit", "-q", "-am", "c1")
    git(root, "branch", "dev")
    git(root, "checkout", "-q", "-b", "feature/x")
    (root / "b.txt").write_bytes(b"b-feature")
    git(root, "commit", "-q", "-am", "c2 on feature")
    git(root, "checkout", "-q", "master")
    (root / "sub" / "c.txt").write_bytes(b"c2")
    git(root, "commit", "-q", "-am", "c3 on master")
    return root


# ------------------------------------------------------------------ observation (plain git, independent of the handler)


def refs_of(repo) -> dict[str, str]:
    """branches and tags; refs/remotes/origin/* are git's own bookkeeping of what was pushed (they follow a successful push)"""
    out = {}
    for line in git(repo, "for-each-ref", "--format=%(refname) %(objectname)").splitlines():
        n, h = line.split(" ")
        if not n.startswith("refs/remotes/"):
            out[n] = h
    return out


def all_commits(repo) -> set[str]:
    return set(git(repo, "rev-list", "--all").split())


def commit_info(repo, sha) -> dict:
    raw = git(repo, "cat-file", "-p", sha)
    head, _, msg = raw.partition("\n\n")
    info = {"parents": [], "msg": msg.rstrip("\n")}
    for line in head.splitlines():
        k, _, v = line.partition(" ")
        if k == "parent":
            info["parents"].append(v)
        elif k == "tree":
            info["tree"] = v
        elif k == "author":
            m = re.match(r"(.*) <(.*)> \d+ [+-]\d+$", v)
            info["author"] = (m.group(1), m.group(2)) if m else (v, "")
    return info


_BLOBS: dict[str, bytes] = {}   # content-addressed, so valid across the scratch repositories
_TREES: dict[str, dict[str, bytes]] = {}


def blob(repo, sha: str) -> bytes:
    if sha not in _BLOBS:
        _BLOBS[sha] = git(repo, "cat-file", "blob", sha, binary=True)
    return _BLOBS[sha]


def tree_of(repo, sha) -> dict[str, bytes]:
    if sha in _TREES:
        return dict(_TREES[sha])
    out = {}
    for ent in git(repo, "ls-tree", "-r", "-z", sha, binary=True).split(b"\0"):
        if ent:
            meta, _, name = ent.partition(b"\t")
            out[name.decode("utf-8")] = blob(repo, meta.split()[2].decode())
    _TREES[sha] = dict(out)
    return out


def index_of(wt) -> dict[str, bytes]:
    out = {}
    for ent in git(wt, "ls-files", "-s", "-z", binary=True).split(b"\0"):
        if ent:
            meta, _, name = ent.partition(b"\t")
            out[name.decode("utf-8")] = blob(wt, meta.split()[1].decode())
    return out


def worktree_files(wt: pathlib.Path) -> dict[str, bytes]:
    out = {}
    for dp, dn, fn in os.walk(wt):
        if ".git" in dn:
            dn.remove(".git")
        for f in fn:
            if f == ".git":
                continue
            p = pathlib.Path(dp, f)
            out[p.relative_to(wt).as_posix()] = p.read_bytes()
    return out


def observe(repo, wt, bare=None) -> dict:
    d = dict(refs=refs_of(repo), all=all_commits(repo), head=git(wt, "rev-parse", "HEAD").strip(),
             status=git(wt, "status", "--porcelain", "--untracked-files=all", "--ignored"),
             main_head=git(repo, "symbolic-ref", "HEAD").strip())
    if bare is not None:
        d["remote_refs"] = refs_of(bare)
        d["remote_all"] = all_commits(bare)
    return d


def make_remote(ctx: Ctx, repo: pathlib.Path, n: int, situation: str) -> pathlib.Path | None:
    """The real counterpart of "the remote": a bare repository next to `repo`, registered as its `origin`.
    insync: a clone of `repo`; diverged: somebody else has pushed another commit to its master; declines: a
    pre-receive hook refuses every push; none: no remote `origin` at all (push cannot even start)."""
    if situation == "none":
        return None
    bare = ctx.scratch / f"r{n}.git"
    git(ctx.scratch, "clone", "-q", "--bare", str(repo), str(bare))
    git(repo, "remote", "add", "origin", str(bare))
    if situation == "diverged":
        other = ctx.scratch / f"o{n}"
        git(ctx.scratch, "clone", "-q", str(bare), str(other))
        git(other, "config", "user.name", "Other")
        git(other, "config", "user.email", "other@example.invalid")
        git(other, "checkout", "-q", "master")
        (other / "other.txt").write_bytes(b"pushed by somebody else")
        git(other, "add", "-A")
        git(other, "commit", "-q", "-m", "somebody else")
        git(other, "push", "-q", "origin", "master")
        shutil.rmtree(other, ignore_errors=True)
    elif situation == "declines":
        hook = bare / "hooks" / "pre-receive"
        hook.write_text("#!/bin/sh\necho 'declined by pre-receive hook' >&2\nexit 1\n")
        hook.chmod(0o755)
    return bare


# ------------------------------------------------------------------ driving the handler


class GitShim:
    """Replaces handler._git: records every command, fails the scheduled one (before it runs)."""

    def __init__(self, fh):
        self.fh = fh
        self.real = fh._git
        self.calls: list[list[str]] = []
        self.fail_at: int | None = None
        self.failed: list[str] | None = None
        self.commit_shas: list[str] = []
        fh._git = self

    def reset(self, fail_at):
        self.calls, self.fail_at, self.failed = [], fail_at, None

    def __call__(self, *cmd, **kw):
        words = [str(c) for c in cmd]
        i = len(self.calls)
        self.calls.append(words)
        if self.fail_at is not None and i == self.fail_at:
            self.failed = words
            raise subprocess.CalledProcessError(128, ["git", *words], b"", b"injected failure")
        out = self.real(*cmd, **kw)
        if words[0] == "commit-tree":
            self.commit_shas.append((out if isinstance(out, str) else out.decode()).strip())
        return out


def canon_cmd(words: list[str], subdir: str) -> str:
    w0 = words[0]
    if w0 == "rev-parse":
        return "rev-parse " + " ".join(words[1:])
    if w0 == "add":
        return "add " + words[1]
    if w0 == "reset":
        return "reset " + words[1]
    if w0 == "clean":
        return "clean"
    if w0 == "update-ref":
        return "update-ref " + words[2]
    if w0 == "cat-file":
        return "cat-file"
    if "push" in words[:3]:
        return "push " + words[-1]
    return w0


def txn_opts(txn: dict) -> dict:
    opts = dict(push=bool(txn.get("push")))
    for k in ("dry_run", "ignore_empty", "remote_branch", "author_name", "author_email", "commit_msg", "push_options"):
        if txn.get(k) is not None:
            opts[k] = txn[k]
    return opts


def run_body(fh, cm, body, keep: list, pool=()) -> None:
    """`with cm: body` - the caller catches whatever comes out"""
    with cm as unused:
        assert "some_unknown_option" in unused
        for op in body:
            k = op[0]
            if k == "w":
                with fh.open(op[1], "wb") as f:
                    f.write(op[2])
            elif k == "wp":  # abort in the middle of writing a file
                with fh.open(op[1], "wb") as f:
                    f.write(op[2])
                    raise Abort("mid-write")
            elif k == "open":  # written, never closed
                f = fh.open(op[1], "wb")
                f.write(op[2])
                f.flush()
                keep.append(f)
            elif k == "raise":
                raise Abort("between writes")
            elif k == "nested":
                with fh.write_transaction(push=False):
                    pass
            elif k == "enter":  # entering a transaction object made earlier (possibly this very one) while one is open
                with pool[op[1]]:
                    pass


def close_kept(keep: list) -> None:
    for f in keep:
        with contextlib.suppress(Exception):
            common.get_private(f, "_WritableGitFile__file", lambda v: hasattr(v, "write") and hasattr(v, "close")).close()


def run_txn(fh, shim: GitShim, txn: dict) -> dict:
    """Run one transaction description on the handler; returns what the caller saw."""
    opts = txn_opts(txn)
    shim.reset(txn.get("git_fault"))
    seen = None
    keep = []  # files deliberately left open
    phase = "init"
    try:
        cm = fh.write_transaction(**opts, some_unknown_option=1)
        phase = "body"
        run_body(fh, cm, txn["body"], keep)
        phase = "exit"
    except BaseException as e:  # noqa: BLE001
        seen = e
    close_kept(keep)
    return dict(seen=seen, phase=phase, calls=list(shim.calls), failed=shim.failed)


def create_step(fh, shim: GitShim, txn: dict) -> dict:
    """`tx = fh.write_transaction(**opts)`: only makes the object"""
    shim.reset(None)
    seen, cm = None, None
    try:
        cm = fh.write_transaction(**txn_opts(txn), some_unknown_option=1)
    except BaseException as e:  # noqa: BLE001
        seen = e
    return dict(seen=seen, phase="init", calls=list(shim.calls), failed=shim.failed, cm=cm)


def run_step(fh, shim: GitShim, cm, step: dict, pool) -> dict:
    """`with tx: body` on an object made earlier"""
    shim.reset(step.get("git_fault"))
    seen = None
    keep = []
    try:
        run_body(fh, cm, step["body"], keep, pool)
    except BaseException as e:  # noqa: BLE001
        seen = e
    close_kept(keep)
    return dict(seen=seen, phase="body", calls=list(shim.calls), failed=shim.failed)


def err_kind(e) -> str | None:
    if e is None:
        return None
    if isinstance(e, Abort):
        return "abort"
    if isinstance(e, subprocess.CalledProcessError):
        return "gitfail"
    if isinstance(e, ValueError):
        return "objectlike"
    if isinstance(e, RuntimeError):
        return "alreadyOpen"
    if isinstance(e, FileNotFoundError):
        return "nodir"
    return type(e).__name__


# ------------------------------------------------------------------ monitor


def monitor_txn(out: Outcome, hdesc: dict, seq_so_far: list, txn: dict, res: dict, pre: dict, post: dict, repo, wt, fh) -> None:
    sub = hdesc["subdir"].strip("/")

    def full(p):
        return (sub + "/" + p) if sub else p

    seen = res["seen"]
    kind = err_kind(seen)
    cause = kind or ("dry-run" if txn.get("dry_run") else "commit")
    if res["failed"]:
        f0 = "push" if "push" in res["failed"][:3] else res["failed"][0]
        cause = "gitfail:" + f0 + ("-" + res["failed"][1] if res["failed"][0] == "reset" else "")
    elif isinstance(seen, subprocess.CalledProcessError) and "push" in [str(c) for c in (seen.cmd or [])]:
        cause = "push-refused:" + str(hdesc.get("remote"))
    if txn.get("prepared"):
        cause += "@prepared"   # a transaction object made earlier (other transactions may have run in between), entered now
    replay = {"handler": hdesc, "sequence": seq_so_far}

    def find(cls, msg):
        out.find(f"GitFileHandler.transaction|{cls}|{cause}", f"{msg}; handler={hdesc} txn={describe(txn)}", replay)

    if fh._transaction is not None:
        find("txn-stuck", "handler still has an open transaction")
    target = txn.get("remote_branch") or hdesc["revision_full"]
    if not target.startswith("refs/heads/"):
        target = "refs/heads/" + target
    written = {}
    for op in txn["body"]:
        if op[0] == "w" and not is_ignored(full(op[1])):
            written[full(os.path.normpath(op[1]))] = op[2]
    committed_expected = seen is None and not txn.get("dry_run")
    ref_moved = post["refs"] != pre["refs"]
    if post["main_head"] != pre["main_head"]:
        find("main-head-moved", "the repository's own HEAD changed")
    # --- the remote: exactly one commit becomes visible there, or none
    if "remote_refs" in pre:
        rnew = post["remote_all"] - pre["remote_all"]
        rdiff = diffrefs(pre["remote_refs"], post["remote_refs"])
        lnew = post["all"] - pre["all"]
        if not (committed_expected and txn.get("push")):
            if rdiff or rnew:
                find("remote-changed", f"remote refs changed although nothing was (to be) pushed: {rdiff}, {len(rnew)} new commits")
        elif lnew:  # a save with push=True that went through and created a commit
            # the new commit becomes visible on the remote, together with at most its own not yet pushed ancestors
            anc = set(git(repo, "rev-list", next(iter(lnew))).split()) if len(lnew) == 1 else set()
            if len(lnew) != 1 or not lnew <= rnew or not rnew <= anc:
                find("remote-commit-count", f"{len(rnew)} new commits visible on the remote, {len(lnew)} created locally, not the new commit plus its ancestors")
            else:
                (n_,) = lnew
                exp = dict(pre["remote_refs"])
                exp[target] = n_
                if post["remote_refs"] != exp:
                    find("remote-wrong-ref", f"remote refs after push: {rdiff}, expected only {target} -> new commit")
                if post["refs"].get(target) != post["remote_refs"].get(target):
                    find("remote-differs-from-local", f"{target} differs between local repository and remote after a successful push")
        elif rdiff or rnew:
            find("remote-changed", f"an empty save changed the remote: {rdiff}")
    # the update-ref that puts the branch back after a refused push was itself refused: nothing can restore the ref then
    restore_failed = bool(res["failed"]) and res["failed"][0] == "update-ref" and any("push" in c[:3] for c in res["calls"])
    if not committed_expected:
        if ref_moved and not (restore_failed and set(diffrefs(pre["refs"], post["refs"])) == {target}):
            find("ref-moved", f"refs changed although the transaction was aborted/dry-run: {diffrefs(pre['refs'], post['refs'])}")
        rollback_failed = res["failed"] and (res["failed"][:2] == ["reset", "--hard"] or res["failed"][0] == "clean")
        if post["head"] != pre["head"] and not (rollback_failed and res["failed"][:2] == ["reset", "--hard"]):
            find("head-moved", f"work tree HEAD moved {pre['head'][:8]} -> {post['head'][:8]}")
        if post["status"] != "" and not rollback_failed:  # if the roll-back command itself is refused nothing can restore
            find("worktree-dirty", f"work tree not restored, status: {post['status']!r}")
        return
    # --- a save that went through
    parent_tree = tree_of(repo, pre["head"])
    changed = {p for p, b in written.items() if parent_tree.get(p) != b}
    new = post["all"] - pre["all"]
    if not changed and txn.get("ignore_empty", True):
        if ref_moved or new:
            find("empty-commit", f"a save that changed no file created a commit / moved a ref: {diffrefs(pre['refs'], post['refs'])}")
        if post["head"] != pre["head"] or post["status"] != "":
            find("worktree-dirty", f"work tree changed by an empty save: status {post['status']!r}")
        return
    exp_refs = dict(pre["refs"])
    if len(new) != 1:
        find("commit-count", f"{len(new)} new commits reachable from refs, expected exactly one")
        return
    (n,) = new
    exp_refs[target] = n
    if post["refs"] != exp_refs:
        find("wrong-ref", f"refs after: {diffrefs(pre['refs'], post['refs'])}, expected only {target} -> new commit")
    # nothing falls off: what was reachable from the refs stays reachable (re-pointing an existing branch that is not
    # behind the handler's HEAD - the documented use of remote_branch - is the only way a save may drop commits)
    lost = pre["all"] - post["all"]
    old_t = pre["refs"].get(target)
    if lost and (old_t is None or old_t in set(git(repo, "rev-list", pre["head"]).split())):
        find("commit-lost", f"{len(lost)} commit(s) that were reachable before the save are not reachable any more: {sorted(x[:8] for x in lost)}")
    info = commit_info(repo, n)
    if info["parents"] != [pre["head"]]:
        which = "remote_branch" if txn.get("remote_branch") else "plain"
        if txn.get("prepared"):
            which += "-prepared"
        out.find(f"GitFileHandler.transaction|parent-not-head|{which}",
                 f"new commit's parent is {[p[:8] for p in info['parents']]}, the handler was at {pre['head'][:8]}; handler={hdesc} txn={describe(txn)}",
                 replay)
    ptree = tree_of(repo, info["parents"][0]) if info["parents"] else {}
    ntree = tree_of(repo, n)
    diff = {p for p in set(ptree) | set(ntree) if ptree.get(p) != ntree.get(p)}
    extra = diff - set(written)
    if extra:
        find("tree-extra-files", f"new tree differs from its parent in files not written in this transaction: {sorted(extra)}")
    for p, b in written.items():
        if ntree.get(p) != b:
            find("wrong-bytes", f"{p} in the new commit does not hold the written bytes")
    if txn.get("commit_msg") is not None and info["msg"] != txn["commit_msg"]:
        find("wrong-message", f"commit message {info['msg']!r}")
    if txn.get("author_name") and info.get("author", ("", ""))[0] != txn["author_name"]:
        find("wrong-author", f"author {info.get('author')}")
    if txn.get("author_email") and info.get("author", ("", ""))[1] != txn["author_email"]:
        find("wrong-author", f"author {info.get('author')}")
    if post["head"] != n:
        find("head-not-new", "work tree HEAD is not the new commit")
    if post["status"] != "":
        find("worktree-dirty", f"work tree dirty after commit: {post['status']!r}")


def monitor_create(out: Outcome, hdesc: dict, seq_so_far: list, txn: dict, res: dict, pre: dict, post: dict, fh) -> None:
    """`handler.write_transaction(**opts)` only makes an object: nothing in the repository, the work tree or the handler
    may change, and the only error is the refusal of an object-like target."""
    replay = {"handler": hdesc, "sequence": seq_so_far}
    seen = res["seen"]
    if seen is not None and not isinstance(seen, ValueError):
        out.find("GitFileHandler.write_transaction|create-raises", f"making a transaction object raised {seen!r}; handler={hdesc} txn={describe(txn)}", replay)
    changed = [k for k in pre if pre[k] != post.get(k)]
    if changed or fh._transaction is not None:
        out.find("GitFileHandler.write_transaction|create-touches-repository",
                 f"making a transaction object changed {changed or 'the handler (transaction open)'}; handler={hdesc} txn={describe(txn)}", replay)


def diffrefs(a, b):
    return {k: (a.get(k, "-")[:8], b.get(k, "-")[:8]) for k in sorted(set(a) | set(b)) if a.get(k) != b.get(k)}


def describe(txn: dict) -> str:
    d = {k: v for k, v in txn.items() if k != "body" and v is not None}
    d["body"] = [[o[0], *[x if isinstance(x, (str, int)) else repr(x)[1:] for x in o[1:]]] for o in txn["body"]]
    return str(d)


# ------------------------------------------------------------------ generators

PATHS_OLD = ["a.txt", "b.txt", "sub/c.txt", "sub/deep/d.txt"]
PATHS_NEW = ["new.txt", "sub/new2.txt", "sub/deep/./n3.txt", "junk.tmp", "sub/cache.tmp"]
PATH_NODIR = "nodir/x.txt"
HANDLERS = [
    dict(revision="master", subdir="/"),
    dict(revision="master", subdir="sub"),
    dict(revision="refs/heads/feature/x", subdir="/"),
    dict(revision="dev", subdir="/"),
    dict(revision="v1", subdir="/"),
]
REMOTE_BRANCHES = [None, None, "out", "feature/y", "refs/heads/z", "dev"]
OBJECTLIKE = ["deadbeef", "ORIG_HEAD", "x/HEAD", "feature/abcd", "HEAD"]


def rel_paths(hdesc):
    if hdesc["subdir"] == "sub":
        return ["c.txt", "deep/d.txt"], ["new2.txt", "deep/./n3.txt", "cache.tmp"], PATH_NODIR
    return PATHS_OLD, PATHS_NEW, PATH_NODIR


def rand_body(ctx: Ctx, hdesc, current: dict[str, bytes]) -> list:
    rng = ctx.rng
    old, new, _ = rel_paths(hdesc)
    body = []
    for _ in range(rng.randint(0, 4)):
        p = rng.choice(old + new)
        r = rng.random()
        sub = hdesc["subdir"].strip("/")
        fullp = os.path.normpath((sub + "/" + p) if sub else p)
        if r < 0.25 and fullp in current:
            data = current[fullp]  # unchanged
        else:
            data = rng.choice([b"x", b"yy", b"", b"zzz\n", b"\xc3\xa9\x00\xff"]) + str(rng.randint(0, 9)).encode()
        body.append(("w", p, data))
    return body


def rand_txn(ctx: Ctx, hdesc, current) -> dict:
    rng = ctx.rng
    t = dict(dry_run=rng.random() < 0.25, ignore_empty=rng.random() < 0.7,
             remote_branch=rng.choice(REMOTE_BRANCHES), commit_msg=rng.choice(["msg one", "second\n\nbody line", None]),
             author_name=rng.choice([None, "Ada L"]), author_email=rng.choice([None, "ada@example.invalid"]),
             body=rand_body(ctx, hdesc, current), git_fault=None)
    r = rng.random()
    if r < 0.2:
        k = rng.randint(0, len(t["body"]))
        t["body"] = t["body"][:k] + [("raise",)]
    elif r < 0.3:
        t["git_fault"] = rng.randint(0, 8)
    elif r < 0.35:
        t["remote_branch"] = rng.choice(OBJECTLIKE)
    return t


def prepared_histories(ctx: Ctx, hdesc) -> list[list[dict]]:
    """Histories in which making a transaction object (`tx = fh.write_transaction(...)`) and entering it (`with tx:`) are
    separated by other transactions on the same handler: several prepared objects entered one after the other, in
    either order, one object entered several times, with aborts, dry runs, failing git commands and idiomatic
    transactions in between, and an object entered while a transaction is open."""
    rng = ctx.rng
    old, new, _nodir = rel_paths(hdesc)

    def C(**o):
        return dict(o, step="create", body=[])

    def R(i, body, fault=None):
        return dict(step="run", tx=i, body=body, git_fault=fault)

    w0, w1, wn = ("w", old[0], b"A1"), ("w", old[-1], b"B1"), ("w", new[0], b"N1")
    plain = dict(body=[("w", old[0], b"plain")], commit_msg="idiomatic", git_fault=None)
    hs = [
        [C(commit_msg="A"), C(commit_msg="B"), R(0, [w0]), R(1, [w1])],                      # make A, make B, enter A, enter B
        [C(commit_msg="A"), C(commit_msg="B"), R(1, [w1]), R(0, [w0]), R(1, [wn])],          # the other order, B once more
        [C(commit_msg="A"), R(0, [w0]), R(0, [("w", old[0], b"A2")]), R(0, [("w", old[0], None)])],   # one object three times (last: unchanged)
        [C(), C(), R(0, [w0]), R(1, [w1, ("raise",)]), R(1, [w1])],                          # abort of a prepared one after another save
        [C(), C(dry_run=True), R(0, [w0]), R(1, [w1]), R(0, [wn])],                          # dry run in between
        [C(commit_msg="A"), plain, R(0, [w1])],                                              # made before an idiomatic save
        [C(), C(), R(0, [w0]), dict(plain, dry_run=True), R(1, [("wp", old[-1], b"half")]), R(0, [wn])],
        [C(remote_branch="out"), C(remote_branch="out"), R(0, [w0]), R(1, [w1])],            # both to the same other branch
        [C(remote_branch="out"), C(), R(0, [w0]), R(1, [w1]), R(0, [wn])],
        [C(), R(0, [w0, ("enter", 0), w1]), R(0, [w1])],                                     # entering itself while open
        [C(), C(), R(0, [w0]), R(1, [w1, ("enter", 0)]), R(1, [wn])],
        [C(ignore_empty=False), C(), R(1, [w0]), R(0, []), R(0, [])],                        # empty commits on top of each other
        [C(remote_branch=OBJECTLIKE[0]), C(), R(0, [w0])],                                   # a refused creation leaves no object
    ]
    for j in range(0, 9):   # every git command of the second prepared transaction, then the first object once more
        hs.append([C(), C(), R(0, [w0]), R(1, [w1, wn], fault=j), R(0, [("w", old[0], b"after")])])
    for _ in range(ctx.pick(6, 80)):
        h, made = [], 0
        current = dict(INITIAL_FILES)
        for _ in range(rng.randint(3, 8)):
            r = rng.random()
            if made == 0 or (r < 0.3 and made < 3):
                t = rand_txn(ctx, hdesc, current)
                h.append(C(**{k: t[k] for k in ("dry_run", "ignore_empty", "remote_branch", "commit_msg", "author_name", "author_email")}))
                if t["remote_branch"] not in OBJECTLIKE:
                    made += 1
            elif r < 0.4:
                t = rand_txn(ctx, hdesc, current)
                if t["remote_branch"] in OBJECTLIKE:
                    t["remote_branch"] = None
                h.append(t)
            else:
                t = rand_txn(ctx, hdesc, current)
                body = t["body"]
                if rng.random() < 0.1:
                    body = body[:1] + [("enter", rng.randrange(made))] + body[1:]
                h.append(R(rng.randrange(made), body, t["git_fault"]))
        hs.append(h)
    return hs


def systematic(ctx: Ctx, hdesc) -> list[list[dict]]:
    """Abort at every point / fail every git command of one representative body, then a plain commit."""
    old, new, nodir = rel_paths(hdesc)
    base_body = [("w", old[0], b"mod1"), ("w", new[0], b"new1"), ("w", old[-1], b"d0" if old[-1].endswith("d.txt") else b"mod2")]
    follow = dict(body=[("w", old[0], b"after")], commit_msg="follow-up", git_fault=None)
    seqs = []
    optsets = [dict(), dict(dry_run=True), dict(remote_branch="out"), dict(ignore_empty=False)]
    if not ctx.thorough:
        optsets = optsets[: 1 if hdesc["revision"] != "master" else 3]
    for o in optsets:
        # aborts in the body
        for k in range(len(base_body) + 1):
            seqs.append([dict(o, body=base_body[:k] + [("raise",)], git_fault=None), follow])
        for k in range(len(base_body)):
            seqs.append([dict(o, body=base_body[:k] + [("wp", base_body[k][1], b"par")], git_fault=None), follow])
        seqs.append([dict(o, body=[base_body[0], ("open", new[0], b"left open"), ("raise",)], git_fault=None), follow])
        seqs.append([dict(o, body=[base_body[0], ("nested",), base_body[1]], git_fault=None), follow])
        seqs.append([dict(o, body=[base_body[0], ("w", nodir, b"x")], git_fault=None), follow])
        ign = [p for p in new if is_ignored(p)][0]
        seqs.append([dict(o, body=[base_body[0], ("w", ign, b"ignored by .gitignore")], git_fault=None), follow])
        seqs.append([dict(o, body=[("open", ign, b"ignored, left open"), base_body[0], ("raise",)], git_fault=None), follow])
        seqs.append([dict(o, body=[("wp", ign, b"ign")], git_fault=None), follow])
        # every git command
        for j in range(0, 12):
            seqs.append([dict(o, body=list(base_body), git_fault=j), follow])
        # plain, and twice in a row
        seqs.append([dict(o, body=list(base_body), git_fault=None), dict(o, body=[("w", old[0], b"second")], git_fault=None), follow])
        seqs.append([dict(o, body=[], git_fault=None), follow])
        seqs.append([dict(o, body=[("w", old[0], None)], git_fault=None), follow])  # None -> current content (unchanged)
    for rb in OBJECTLIKE:
        seqs.append([dict(remote_branch=rb, body=list(base_body), git_fault=None), follow])
    return seqs


def push_sequences(ctx: Ctx) -> list[tuple[dict, list[dict]]]:
    """Transactions with push=True against a bare `origin`: fast-forward (accepted), diverged remote branch (non-fast-forward:
    rejected), a remote that declines (pre-receive hook), no remote at all, new remote branches, dry-run / empty / aborted
    saves with push=True (nothing may reach the remote), a failure injected at every git command, each followed by a
    plain local commit and a second push on the same handler."""
    out = []
    body = [("w", "a.txt", b"pushed1"), ("w", "new.txt", b"new1")]
    follow_local = dict(body=[("w", "a.txt", b"after")], commit_msg="follow-up, not pushed", git_fault=None)
    follow_push = dict(body=[("w", "b.txt", b"after2")], commit_msg="follow-up, pushed", git_fault=None, push=True)
    handlers = [dict(revision="master", subdir="/"), dict(revision="refs/heads/feature/x", subdir="/"), dict(revision="master", subdir="sub")]
    for situation in ("insync", "diverged", "declines", "none"):
        for hdesc in (handlers if ctx.thorough else handlers[:1]):
            hd = dict(hdesc, remote=situation)
            b = body if hdesc["subdir"] == "/" else [("w", "c.txt", b"pushed1"), ("w", "new2.txt", b"new1")]
            fl = follow_local if hdesc["subdir"] == "/" else dict(follow_local, body=[("w", "c.txt", b"after")])
            fp = follow_push if hdesc["subdir"] == "/" else dict(follow_push, body=[("w", "deep/d.txt", b"after2")])
            optsets = [dict(), dict(remote_branch="out"), dict(remote_branch="dev"), dict(ignore_empty=False), dict(dry_run=True)]
            if not ctx.thorough:
                optsets = optsets if situation == "insync" else optsets[:3] if situation == "diverged" else optsets[:1]
            for o in optsets:
                out.append((hd, [dict(o, push=True, body=list(b), git_fault=None), fl, fp]))
                if ctx.thorough or situation in ("insync", "diverged"):
                    out.append((hd, [dict(o, push=True, body=list(b), git_fault=None), dict(o, push=True, body=[(b[0][0], b[0][1], b"again")], git_fault=None)]))
                if ctx.thorough or situation == "insync":
                    out.append((hd, [dict(o, push=True, body=list(b) + [("raise",)], git_fault=None), fp]))
                    out.append((hd, [dict(o, push=True, body=[(b[0][0], b[0][1], None)], git_fault=None), fp]))  # unchanged
            # every git command of a pushing transaction, the restoring update-ref and the roll-back included
            for j in (range(0, 14) if ctx.thorough or situation in ("insync", "diverged") else range(6, 13)):
                out.append((hd, [dict(push=True, body=list(b), git_fault=j), fl, fp]))
                if ctx.thorough:
                    out.append((hd, [dict(remote_branch="out", push=True, body=list(b), git_fault=j), fp]))
    rng = ctx.rng
    for _ in range(ctx.pick(10, 120)):
        hd = dict(rng.choice(handlers), remote=rng.choice(["insync", "insync", "diverged", "declines", "none"]))
        current = dict(INITIAL_FILES)
        seq = []
        for _ in range(rng.randint(1, 4)):
            t = rand_txn(ctx, hd, current)
            t["push"] = rng.random() < 0.7
            if t["remote_branch"] in OBJECTLIKE and rng.random() < 0.5:
                t["remote_branch"] = None
            seq.append(t)
        out.append((hd, seq))
    return out


# ------------------------------------------------------------------ model protocol


def to_model_txn(txn: dict, hdesc) -> dict:
    sub = hdesc["subdir"].strip("/")

    def full(p):
        return os.path.normpath((sub + "/" + p) if sub else p)

    body = []
    for o in txn["body"]:
        if o[0] == "enter":   # `__enter__` of another (or the same) object while a transaction is open: as `nested`, minus `__init__`
            body.append(["nested"])
        elif len(o) == 1:
            body.append([o[0]])
        elif o[1].startswith("nodir/"):
            body.append(["wnodir", full(o[1]), []])
        elif o[0] in ("w", "wp") and is_ignored(full(o[1])):
            body.append(["wign", full(o[1]), list(o[2])])
        else:
            body.append([o[0], full(o[1]), list(o[2])])
    m = {"dry": bool(txn.get("dry_run")), "ignore_empty": txn.get("ignore_empty", True) is not False,
         "remote_branch": txn.get("remote_branch"), "fault": txn.get("git_fault"), "body": body,
         "push": bool(txn.get("push")), "remote_declines": hdesc.get("remote") in ("declines", "none")}
    if txn.get("step"):
        m["step"] = txn["step"]
        if txn["step"] == "run":
            m["tx"] = txn["tx"]
    return m


class Ids:
    def __init__(self):
        self.map: dict[str, int] = {}

    def of(self, sha):
        return self.map.get(sha, f"?{sha[:8]}")


def canon_state(repo, wt, ids: Ids, bare=None) -> dict:
    idx = index_of(wt)
    files = worktree_files(wt)
    return {
        "remote": None if bare is None else sorted([n, ids.of(h)] for n, h in refs_of(bare).items()),
        "refs": sorted([n, ids.of(h)] for n, h in refs_of(repo).items() if not n.startswith("refs/tags/") or True),
        "head": ids.of(git(wt, "rev-parse", "HEAD").strip()),
        "index": sorted([p, list(b)] for p, b in idx.items()),
        "files": sorted([p, list(b)] for p, b in files.items()),
    }


def run_sequence(ctx: Ctx, out: Outcome, base_repo: pathlib.Path, hdesc: dict, seq: list[dict], n: int, fg, reqs, obss, metas):
    repo = ctx.scratch / f"r{n}"
    shutil.copytree(base_repo, repo, symlinks=True)
    rev = hdesc["revision"]
    bare = make_remote(ctx, repo, n, hdesc["remote"]) if hdesc.get("remote") else None
    fh = fg.GitFileHandler(str(repo), rev, subdir=hdesc["subdir"])
    wt = fh.cache_dir
    hd = dict(hdesc, revision_full=fh.revision)
    shim = GitShim(fh)
    # canonical commit ids: existing commits in topological order, then every commit-tree in call order
    ids = Ids()
    for i, sha in enumerate(git(repo, "rev-list", "--all", "--topo-order", "--reverse").split()):
        ids.map[sha] = i
    if bare is not None:  # commits only the remote has (pushed there by somebody else)
        for sha in git(bare, "rev-list", "--all", "--topo-order", "--reverse").split():
            ids.map.setdefault(sha, len(ids.map))
    init_commits = []
    for sha, i in sorted(ids.map.items(), key=lambda kv: kv[1]):
        where = repo if git(repo, "cat-file", "-t", sha, check=False).strip() == "commit" else bare
        info = commit_info(where, sha)
        init_commits.append({"parent": ids.map[info["parents"][0]] if info["parents"] else None,
                             "tree": sorted([p, list(b)] for p, b in tree_of(where, sha).items())})
    init_state = canon_state(repo, wt, ids, bare)
    model_txns, impl_steps, done = [], [], []
    tainted = False
    pool_heads: list[str] = []
    pool_cms, pool_opts = [], []   # the transaction objects made so far (a refused creation leaves none), as in the model
    try:
        for txn in seq:
            txn = dict(txn)
            stepk = txn.get("step")
            txn.setdefault("body", [])
            # "None" data = the current content of that path (an unchanged write)
            cur = worktree_files(wt)
            sub = hd["subdir"].strip("/")
            body = []
            for op in txn["body"]:
                if len(op) == 3 and op[2] is None:
                    fp = os.path.normpath((sub + "/" + op[1]) if sub else op[1])
                    op = (op[0], op[1], cur.get(fp, b"?"))
                body.append(op)
            txn["body"] = body
            pre = observe(repo, wt, bare)
            judged = txn
            if stepk == "create":
                res = create_step(fh, shim, txn)
                if res["cm"] is not None:
                    pool_heads.append(pre["head"])   # harness bookkeeping only (coverage counter)
                    pool_cms.append(res["cm"])
                    pool_opts.append({k: v for k, v in txn.items() if k not in ("step", "body", "git_fault")})
            elif stepk == "run":
                res = run_step(fh, shim, pool_cms[txn["tx"]], txn, pool_cms)
                judged = {**pool_opts[txn["tx"]], "body": txn["body"], "git_fault": txn.get("git_fault"), "prepared": True}
            else:
                res = run_txn(fh, shim, txn)
            post = observe(repo, wt, bare)
            for sha in shim.commit_shas:
                ids.map.setdefault(sha, len(ids.map))
            done.append(jsonable(txn))
            if not tainted and stepk == "create":
                monitor_create(out, hd, list(done), txn, res, pre, post, fh)
            elif not tainted:
                monitor_txn(out, hd, list(done), judged, res, pre, post, repo, wt, fh)
            if res["failed"] and (res["failed"][:2] == ["reset", "--hard"] or res["failed"][0] == "clean"):
                tainted = True  # the roll-back command itself was refused: nothing can have restored the work tree
            # write without a transaction is refused
            try:
                fh.open(rel_paths(hd)[0][0], "wb")
                out.find("GitFileHandler.open|write-without-transaction", "open(..., 'wb') outside a transaction was accepted", {"handler": hd, "sequence": list(done)})
            except Exception as e:  # noqa: BLE001
                if type(e).__name__ != "TransactionClosedError":
                    out.find("GitFileHandler.open|write-without-transaction", f"raised {e!r}", {"handler": hd, "sequence": list(done)})
            if fh._transaction is not None:
                fh._transaction = None
            model_txns.append(to_model_txn(txn, hd))
            st = canon_state(repo, wt, ids, bare)
            st["err"] = err_kind(res["seen"])
            st["trace"] = [canon_cmd(w, hd["subdir"]) for w in res["calls"]]
            st["ncommits"] = len(ids.map)
            st["newcommits"] = []
            for sha in shim.commit_shas:
                info = commit_info(repo, sha)
                st["newcommits"].append([ids.of(info["parents"][0]) if info["parents"] else None,
                                         sorted([p, list(b)] for p, b in tree_of(repo, sha).items())])
            impl_steps.append(st)
            out.hit(("prepared:" if stepk == "run" else "create:" if stepk == "create" else "outcome:")
                    + (st["err"] or ("dry" if judged.get("dry_run") else "ok")))
            if stepk == "run" and pre["head"] != pool_heads[txn["tx"]]:
                out.hit("prepared:entered-after-head-moved")
            if res["failed"]:
                out.hit("gitfail:" + res["failed"][0])
            key = (hd["revision"], hd["subdir"], repr(done))
            nontrivial = bool(txn["body"]) or txn.get("git_fault") is not None or stepk == "create"
            out.case(key, {"handler": hd, "txn": describe(txn), "err": st["err"], "trace": st["trace"]} if len(out.samples) < 4 and res["failed"] else None, nontrivial)
            out.traces_validated += 1
    finally:
        fh._git = shim.real
        finalize_handler(fh)  # remove the private work tree now (normally done when the handler is collected)
    revision_is_hash = bool(re.fullmatch(r"[0-9a-f]{40}", hd["revision_full"]))
    reqs.append({"op": "git.run", "commits": init_commits, "state": init_state, "revision": hd["revision_full"],
                 "revision_is_hash": revision_is_hash, "subdir": hd["subdir"].strip("/"), "txns": model_txns})
    obss.append(impl_steps)
    metas.append({"handler": hd, "sequence": done})
    shutil.rmtree(repo, ignore_errors=True)
    if bare is not None:
        shutil.rmtree(bare, ignore_errors=True)


def jsonable(txn):
    t = dict(txn)
    t["body"] = [[o[0], *[x if isinstance(x, (str, int)) else (None if x is None else list(x)) for x in o[1:]]] for o in txn["body"]]
    return t


def unjson(txn):
    t = dict(txn)
    t["body"] = [tuple([o[0], *[x if isinstance(x, (str, int)) or x is None else bytes(x) for x in o[1:]]]) for o in txn["body"]]
    return t


def setup_env(ctx: Ctx):
    os.environ["XDG_CACHE_HOME"] = str(ctx.scratch / "xdg")
    for k, v in GITENV.items():
        os.environ[k] = v
    sys.path.insert(0, str(common.REPO))
    from capellambse.filehandler import git as fg
    import logging

    lg = logging.getLogger("capellambse.filehandler.git")  # git's stderr for refused commands is expected noise here
    lg.addHandler(logging.NullHandler())
    lg.propagate = False

    # the module computed its cache location at import time; make sure it is under scratch
    if not str(fg.WTBASE).startswith(str(ctx.scratch)):
        fg.WTBASE = pathlib.Path(ctx.scratch, "xdg", "capellambse", "worktrees")
        fg.CACHEBASE = pathlib.Path(ctx.scratch, "xdg", "capellambse", "models")
    return fg


def model_stream(ctx: Ctx, out: Outcome, fg) -> None:
    """A real model saved through MelodyModel.save into a git repository."""
    import capellambse

    repo = ctx.scratch / "modelrepo"
    repo.mkdir()
    git(repo, "-c", "init.defaultBranch=master", "init", "-q")
    git(repo, "config", "user.name", "Repo User")
    git(repo, "config", "user.email", "repo@example.invalid")
    data = common.REPO / "tests" / "data" / "writemodel"
    if not data.exists():
        data = pathlib.Path("/repo/tests/data/writemodel")
    for f in data.iterdir():
        if not f.name.endswith(".license"):
            shutil.copy(f, repo / f.name)
    git(repo, "add", "-A")
    git(repo, "commit", "-q", "-m", "model")
    m = capellambse.MelodyModel("git+" + str(repo), entrypoint="WriteTestModel.aird", revision="master")
    fh = m._loader.filehandler
    wt = fh.cache_dir
    hd = {"revision": "master", "subdir": "/", "revision_full": fh.revision, "stream": "MelodyModel.save"}
    steps = [dict(kind="noop"), dict(kind="edit"), dict(kind="dry"), dict(kind="edit"), dict(kind="fail"), dict(kind="edit")]
    done = []
    for i, st in enumerate(steps):
        pre = observe(repo, wt)
        before_tree = tree_of(repo, pre["head"])
        seen = None
        if st["kind"] in ("edit", "dry", "fail"):
            m.la.root_component.name = f"renamed {i}"
        from capellambse.loader import exs
        saved = exs.serialize
        try:
            if st["kind"] == "fail":
                calls = [0]

                def boom(*a, **k):
                    calls[0] += 1
                    if calls[0] == 2:
                        raise ValueError("injected serializer failure")
                    return saved(*a, **k)

                exs.serialize = boom
            m.save(push=False, dry_run=st["kind"] == "dry", commit_msg=f"save {i}")
        except BaseException as e:  # noqa: BLE001
            seen = e
        finally:
            exs.serialize = saved
        post = observe(repo, wt)
        done.append(st)
        out.case(("model", i, st["kind"]), None, True)
        out.hit("model-save:" + st["kind"])
        cause = st["kind"]
        rp = {"handler": hd, "sequence": done, "model_stream": True}

        def find(cls, msg):
            out.find(f"GitFileHandler.transaction|{cls}|model-{cause}", f"{msg}; MelodyModel.save step {i} ({st['kind']})", rp)

        if st["kind"] in ("noop", "dry", "fail"):
            if st["kind"] == "fail" and not isinstance(seen, ValueError):
                find("error-masked", f"caller saw {seen!r}")
            if post["refs"] != pre["refs"]:
                find("ref-moved", f"refs changed: {diffrefs(pre['refs'], post['refs'])}")
            if post["head"] != pre["head"] or post["status"] != "":
                find("worktree-dirty", f"work tree not restored: {post['status']!r}")
        else:
            new = post["all"] - pre["all"]
            if seen is not None or len(new) != 1:
                find("commit-count", f"{len(new)} new commits, error {seen!r}")
                continue
            (n,) = new
            info = commit_info(repo, n)
            if info["parents"] != [pre["head"]]:
                find("parent-not-head", "wrong parent")
            nt = tree_of(repo, n)
            diff = {p for p in set(nt) | set(before_tree) if nt.get(p) != before_tree.get(p)}
            if diff != {"WriteTestModel.capella"}:
                find("tree-extra-files", f"commit changes {sorted(diff)}, only the .capella file was modified")
            if post["refs"].get("refs/heads/master") != n or post["status"] != "" or post["head"] != n:
                find("wrong-ref", "master/HEAD/status wrong after save")
    finalize_handler(fh)


def run(ctx: Ctx) -> Outcome:
    fg = setup_env(ctx)
    out = Outcome(rule=RULE)
    base = make_repo(ctx.scratch / "base")
    reqs, obss, metas = [], [], []
    n = 0
    handlers = HANDLERS if ctx.thorough else HANDLERS[:3]
    for hdesc in handlers:
        for seq in systematic(ctx, hdesc):
            n += 1
            run_sequence(ctx, out, base, hdesc, seq, n, fg, reqs, obss, metas)
    # a handler on a commit hash: needs remote_branch
    sha = git(base, "rev-parse", "dev").strip()
    for rb in (None, "fromhash"):
        n += 1
        run_sequence(ctx, out, base, dict(revision=sha, subdir="/"),
                     [dict(remote_branch=rb, body=[("w", "a.txt", b"h")], git_fault=None)], n, fg, reqs, obss, metas)
    for _ in range(ctx.pick(30, 300)):
        hdesc = ctx.rng.choice(HANDLERS)
        current = dict(INITIAL_FILES)
        seq = [rand_txn(ctx, hdesc, current) for _ in range(ctx.rng.randint(1, 4))]
        n += 1
        run_sequence(ctx, out, base, hdesc, seq, n, fg, reqs, obss, metas)
    # ---- transaction objects made earlier, entered later (other transactions in between)
    for hi, hdesc in enumerate(HANDLERS if ctx.thorough else HANDLERS[:3]):
        hists = prepared_histories(ctx, hdesc)
        if not ctx.thorough and hi > 0:   # quick: the full list on the first handler, a seeded third of it on the others
            hists = hists[:3] + ctx.rng.sample(hists[3:], k=len(hists) // 3 - 3)
        for seq in hists:
            n += 1
            run_sequence(ctx, out, base, hdesc, seq, n, fg, reqs, obss, metas)
    for situation in ("insync", "diverged"):   # … with push=True against a remote
        hd = dict(HANDLERS[0], remote=situation)

        def C(**o):
            return dict(o, step="create", body=[], push=True)

        for seq in ([C(), C(), dict(step="run", tx=0, body=[("w", "a.txt", b"P1")], git_fault=None),
                     dict(step="run", tx=1, body=[("w", "b.txt", b"P2")], git_fault=None)],
                    [C(remote_branch="out"), dict(step="run", tx=0, body=[("w", "a.txt", b"P1")], git_fault=None),
                     dict(step="run", tx=0, body=[("w", "a.txt", b"P2")], git_fault=None)]):
            n += 1
            run_sequence(ctx, out, base, hd, seq, n, fg, reqs, obss, metas)
    # ---- push: a bare repository as `origin`, in four situations
    for seq_h in push_sequences(ctx):
        hdesc, seq = seq_h
        n += 1
        run_sequence(ctx, out, base, hdesc, seq, n, fg, reqs, obss, metas)
        out.hit("remote:" + hdesc["remote"])
    model_stream(ctx, out, fg)
    out.extra["sequences"] = n
    out.exhaustive = True  # every abort position / git command index of the representative bodies
    if os.environ.get("VERIF_NO_MODEL") != "1":
        answers = common.model(reqs, driver="Git")
        for meta, obs, ans in zip(metas, obss, answers):
            mv = ans.get("ok")
            if mv is None:
                out.disagree("git.run", meta, "-", ans.get("err"))
                continue
            for i, (a, b) in enumerate(zip(obs, mv)):
                if a != b:
                    diff = {k: {"impl": a.get(k), "model": b.get(k)} for k in a if a.get(k) != b.get(k)}
                    out.disagree("git.run", {**meta, "step": i}, diff, "see per key")
                    break
            else:
                out.hit("corr:agree")
        # the object-name refusal regex vs. its model, exhaustively over a small alphabet
        import itertools

        alpha = ["a", "F", "0", "g", "_", "/", "HEAD", "-"]
        names = ["".join(t) for k in range(1, ctx.pick(5, 6)) for t in itertools.product(alpha, repeat=k)]
        names += ["refs/heads/" + x for x in ("deadbeef", "dead", "dea", "FETCH_HEAD", "_HEAD", "HEADx", "aHEAD", "x/y_HEAD/z")]
        ans = common.model([{"op": "git.objectlike", "names": names}], driver="Git")[0].get("ok")
        for nm, mv in zip(names, ans or []):
            iv = bool(object_name_regex(fg).search(nm))
            out.case(("objectlike", nm), None, iv)
            if iv != mv:
                out.disagree("git.objectlike", nm, iv, mv)
        out.hit("objectlike-names", len(names))
    return out


def replay(ctx: Ctx, case: dict):
    fg = setup_env(ctx)
    o = Outcome()
    base = make_repo(ctx.scratch / "base")
    if case.get("model_stream"):
        model_stream(ctx, o, fg)
    else:
        hd = {k: case["handler"][k] for k in ("revision", "subdir", "remote") if k in case["handler"]}
        run_sequence(ctx, o, base, hd, [unjson(t) for t in case["sequence"]], 1, fg, [], [], [])
    if o.findings:
        return "; ".join(f"{f.signature}: {f.what[:300]}" for f in o.findings[:3])
    return None
