"""C04 — UUIDs stay unique at load, creation and save; failed creation leaves no trace.

Model: Capella.Index (generate_uuid / reserve / check_duplicate_uuids / idcache_index duplicate branch /
the creation bracket). Theorems: Props/C04.lean.
Streams: (a) duplicate placements: every kind of placement of a repeated id (same fragment, other
fragment, library resource; semantic/visual) -> does MelodyModel(...) / save() refuse it, compared with
the model's verdict; (b) creation requests (valid, invalid attribute, wrong type hint, clashing uuid,
failing nested initialisation) in states reached by edit histories -> raw id scan, private indexes and
serialised bytes before/after a failed create; fresh ids after a successful one.
"""

from __future__ import annotations

import itertools
import random
import re
import shutil

import common
import objlayer as ol
import objops
import objsession as S
from common import Ctx, Outcome

DRIVERS = ["Index", "Accessor"]
TABLES = True
RULE = ("(a) placements of a duplicated UUID enumerated over pairs of id-carrying elements of the small corpus models "
        "(same fragment / other fragment / library resource / visual fragment) x {load, load with override then save, save with both overrides}; "
        "(b) creation requests {valid, unknown attribute, wrong type hint, clashing uuid, failing nested initialisation} in "
        "states reached by seeded edit histories; distinct = (stream, model, placement kind or request kind, outcome); "
        "non-trivial = every placement; every rejected or nested creation")
ASSUMPTIONS = ["a failed creation is judged on the raw id scan, the private index dictionaries and exs-serialised bytes of every fragment"]
TRUSTED = []
MANIFEST = dict(
    text=("Lean theorems over the index model: generate_uuid returns an id carried by no element of any loaded fragment and "
          "reserves it; requesting an id in use fails; indexing refuses an id already bound to another element of the "
          "fragment unless duplicates are ignored; the cross-fragment duplicate check (as repaired) fires exactly when two "
          "fragments share an id (and the unrepaired form never fires - kept as a named theorem); a creation that fails at "
          "any point of its bracket leaves tree and indexes as before. Tied to /repo by exhaustive duplicate placements on "
          "small models and by failure-point enumeration of creation requests in states reached by edit histories."
          ' Creation requests are additionally predicted by the accessor model (Model/Accessor.lean: _create / new_uuid / ModelElement.__init__ with both roll-backs) step by step; uniqueness over every session of API calls is a theorem without freshness hypothesis.'),
    design_ref="§6 C04",
    note="Trusted: Lean kernel; harness duplicate injector (text-level edit of model files); uuid4 randomness is an input of the model.",
    technique="Lean 4 proof (index model: freshness, duplicate detection, creation bracket) + exhaustive placement enumeration and failure-point enumeration on the implementation",
)


# ------------------------------------------------------------------ (a) duplicate placements

ID_RE = re.compile(r'\bid="([0-9a-f]{8}-[0-9a-f]{4}-[0-9a-f]{4}-[0-9a-f]{4}-[0-9a-f]{12})"')


def placements(ctx: Ctx, key: str, out: Outcome):
    """Rewrite one id occurrence to another existing id, in each kind of placement."""
    capellambse = ol.import_capellambse()
    from capellambse.loader import core

    base = ol.copy_model(ctx, key)
    root = base.parent if key not in ("libproj",) else base.parent.parent
    files = sorted(p for p in root.rglob("*") if p.suffix in (".capella", ".capellafragment"))
    ids_per_file = {p: ID_RE.findall(p.read_text(encoding="utf-8")) for p in files}
    rng = random.Random(f"c04:{ctx.seed}:{key}")
    cases = []
    for pa, pb in itertools.product(files, repeat=2):
        ia, ib = ids_per_file[pa], ids_per_file[pb]
        if not ia or not ib:
            continue
        n = ctx.pick(1, 4)
        for _ in range(n):
            a = rng.choice(ia)       # occurrence to overwrite (in file pa)
            b = rng.choice(ib)       # id to duplicate (lives in file pb)
            if a != b:
                cases.append((pa, a, pb, b))
    for pa, a, pb, b in cases:
        orig = pa.read_text(encoding="utf-8")
        pa.write_text(orig.replace(f'id="{a}"', f'id="{b}"', 1), encoding="utf-8")
        same_file = pa == pb
        same_resource = pa.parent == pb.parent
        kind = "same-fragment" if same_file else ("cross-fragment" if same_resource else "cross-resource")
        try:
            kw = {}
            if key == "libproj":
                kw["resources"] = {"Library Test": str(root / "Library Test")}
            res = {}
            # 1. plain load must refuse
            try:
                capellambse.MelodyModel(str(base), **kw)
                res["load"] = "accepted"
            except core.CorruptModelError:
                res["load"] = "Corrupt"
            except Exception as e:  # noqa: BLE001
                res["load"] = type(e).__name__
            # 2. load with override, then save without / with the backup flag
            try:
                m = capellambse.MelodyModel(str(base), ignore_duplicate_uuids_and_void_all_warranties=True, **kw)
                res["load_override"] = "accepted"
                try:
                    m.save(dry_run=True)
                    res["save"] = "accepted"
                except core.CorruptModelError:
                    res["save"] = "Corrupt"
                try:
                    m.save(dry_run=True, i_have_a_recent_backup=True)
                    res["save_both"] = "accepted"
                except core.CorruptModelError:
                    res["save_both"] = "Corrupt"
            except Exception as e:  # noqa: BLE001
                res["load_override"] = type(e).__name__
            # 3. the duplicate appears only AFTER a normal load (no load-time override): save needs BOTH overrides,
            #    so the backup flag alone must not be enough
            #    (only for placements across files: inside one file the index refuses the second carrier the moment
            #    it is indexed - C04's creation theorems - so such a state is not reachable through the API)
            pa.write_text(orig, encoding="utf-8")
            try:
                if same_file:
                    raise LookupError("not applicable")
                m3 = capellambse.MelodyModel(str(base), **kw)
                ea = m3._loader[a]
                ea.set("id", b)
                try:
                    m3._loader.idcache_rebuild()
                    res["postload_rebuild"] = "accepted"
                except core.CorruptModelError:
                    res["postload_rebuild"] = "Corrupt"
                for flag, name in ((False, "postload_save"), (True, "postload_save_backup_only")):
                    try:
                        m3.save(dry_run=True, **({"i_have_a_recent_backup": True} if flag else {}))
                        res[name] = "accepted"
                    except core.CorruptModelError:
                        res[name] = "Corrupt"
            except LookupError:
                pass
            except Exception as e:  # noqa: BLE001
                res["postload"] = type(e).__name__
            pa.write_text(orig.replace(f'id="{a}"', f'id="{b}"', 1), encoding="utf-8")
            for name in ("postload_save", "postload_save_backup_only"):
                if res.get(name) == "accepted":
                    out.find(f"save-accepts-duplicate-after-load|{kind}|{name}", f"{key}: {b} duplicated in memory after a normal load ({kind}) but {name} -> accepted",
                             {"kind": "dup", "model": key, "placement": kind, "file_a": pa.name, "id_a": a, "file_b": pb.name, "id_b": b})
            out.case(("dup", key, kind, tuple(sorted(res.items()))), {"model": key, "placement": kind, "dup_id": b, "result": res})
            out.hit(f"dup.{kind}.load={res.get('load')}")
            # monitor: the statement
            if res.get("load") != "Corrupt":
                out.find(f"load-accepts-duplicate|{kind}", f"{key}: id {b} occurs twice ({kind}: {pa.name} / {pb.name}) but MelodyModel(...) -> {res.get('load')}",
                         {"kind": "dup", "model": key, "placement": kind, "file_a": pa.name, "id_a": a, "file_b": pb.name, "id_b": b})
            if res.get("load_override") == "accepted" and res.get("save") != "Corrupt":
                out.find(f"save-accepts-duplicate|{kind}", f"{key}: duplicated {b} ({kind}) but save() without i_have_a_recent_backup -> {res.get('save')}",
                         {"kind": "dup", "model": key, "placement": kind, "file_a": pa.name, "id_a": a, "file_b": pb.name, "id_b": b})
            if res.get("load_override") == "accepted" and res.get("save_both") != "accepted":
                out.find(f"double-override-refused|{kind}", f"{key}: both overrides given but save -> {res.get('save_both')}",
                         {"kind": "dup", "model": key, "placement": kind, "file_a": pa.name, "id_a": a, "file_b": pb.name, "id_b": b})
            yield kind, res
        finally:
            pa.write_text(orig, encoding="utf-8")
    shutil.rmtree(root, ignore_errors=True)


# ------------------------------------------------------------------ (b) creation atomicity / freshness


class CreateMonitor:
    def __init__(self, out: Outcome, ctx: Ctx):
        self.out, self.ctx = out, ctx

    def start(self, model, scan, key, hist_id):
        self.key, self.hist_id = key, hist_id
        self.hist = []
        self._pre = None

    def pre(self, i, st, model):
        if st.op.startswith("create"):
            loader = model._loader
            self._pre = (ol.frag_hashes(loader), ol.index_dump(loader))
        else:
            self._pre = None

    def step(self, rec, model):
        self.hist.append(dict(S.describe(rec.step), outcome=rec.outcome))
        loader = model._loader
        st = rec.step
        # global uniqueness of ids in the semantic fragments, after every step
        seen: dict[str, int] = {}
        for f, rows in rec.after.items():
            if not f.endswith((".capella", ".capellafragment", ".melodymodeller", ".melodyfragment")):
                continue
            for r in rows:
                for k in r["ids"]:
                    if k in seen and seen[k] != r["nid"]:
                        self.find(rec, f"duplicate-id-in-tree|{st.op}", f"id {k} carried by two elements after {st.op}")
                    seen[k] = r["nid"]
        if not st.op.startswith("create"):
            return
        kind = st.op + ("-bad" if st.args.get("bad") else "")
        self.out.case((self.key, kind, rec.outcome), dict(S.describe(st), outcome=rec.outcome), nontrivial=True)
        self.out.hit(f"create.{kind}.{'ok' if rec.outcome == 'ok' else 'rejected'}")
        if rec.outcome == "ok":
            new = [r for f in rec.after for r in rec.after[f] if r["nid"] not in {x["nid"] for x in rec.before.get(f, [])}]
            before_ids = {k for f in rec.before for r in rec.before[f] for k in r["ids"]}
            for r in new:
                for k in r["ids"]:
                    if k in before_ids:
                        self.find(rec, f"created-with-used-id|{st.op}", f"new element received id {k} which was already in use")
            return
        # failed creation: nothing may have changed
        h0, d0 = self._pre
        h1, d1 = ol.frag_hashes(loader), ol.index_dump(loader)
        if h0 != h1:
            self.find(rec, f"failed-create-changes-bytes|{kind}", f"fragments differ after a failed create: {[f for f in h0 if h0[f] != h1.get(f)]}")
        for f in d0:
            a, b = d0[f], d1.get(f, {})
            if a["idc"] != b.get("idc"):
                extra = {k: v for k, v in b.get("idc", {}).items() if a["idc"].get(k, "<absent>") != v}
                self.find(rec, f"failed-create-leaves-index-entry|{kind}", f"id index of {f} differs after a failed create: {dict(list(extra.items())[:3])}")
            if a["xtc"] != b.get("xtc"):
                self.find(rec, f"failed-create-leaves-type-entry|{kind}", f"type index of {f} differs after a failed create")

    def find(self, rec, sig, msg):
        self.out.find(sig, f"{self.key} step {rec.i} {S.describe(rec.step)}: {msg}",
                      {"kind": "history", "model": self.key, "hist": self.hist_id, "step": rec.i, "ops": self.hist[-5:], "failure": sig})

    def end(self, model):
        pass


def run(ctx: Ctx) -> Outcome:
    out = Outcome(rule=RULE)
    # (a)
    tie = S.IndexTie()
    for key in (["write", "libproj"] if not ctx.thorough else ["write", "libproj", "empty52", "filtering"]):
        for kind, res in placements(ctx, key, out):
            pass
    # (b)
    w = {"create": 5, "create_clash": 3, "create_nested": 6, "delitem": 1, "insert": 1, "setitem": 0, "append": 1,
         "remove": 1, "setattr": 1, "clear": 0, "delete_referenced": 1}
    plan = [("write", 2, 30), ("t52", 1, 15)] if not ctx.thorough else [("write", 4, 60), ("write+frag", 3, 40), ("empty52", 2, 40), ("t50", 1, 40), ("t52", 2, 40), ("t60", 1, 40), ("libproj", 2, 40)]
    for key, nh, ns in plan:
        for h in range(nh):
            mon = CreateMonitor(out, ctx)
            import accsession
            S.run_history(ctx, out, key, ns, [mon, accsession.AccessorTie(out)], weights=w, hist_id=h)
    # (c) fault points: the creation fails in its LAST stage (the accessor's insert / the insert into the list in hand)
    insert_fault_cases(ctx, out)
    # model side: generate_uuid / duplicate check on synthetic loaders derived from a real scan
    model_cases(ctx, out)
    del tie
    return out


def insert_fault_cases(ctx: Ctx, out: Outcome, only: dict | None = None):
    """"A creation that fails for any reason leaves the model exactly as before": here the reason is a fault in the
    last stage of `ElementListCouplingMixin.create` — after the element was built, attached and indexed, the accessor's
    `insert` (stage `accessor.insert`) or the insertion into the list object in hand (stage `list.insert`) raises an
    injected exception (an ordinary one and `KeyboardInterrupt`).  Judged like every failed creation: bytes of every
    fragment, the private indexes, and `by_uuid` of the requested id."""
    import objops
    from capellambse.model import _obj

    keys = ["write"] if not ctx.thorough else ["write", "t52", "empty52", "libproj"]
    for key in keys:
        m = ol.load(ctx, key)
        loader = m._loader
        rng = random.Random(f"c04f:{ctx.seed}:{key}")
        by_kind: dict[str, list] = {}
        for r in objops.discover(m, rng, max_objs=ctx.pick(150, 400)):
            if r.contain:
                by_kind.setdefault(r.kind, []).append(r)
        picks = []
        for kind in sorted(by_kind):
            rs = by_kind[kind]
            rng.shuffle(rs)
            picks += rs[:ctx.pick(3, 8)]
        for rel in picks:
            for stage in ("accessor.insert", "list.insert"):
                for exc in (RuntimeError, KeyboardInterrupt):
                    if only and (only.get("stage"), only.get("exc")) != (stage, exc.__name__):
                        continue
                    try:
                        lst = rel.get()
                    except Exception:  # noqa: BLE001
                        continue
                    if getattr(lst, "fixed_length", 0) and len(lst) >= lst.fixed_length:
                        continue
                    want = "%08x-%04x-%04x-%04x-%012x" % (rng.getrandbits(32), rng.getrandbits(16), rng.getrandbits(16), rng.getrandbits(16), rng.getrandbits(48))
                    h0, d0 = ol.frag_hashes(loader), ol.index_dump(loader)
                    cls, name = (type(rel.acc), "insert") if stage == "accessor.insert" else (_obj.ElementList, "insert")
                    had = name in vars(cls)
                    orig = getattr(cls, name)

                    def boom(*a, _exc=exc, **k):
                        raise _exc("injected fault")

                    setattr(cls, name, boom)
                    try:
                        try:
                            lst.create(name="verif fault", uuid=want)
                            outcome = "ok"
                        except BaseException as e:  # noqa: BLE001 - KeyboardInterrupt is one of the injected kinds
                            outcome = type(e).__name__ if "injected fault" in str(e) else f"other:{type(e).__name__}"
                    finally:
                        if had:
                            setattr(cls, name, orig)
                        else:
                            delattr(cls, name)
                    label = f"insert-fault:{stage}:{exc.__name__}"
                    out.case(("insert-fault", rel.kind, stage, exc.__name__, outcome.split(":")[0]),
                             {"relation": rel.key(), "stage": stage, "exception": exc.__name__, "outcome": outcome}, outcome != "ok")
                    out.hit(f"fault.{stage}.{'reached' if outcome == exc.__name__ else 'not-reached' if outcome == 'ok' else 'failed-earlier'}")
                    if outcome == "ok":
                        # this accessor's creation does not pass through the patched stage: the object exists now
                        continue
                    h1, d1 = ol.frag_hashes(loader), ol.index_dump(loader)
                    rp = {"kind": "insert-fault", "model": key, "relation": rel.key(), "stage": stage, "exc": exc.__name__, "failure": None}
                    if h1 != h0:
                        sig = f"failed-create-changes-bytes|{label}"
                        out.find(sig, f"{key}: {rel.key()}.create() failing in {stage} left fragments {[f for f in h0 if h0[f] != h1.get(f)]} changed", dict(rp, failure=sig))
                    if d1 != d0:
                        sig = f"failed-create-leaves-index-entry|{label}"
                        extra = {f: sorted(set(d1[f]["idc"]) - set(d0[f]["idc"]))[:3] for f in d1 if d1[f]["idc"] != d0.get(f, {}).get("idc")}
                        out.find(sig, f"{key}: {rel.key()}.create(uuid={want}) failing in {stage} left index entries behind: {extra}", dict(rp, failure=sig))
                    try:
                        ghost = m.by_uuid(want)
                    except KeyError:
                        ghost = None
                    if ghost is not None:
                        sig = f"failed-create-resolvable|{label}"
                        out.find(sig, f"{key}: by_uuid({want}) succeeds after {rel.key()}.create() failed in {stage} (element attached: {ghost._element.getparent() is not None})", dict(rp, failure=sig))
                    out.traces_validated += 1


def model_cases(ctx: Ctx, out: Outcome):
    """generate_uuid and check_duplicate_uuids: implementation vs Lean model on the same loader states."""
    import os

    capellambse = ol.import_capellambse()
    m = ol.load(ctx, "write")
    loader = m._loader
    scan = ol.raw_scan(loader)
    tie = S.IndexTie()
    tie.load(loader, scan)
    rng = random.Random(f"c04m:{ctx.seed}")
    ids = [k for rows in scan.values() for r in rows for k in r["ids"]]
    frags = list(loader.trees)
    sem = [i for i, f in enumerate(frags) if str(f).endswith(".capella")][0]
    parent = loader.trees[frags[sem]].root
    import uuid as uuidmod
    for n in range(ctx.pick(40, 400)):
        mode = rng.choice(["want-used", "want-free", "random"])
        if mode == "want-used":
            want = rng.choice(ids)
        elif mode == "want-free":
            want = str(uuidmod.UUID(int=rng.getrandbits(128), version=4))
        else:
            want = None
        drawn: list[str] = []
        orig = uuidmod.uuid4

        def fake():
            # first candidate collides on purpose sometimes
            v = rng.choice(ids) if (not drawn and rng.random() < 0.5) else str(uuidmod.UUID(int=rng.getrandbits(128), version=4))
            drawn.append(v)
            return v
        uuidmod.uuid4 = fake
        try:
            try:
                got = loader.generate_uuid(parent, want=want)
            except ValueError:
                got = "ValueError"
        finally:
            uuidmod.uuid4 = orig
        req = {"op": "index.genuuid", "fi": sem, "cands": drawn}
        if want is not None:
            req["want"] = want
        tie.add(("genuuid", mode), req, got)
        out.case(("genuuid", mode, got == "ValueError", len(drawn)), {"want": want, "drawn": drawn, "got": got} if n < 3 else None)
        if got != "ValueError":
            if got in ids:
                out.find("generate_uuid-returns-used-id", f"generate_uuid(want={want}) -> {got} which is in use", {"kind": "genuuid", "want": want})
            ids.append(got)  # now reserved: a second request for it must... (reserved ids count as free by the code's own rule)
            ids.pop()
        elif mode != "want-used":
            out.find("generate_uuid-refuses-free-id", f"generate_uuid(want={want}) raised although the id is unused", {"kind": "genuuid", "want": want})
    # the new_uuid bracket itself: a uuid that is requested but never used, and a creation in a file type
    # whose ids are not indexed (viewpoint activation writes into the .afm)
    for label in ("unused-in-semantic", "activate-viewpoint"):
        h0, d0 = ol.frag_hashes(loader), ol.index_dump(loader)
        scan0 = ol.raw_scan(loader)
        try:
            if label == "unused-in-semantic":
                with loader.new_uuid(parent):
                    pass
            else:
                m.activate_viewpoint("org.polarsys.capella.vp.verif", "1.0.0")
            outcome = "ok"
        except BaseException as e:  # noqa: BLE001
            outcome = type(e).__name__
        h1, d1 = ol.frag_hashes(loader), ol.index_dump(loader)
        tie.apply(("bracket", label), S.diff_ops(S.scan_rows(scan0), S.scan_rows(ol.raw_scan(loader)), tie.frag_index))
        out.case(("bracket", label, outcome), {"bracket": label, "outcome": outcome})
        out.hit(f"bracket.{label}.{outcome}")
        if outcome != "ok":
            if h1 != h0:
                out.find(f"failed-create-changes-bytes|{label}", f"{label} raised {outcome} but fragments {[f for f in h0 if h0[f] != h1[f]]} changed",
                         {"kind": "bracket", "label": label})
            if d1 != d0:
                out.find(f"failed-create-leaves-index-entry|{label}", f"{label} raised {outcome} but an id stays reserved/indexed",
                         {"kind": "bracket", "label": label})
        elif label == "unused-in-semantic":
            out.find("unused-uuid-accepted", "a requested uuid that was never used did not raise", {"kind": "bracket", "label": label})
        else:
            # accepted: no reservation may be left behind, and the viewpoint must be referenced now
            left = {k for f in d1 for k, v in d1[f]["idc"].items() if v is None} - {k for f in d0 for k, v in d0[f]["idc"].items() if v is None}
            if left:
                out.find(f"reservation-left-behind|{label}", f"{label} succeeded but {len(left)} reserved id(s) stay in the index", {"kind": "bracket", "label": label})
            if "org.polarsys.capella.vp.verif" not in dict(loader.referenced_viewpoints()):
                out.find(f"creation-lost|{label}", "viewpoint not referenced after activation", {"kind": "bracket", "label": label})
    # re-sync the model side with the reservations generate_uuid made above
    tie.dump(("genuuid-end",), loader)
    if os.environ.get("VERIF_NO_MODEL") != "1":
        answers = common.model(tie.req, driver="Index")
        for meta, iv, ans in zip(tie.meta, tie.impl, answers):
            mv = ans.get("ok", ans.get("err"))
            if meta[0] == "genuuid":
                if mv != iv:
                    out.disagree("index.genuuid", list(meta), iv, mv)
                out.hit("index.genuuid")
            elif meta[0] == "dump":
                if mv != iv:
                    out.disagree("index.genuuid-dump", list(meta), "differs", "differs")
    del capellambse


def replay(ctx: Ctx, case: dict):
    out = Outcome()
    if case.get("kind") == "dup":
        for _ in placements(ctx, case["model"], out):
            pass
    elif case.get("kind") == "history":
        w = {"create": 5, "create_clash": 3, "create_nested": 6, "delitem": 1, "insert": 1, "setitem": 0, "append": 1,
             "remove": 1, "setattr": 1, "clear": 0, "delete_referenced": 1}
        mon = CreateMonitor(out, ctx)
        S.run_history(ctx, out, case["model"], max(80, case.get("step", 0) + 1), [mon], weights=w, hist_id=case["hist"])
    elif case.get("kind") == "insert-fault":
        insert_fault_cases(ctx, out, only=case)
    else:
        model_cases(ctx, out)
    for f in out.findings:
        if f.signature == case.get("failure") or f.replay.get("placement") == case.get("placement"):
            return f.what
    return None
