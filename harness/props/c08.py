"""C08 — model-coupled lists behave like Python lists and write through.

Model: Capella.CoupledList (children of the owner with heterogeneous siblings; per accessor kind the
index translation the code performs; Python list semantics as the spec). Theorems: Props/C08.lean.
Generated table: every (class, attribute) whose accessor yields a coupled list, with kind and parameters
(gen_descriptors.py -> Gen/Descr*.lean); the refinement theorems are instantiated per kind and a
kernel-checked obligation says every row's kind is one the theorems cover (others are listed).
Tie/monitor: seeded operation sequences on real relations of the corpus models: the list in hand,
a freshly fetched list and (periodically) the saved+reloaded model must equal a plain Python list;
everything else in the model is compared element by element before/after each step.
"""

from __future__ import annotations

import random

import common
import objlayer as ol
import objops
import objsession as S
from common import Ctx, Outcome

DRIVERS = ["CoupledList", "Accessor"]
TABLES = True
RULE = ("seeded operation sequences (append / insert at every index in [-n-2, n+2] / item assignment / deletion / "
        "creation / clear / moves of existing objects between parents) over the coupled list relations of the corpus "
        "models, owners preferably with interleaved other child kinds; equality-steered and scripted histories (incl. slice assignment, "
        "`in` / index() queries) over the lists whose member class overrides equality, two DIFFERENT members made equal first; distinct = (accessor kind, op, index class "
        "{neg-out, neg, zero, mid, end, out}, outcome, siblings interleaved?); non-trivial = every accepted mutation and every rejection")
ASSUMPTIONS = [
    "a Python list is the specification: insert/setitem/delitem/append/clear with Python's index normalisation",
    "moves are restricted to objects that are not already members of the target list (a containment list holds an element once)",
    "the Python list of the specification holds the SAME OBJECTS (compared by element identity afterwards): remove(x) takes out the first member that is x or compares equal to x, as a Python list of these objects does",
]
TRUSTED = ["C08: lxml Element.insert/remove/index follow list semantics on the children sequence (exercised, not proved)"]
MANIFEST = dict(
    text=("Lean refinement theorems: for containment lists (DirectProxy/RoleTag) the child-index translation the code "
          "performs makes the filtered view of the owner's children equal to Python's list.insert for EVERY integer "
          "index, with the other children untouched and in order; deletion removes exactly the element; attribute-link "
          "and link-element lists refine Python lists given the link round trip; fixed-length, uniqueness and "
          "foreign-model rejections change nothing. A generated table of every list-valued relation of every registered "
          "class carries a kernel-checked obligation that its accessor kind is covered. Tied to /repo by per-step "
          "comparison of mirror / fresh / reloaded views with a Python list on real relations and an element-by-element "
          "frame comparison of the rest of the model."
          ' Every list operation is additionally predicted over the real tree by the accessor model (Model/Accessor.lean), and a kernel-checked obligation over the generated table shows every writable relation of every registered class is of an implemented (or delegating) kind; the monitor compares list in hand, fresh view, stored attribute and reloaded model with the Python list.'
          ' Lists whose member class overrides equality (attr_equal classes, found by reflection) are exercised with two different members that compare equal, through every list operation incl. slice assignment: which members an assignment drops is decided by element identity (theorems assignment_drops_by_element_identity, item_assignment_drops_exactly_the_replaced_member).'),
    design_ref="§6 C08",
    note=("Trusted: Lean kernel; lxml child-list semantics; descriptor table translator gen_descriptors.py. "
          "Item assignment on containment lists is a recorded known finding (see known_findings.jsonl) unless repaired."),
    technique="Lean 4 refinement proof (coupled list vs Python list, all integer indices) + generated descriptor table + per-step three-view differential run",
)

# (model, histories, steps[, share of steps steered to lists whose member class overrides equality – default EQ_OVERRIDE])
QUICK = [("write", 3, 30), ("write+frag", 2, 30), ("t52", 2, 25), ("libproj", 1, 20), ("write", 3, 30, 0.8)]
# scripted histories over the lists whose members override equality: (model, relations at most, accessor kinds or None)
NONCONTAIN = ("LinkAccessor", "AttrProxyAccessor", "PhysicalLinkEndsAccessor", "TypecastAccessor")
SCRIPTED_QUICK = [("write", 6, None), ("t50", 1, NONCONTAIN)]
SCRIPTED_THOROUGH = [("write", 8, None), ("t50", 10, None), ("t52", 4, NONCONTAIN), ("t60", 10, None)]
THOROUGH = [("write", 8, 60), ("write+frag", 5, 60), ("t52+frag", 2, 40), ("empty52", 3, 40), ("filtering", 2, 40), ("libproj", 3, 40), ("t50", 2, 40), ("t52", 4, 50), ("t60", 2, 40),
            ("write", 6, 60, 0.8), ("empty52", 3, 40, 0.8), ("t50", 3, 40, 0.8), ("t60", 2, 40, 0.8), ("t52+frag", 2, 40, 0.8)]
EQ_OVERRIDE = 0.2   # share of history steps steered to lists whose member class overrides equality (objops.eq_step)
W = {"create": 3, "delitem": 3, "insert": 6, "setitem": 3, "append": 3, "remove": 2, "setattr": 0, "clear": 1,
     "create_clash": 0, "create_nested": 0, "delete_referenced": 0, "role_set": 0, "move_over_placeholder": 1, "assign": 3, "setslice": 2}


def idx_class(i, n):
    if i is None:
        return "-"
    if i < -n:
        return "neg-out"
    if i < 0:
        return "neg"
    if i == 0:
        return "zero"
    if i < n:
        return "mid"
    if i == n:
        return "end"
    return "out"


def py_apply(lst: list, op: str, args: dict, x):
    """the specification: what a plain Python list does"""
    l = list(lst)
    if op == "insert":
        l.insert(args["i"], x)
    elif op == "append":
        l.append(x)
    elif op == "setitem":
        l[args["i"]] = x
    elif op == "delitem":
        del l[args["i"]]
    elif op == "remove":
        l.remove(x)
    elif op == "clear":
        l.clear()
    elif op == "assign":
        l = list(args["new_uuids"])
    elif op == "setslice":
        l[args["a"]:args["b"]] = list(args["new_uuids"])
    return l


def cheap_state(loader) -> dict:
    """fragment name -> lxml's own serialisation of the whole document (C speed; taken before every step)"""
    from lxml import etree

    return {str(f): etree.tostring(t.root.getroottree()) for f, t in loader.trees.items()}


def changed_fragments(loader, before: dict) -> list:
    """the fragment files whose bytes AS THE LIBRARY WRITES THEM differ from the state `before` (of `cheap_state`).
    Identical lxml serialisations mean identical trees, hence identical bytes; only where they differ is the earlier
    state parsed again and both are serialised by the library's writer (what `objlayer.frag_hashes` compares) – the same
    verdict as comparing `frag_hashes` before/after, without writing the whole model through Python before every step."""
    from capellambse.loader import exs
    from lxml import etree

    now = cheap_state(loader)
    roots = {str(f): t.root for f, t in loader.trees.items()}
    out = []
    for f in sorted(set(now) | set(before)):
        if now.get(f) == before.get(f):
            continue
        if f not in now or f not in before:
            out.append(f)
        elif exs.to_bytes(etree.fromstring(before[f])) != exs.to_bytes(roots[f]):
            out.append(f)
    return out


def exact_writer_available() -> bool:
    from capellambse.loader import exs

    return hasattr(exs, "to_bytes")


class ListMonitor:
    def __init__(self, out: Outcome, ctx: Ctx, req: list, impl: list, meta: list):
        self.out, self.ctx = out, ctx
        self.req, self.impl, self.meta = req, impl, meta

    def start(self, model, scan, key, hist_id):
        self.key, self.hist_id = key, hist_id
        self.hist = []
        self._pre = None

    def pre(self, i, st, model):
        self._pre = None
        if st.rel is None or st.op in ("setattr", "noop"):
            return
        try:
            lst = st.rel.get()
        except Exception:  # noqa: BLE001
            return
        owner_el = st.rel.owner._element
        kids = [(id(c), c) for c in owner_el]
        view = [id(x._element) for x in lst]
        uu = ol.uuids(lst)
        # members of a removed subtree that live in OTHER fragment files survive the removal (C09's known
        # finding `...|fragment-spanning`); for the frame they count as gone, they are not C08's subject
        spanning: set = set()
        root_victim = False
        # `remove(x)` on a plain Python list of the same objects takes out the FIRST member that is x or compares equal to
        # x – for a class that overrides equality that may be another element than x
        victim_uuid = st.args.get("uuid")
        if st.op == "remove":
            import accsession as _acs
            x_ = _acs.live(st).get("x")
            try:
                victim_uuid = getattr(list(lst)[list(lst).index(x_)], "uuid", None) if x_ is not None else victim_uuid
            except ValueError:
                victim_uuid = None
            if victim_uuid != st.args.get("uuid"):
                self.out.hit("remove.first-equal-member-is-another-element")
        if st.op in ("delitem", "remove", "setitem", "clear", "assign", "setslice") and st.rel.contain:
            n_ = len(lst)
            victims = []
            if st.op == "setslice":
                victims = [x for x in list(lst)[st.args["a"]:st.args["b"]] if getattr(x, "uuid", None) not in st.args["new_uuids"]]
            if st.op == "assign":
                victims = [x for x in lst if getattr(x, "uuid", None) not in st.args["new_uuids"]]
            if st.op in ("delitem", "setitem") and -n_ <= st.args.get("i", 0) < n_:
                victims = [lst[st.args["i"]]]
            elif st.op == "remove":
                victims = [x for x in lst if getattr(x, "uuid", None) == victim_uuid]
            elif st.op == "clear":
                victims = list(lst)
            root_victim = any(v._element.getparent() is None for v in victims)
            for v in victims:
                own_root = v._element.getroottree().getroot()
                try:
                    for d in model._loader.iterdescendants_xt(v._element):
                        if d.getroottree().getroot() is not own_root and d.get("id"):
                            spanning.add(d.get("id"))
                except KeyError:
                    pass   # a dangling placeholder (left behind by an earlier, already reported step)
        # the list object the step works through: the fresh one, or an outdated second handle fetched earlier
        import accsession
        L = accsession.live(st)
        hand = L.get("stale") if st.args.get("stale_handle") else next((L[k] for k in ("lst", "dl", "l2") if k in L), None)
        try:
            hand_uuids = ol.uuids(hand) if hand is not None else None
        except Exception:  # noqa: BLE001
            hand, hand_uuids = None, None
        self._pre = {
            "hand": hand, "hand_uuids": hand_uuids,
            "view": view, "uuids": uu, "kids": [k for k, _ in kids], "spanning": spanning, "root_victim": root_victim,
            "victim_uuid": victim_uuid, "eq_pair": objops.equal_pair(list(lst)) is not None,
            "snap": ol.tree_snapshot(model._loader), "objs": list(lst),
            "cheap": cheap_state(model._loader) if exact_writer_available() else None,
            "hashes": None if exact_writer_available() else ol.frag_hashes(model._loader), "index": ol.index_dump(model._loader),
            "interleaved": interleaved([k for k, _ in kids], view),
        }

    def step(self, rec, model):
        st = rec.step
        self.hist.append(dict(S.describe(st), outcome=rec.outcome))
        pre = self._pre
        if pre is None or st.rel is None:
            return
        n = len(pre["view"])
        i = st.args.get("i")
        ic = idx_class(i, n)
        kind = st.rel.kind
        self.out.case((kind, st.op, ic, rec.outcome, pre["interleaved"]),
                      dict(S.describe(st), outcome=rec.outcome, n=n), nontrivial=True)
        self.out.hit(f"{kind}.{st.op}.{ic}.{'ok' if rec.outcome == 'ok' else 'rejected'}")
        loader = model._loader
        # an accepted edit must leave every fragment file with a proper root (otherwise save() cannot write it)
        for fname, tree in loader.trees.items():
            if tree.root.getparent() is not None:
                self.find(rec, f"fragment-root-moved-into-another-file|{kind}|{st.op}",
                          f"after {st.op} the root element of fragment {fname} hangs inside another file's tree (the object that is its own fragment file was moved; its placeholder stays behind)")
                model._verif_broken_roots = True
                model._verif_stop = True   # the state is corrupt from here on: end this history
                return   # the other observations of this step are consequences of the same defect
        if st.op == "query":
            self.query(rec, model, pre, kind)
            return
        if rec.outcome != "ok":
            # a rejected operation changes nothing
            changed = self.changed(loader, pre)
            if changed:
                why = "|member-is-fragment-root" if (pre.get("root_victim") and rec.outcome == "AssertionError") else ""
                self.find(rec, f"rejected-op-changed-model|{kind}|{st.op}{why}", f"{st.op} raised {rec.outcome} but fragments {changed} changed")
            elif ol.index_dump(loader) != pre["index"]:
                self.find(rec, f"rejected-op-changed-index|{kind}|{st.op}", f"{st.op} raised {rec.outcome}; the files are as before but the id/type indexes differ")
            # … and Python would have accepted it?  (IndexError where a list clamps)
            if st.op == "insert" and rec.outcome == "IndexError":
                self.find(rec, f"insert-index-rejected|{kind}|{ic}", f"insert({i}, x) on a list of {n} raised IndexError; a Python list clamps the index")
            return
        # accepted: three views vs the Python list
        x_uuid = st.args.get("uuid")
        if st.op == "create":
            try:
                fresh = ol.uuids(st.rel.get())
            except Exception as e:  # noqa: BLE001
                self.find(rec, f"fresh-view-raises|{kind}|{st.op}", f"fetching the relation after {st.op} raised {type(e).__name__}")
                return
            new = [u for u in fresh if u not in pre["uuids"]]
            if len(new) != 1 or fresh != pre["uuids"] + new:
                self.find(rec, f"create-not-appended|{kind}", f"after create the fresh view is {fresh[-3:]} (before: {pre['uuids'][-3:]})")
            self.frame(rec, model, pre, kind, allowed_new=True)
            return
        if st.op == "assign_dup":
            self.find(rec, f"unique-accepts-duplicate|{kind}|assign", "assigning a sequence with a duplicate member to a uniqueness-enforcing relation was accepted")
            return
        if st.op in ("insert", "append", "setitem", "delitem", "remove", "clear", "assign", "setslice"):
            if st.args.get("eq"):
                self.out.hit(f"eq-override.{st.op}.{st.args['eq']}")
            if pre.get("eq_pair"):
                self.out.hit(f"equal-but-distinct-members.{st.op}")
            if st.op in ("insert", "append") and x_uuid in pre["uuids"] and getattr(st.rel.acc, "unique", False):
                # a uniqueness-enforcing relation must reject a member that is already present,
                # whichever list object the caller uses
                self.find(rec, f"unique-accepts-duplicate|{kind}|{st.op}", f"{st.op} of a member that is already in the unique relation was accepted")
                return
            # the Python list the statement compares with is the list object IN HAND: for an outdated second handle
            # that is the handle's own content, not the relation's current content
            # (attribute-link lists: the accessor rewrites the whole attribute from the handle's content, so fresh view =
            # handle content + edit. Link-ELEMENT lists – LinkAccessor and typecast views of one – add / remove ONE link
            # element of the relation: through an outdated handle the fresh view is the relation's CURRENT content + edit
            # (a member added through another handle meanwhile is not forgotten), the handle shows its own content + edit.)
            stale = bool(st.args.get("stale_handle") and pre.get("hand_uuids") is not None)
            base = pre["hand_uuids"] if (stale and whole_rewrite(st.rel)) else pre["uuids"]
            if st.op in ("insert", "append", "setitem", "setslice") and (x_uuid in pre["uuids"] or x_uuid in base) and not (kind == "AttrProxyAccessor" and st.op != "setitem"):
                # a move within a containment list / a set-like link-element list: outside the stated domain.
                # (An attribute-link list is a plain sequence: the same object twice is legal and IS in the domain.)
                return
            want = py_apply(base, st.op, st.args, pre.get("victim_uuid") if st.op == "remove" else x_uuid)
            try:
                fresh = ol.uuids(st.rel.get())
            except Exception as e:  # noqa: BLE001
                self.find(rec, f"fresh-view-raises|{kind}|{st.op}", f"fetching the relation after {st.op} raised {type(e).__name__}")
                return
            victim = pre.get("victim_uuid") if st.op == "remove" else x_uuid
            if st.op in ("delitem", "remove") and fresh != want and victim is not None and base.count(victim) > 1:
                # the SAME element held more than once (attribute-link lists are plain sequences) and one position deleted:
                # a class of its own (listed finding) – `accessor.delete(list, obj)` has no position to go by
                self.find(rec, f"member-held-twice-deleted-everywhere|{kind}|{st.op}",
                          f"{st.op}({i if i is not None else ''}) on {short(base)}: a Python list loses ONE position of {str(victim)[:8]} and gives {short(want)}; the fresh view is {short(fresh)}")
                return
            if fresh != want:
                self.find(rec, f"fresh-view-differs|{kind}|{st.op}|{ic}|{'interleaved' if pre['interleaved'] else 'plain'}",
                          f"{st.op}({i if i is not None else ''}) on {n} elements: fresh view {short(fresh)} but a Python list gives {short(want)}")
            # the list object in hand mirrors the edit
            if pre.get("hand") is not None and st.op in ("insert", "append", "setitem", "delitem", "remove", "setslice"):
                try:
                    inhand = ol.uuids(pre["hand"])
                except Exception:  # noqa: BLE001
                    inhand = None
                self.out.hit("list-in-hand.compared")
                want_hand = want
                if stale and not whole_rewrite(st.rel):
                    want_hand = py_apply(pre["hand_uuids"], st.op, st.args, pre.get("victim_uuid") if st.op == "remove" else x_uuid)
                    self.out.hit("outdated-handle.link-elements")
                if inhand is not None and inhand != want_hand:
                    self.find(rec, f"list-in-hand-differs|{kind}|{st.op}",
                              f"{st.op}({i if i is not None else ''}): the list object in hand shows {short(inhand)} but a Python list gives {short(want_hand)} (fresh view {short(fresh)})")
            # … and the stored attribute of an attribute-link list says the same
            if kind == "AttrProxyAccessor" and getattr(st.rel.acc, "attr", None):
                import re as _re
                raw = _re.findall(r"#([A-Za-z0-9_-]+)", st.rel.owner._element.get(st.rel.acc.attr, ""))
                if raw != want:
                    self.find(rec, f"stored-attribute-differs|{kind}|{st.op}", f"{st.op}: attribute {st.rel.acc.attr} stores {short(raw)} but a Python list gives {short(want)}")
            self.frame(rec, model, pre, kind, allowed_new=False)
            plain_members = set(pre["view"]) <= set(pre["kids"])   # no member is the root of its own fragment file
            if st.op == "assign" and st.rel.contain and plain_members:
                owner_el = st.rel.owner._element
                by_uuid = {c.get("id"): id(c) for c in owner_el}
                pre_by = dict(zip(pre["uuids"], pre["view"]))
                new = [pre_by.get(u) for u in st.args["new_uuids"]]
                if None not in new:
                    self.req.append({"op": "clist.assign", "kids": [[k, k in set(pre["view"])] for k in pre["kids"]], "i": 0, "x": 0, "new": new})
                    self.impl.append([id(c) for c in owner_el])
                    self.meta.append(("clist.assign", kind, "assign", len(pre["view"])))
                del by_uuid
            # correspondence with the Lean model: item assignment on a containment list runs the repaired `__set__`
            if st.op == "setitem" and st.rel.contain and plain_members and type(st.rel.acc).__name__ != "RoleTagAccessor":
                owner_el = st.rel.owner._element
                kids_after = [id(c) for c in owner_el]
                n_ = len(pre["view"])
                xs = [k for k in kids_after if k not in pre["kids"]]
                if -n_ <= i < n_ and len(xs) <= 1:
                    xn = xs[0] if xs else None
                    if xn is None:   # x was already a child of this owner (member of another relation): find it by uuid
                        xn = next((id(c) for c in owner_el if c.get("id") == x_uuid), None)
                    if xn is not None:
                        new = list(pre["view"])
                        new[i] = xn
                        if len(set(new)) == len(new):
                            self.req.append({"op": "clist.assign", "kids": [[k, k in set(pre["view"])] for k in pre["kids"]], "i": 0, "x": 0, "new": new})
                            self.impl.append(kids_after)
                            self.meta.append(("clist.assign", kind, ic, n_))
            # correspondence with the Lean model for containment inserts
            if st.op == "insert" and st.rel.contain and plain_members:
                owner_el = st.rel.owner._element
                kids_after = [id(c) for c in owner_el]
                moved = [k for k in kids_after if k not in pre["kids"]]
                if len(moved) == 1:
                    self.req.append({"op": "clist.insert", "kids": [[k, k in set(pre["view"])] for k in pre["kids"]], "i": i, "x": moved[0]})
                    self.impl.append(kids_after)
                    self.meta.append(("clist.insert", kind, ic, n))

    @staticmethod
    def changed(loader, pre) -> list:
        if pre.get("cheap") is not None:
            return changed_fragments(loader, pre["cheap"])
        h1 = ol.frag_hashes(loader)
        return [f for f in h1 if h1[f] != pre["hashes"].get(f)]

    def query(self, rec, model, pre, kind):
        """`x in lst` / `lst.index(x)`: they change nothing; `index` answers what a plain Python list of the same objects
        answers; a member (the element itself) is contained, an object that neither is nor equals a member is not.
        (An object that EQUALS a member without being one: a list of objects says yes, a list of elements says no – the
        answer is recorded, not judged.)"""
        import accsession

        st = rec.step
        if rec.outcome != "ok":
            self.find(rec, f"query-raises|{kind}", f"`in` / index() raised {rec.outcome}")
            return
        changed = self.changed(model._loader, pre)
        if changed or ol.index_dump(model._loader) != pre["index"] or ol.uuids(st.rel.get()) != pre["uuids"]:
            self.find(rec, f"query-changed-model|{kind}", f"`in` / index() changed the model (fragments {changed})")
        L = accsession.live(st)
        objs = pre["objs"]
        for x, (c, k) in zip(L["probes"], L["res"]):
            try:
                want_k = objs.index(x)
            except ValueError:
                want_k = "ValueError"
            is_member = any(o._element is x._element for o in objs)
            equals_member = any(o == x for o in objs)
            self.out.hit(f"query.{'member' if is_member else 'equal-non-member' if equals_member else 'stranger'}.in={c}.index={'n' if isinstance(k, int) else k}")
            if k != want_k:
                self.find(rec, f"index-differs-from-python-list|{kind}", f"index({getattr(x, 'uuid', None)}) = {k}; a Python list of the same objects answers {want_k}")
            if is_member and not c:
                self.find(rec, f"member-not-contained|{kind}", f"{getattr(x, 'uuid', None)} is a member but `in` says no")
            if c and not is_member and not equals_member:
                self.find(rec, f"stranger-contained|{kind}", f"{getattr(x, 'uuid', None)} neither is nor equals a member but `in` says yes")

    def frame(self, rec, model, pre, kind, allowed_new: bool):
        """No other element of the model is added, removed or altered, except references to elements
        that an explicit deletion removed (judged on raw element snapshots, not through the API)."""
        import re

        st = rec.step
        snap0, snap1 = pre["snap"], ol.tree_snapshot(model._loader)
        owner = id(st.rel.owner._element)
        gone = set(snap0) - set(snap1)
        added = set(snap1) - set(snap0)

        def ident(sig):
            return dict(sig[1]).get("id")

        def refs(sig):
            return set(re.findall(r"#([0-9a-f-]{36})", " ".join(v for k, v in sig[1] if k != "id")))

        def under(nid, roots, snap) -> bool:
            while nid is not None:
                if nid in roots:
                    return True
                nid = snap[nid][1] if nid in snap else None
            return False

        # what the operation explicitly removes from the list
        explicit = set()
        if st.op == "delitem":
            explicit = {st.args.get("uuid")}
        elif st.op == "remove":
            explicit = {pre.get("victim_uuid")}
        elif st.op == "setslice":
            explicit = set(pre["uuids"][st.args["a"]:st.args["b"]]) - set(st.args["new_uuids"])
        elif st.op == "setitem":
            n = len(pre["uuids"])
            i = st.args["i"]
            explicit = {pre["uuids"][i]} if -n <= i < n and pre["uuids"][i] != st.args.get("uuid") else set()
        elif st.op == "clear":
            explicit = set(pre["uuids"])
        elif st.op == "assign":
            explicit = set(pre["uuids"]) - set(st.args["new_uuids"])
        explicit_roots = {nid for nid in gone if ident(snap0[nid][3]) in explicit}
        gone_ids = {ident(snap0[nid][3]) for nid in gone if ident(snap0[nid][3])}
        alive_ids = {ident(snap1[nid][3]) for nid in snap1 if ident(snap1[nid][3])}
        alive_ids -= pre.get("spanning", set())
        gone_ids |= pre.get("spanning", set())
        moved_id = st.args.get("uuid")
        moved_roots = {nid for nid in snap1 if ident(snap1[nid][3]) == moved_id} if st.op in ("insert", "append", "setitem", "setslice") else set()

        bad = []
        purged = {nid for nid in gone if not under(nid, explicit_roots, snap0) and (refs(snap0[nid][3]) & gone_ids)}
        for nid in gone:
            sig = snap0[nid][3]
            if under(nid, purged, snap0):
                continue   # a purged link element goes with whatever it contains
            if st.rel.contain:
                ok = under(nid, explicit_roots, snap0) or (refs(sig) & gone_ids)
            else:  # link-element / attribute-link lists own their link elements below the owner
                ok = under(nid, {owner}, snap0) or (refs(sig) & gone_ids)
            if not ok:
                bad.append(("removed", sig[0], ident(sig)))
        for nid in added:
            if not under(nid, {owner}, snap1):
                bad.append(("added", snap1[nid][3][0], ident(snap1[nid][3])))
        for nid in set(snap0) & set(snap1):
            a, b = snap0[nid], snap1[nid]
            if a[1] != b[1] and not under(nid, moved_roots, snap1):
                bad.append(("re-parented", a[3][0], ident(a[3])))
            if a[3] != b[3] and nid != owner:
                lost_live = {t for t in refs(a[3]) - refs(b[3]) if t in alive_ids}
                if lost_live:
                    bad.append(("lost-live-reference", a[3][0], sorted(lost_live)[:2]))
                elif not (refs(a[3]) & gone_ids):
                    bad.append(("altered", a[3][0], ident(a[3])))
        if bad:
            kinds = sorted({b[0] for b in bad})
            # class of the history: the object brought in was itself BELOW a member that the assignment drops (it is
            # rescued out of the deleted subtree, fix 94513dd) - the deletion purged the references to it beforehand
            if st.op in ("setitem", "setslice", "assign") and any(n in snap0 and under(snap0[n][1], set(gone), snap0) for n in moved_roots if snap0.get(n) and snap0[n][1] is not None):
                kinds.append("new-member-was-below-a-dropped-member")
            self.find(rec, f"side-effect|{kind}|{st.op}|{'+'.join(kinds)}",
                      f"{st.op} on {st.rel.key()} changed other parts of the model: {bad[:4]} ({len(bad)} in total)")

    def find(self, rec, sig, msg):
        self.out.find(sig, f"{self.key} step {rec.i} {S.describe(rec.step)}: {msg}",
                      {"kind": "history", "model": self.key, "hist": self.hist_id, "step": rec.i, "ops": self.hist[-4:], "failure": sig,
                       **({"script": self.script_plan} if getattr(self, "script_plan", None) else {})})

    def end(self, model):
        pass


def whole_rewrite(rel) -> bool:
    """does the relation's accessor (for a typecast view: the accessor it wraps) rewrite the whole stored sequence from the
    list object it is handed (attribute-link lists) – as opposed to adding / removing single link elements?"""
    from capellambse.model import _descriptors as D

    acc = rel.acc
    if isinstance(acc, D.TypecastAccessor):
        acc = getattr(type(rel.owner), getattr(acc, "attr", ""), acc)
    return isinstance(acc, D.AttrProxyAccessor)


def interleaved(kids: list, view: list) -> bool:
    """are children of other kinds placed between or after the list's members?"""
    pos = [kids.index(v) for v in view if v in kids]
    if not pos:
        return bool(kids)
    return (max(pos) - min(pos) + 1 != len(pos)) or max(pos) != len(kids) - 1


def short(l):
    return [str(x)[:8] for x in l][:8]


class ReloadMonitor:
    """the saved model agrees with the in-memory views (third view)"""

    def __init__(self, out: Outcome, ctx: Ctx):
        self.out, self.ctx = out, ctx
        self.touched: dict = {}

    def start(self, model, scan, key, hist_id):
        self.key, self.hist_id = key, hist_id
        self.touched = {}

    def step(self, rec, model):
        st = rec.step
        if st.rel is not None and rec.outcome == "ok" and getattr(st.rel.owner, "uuid", None):
            try:  # only the primary resource is written by save(); library-owned relations cannot persist
                if model._loader.find_fragment(st.rel.owner._element).parts[0] != "\0":
                    return
            except Exception:  # noqa: BLE001  owner no longer in the model
                return
            self.touched[(st.rel.owner.uuid, st.rel.attr)] = st.rel

    def end(self, model):
        if not self.touched or getattr(model, "_verif_broken_roots", False):
            return   # (a moved fragment root was already reported at the step that caused it)
        capellambse = ol.import_capellambse()
        try:
            model.save()
        except Exception as e:  # noqa: BLE001
            self.out.find(f"save-fails-after-list-edits|{type(e).__name__}", f"{self.key} hist {self.hist_id}: save() raised {type(e).__name__}: {e}",
                          {"kind": "history", "model": self.key, "hist": self.hist_id, "failure": "save"})
            return
        path = model._loader.filehandler.path
        entry = [str(p) for p in __import__("pathlib").Path(str(path)).glob("*.aird")][0]
        kw = {}
        if self.key == "libproj":
            kw["resources"] = {"Library Test": str(__import__("pathlib").Path(str(path)).parent / "Library Test")}
        try:
            m2 = capellambse.MelodyModel(entry, **kw)
        except Exception as e:  # noqa: BLE001
            self.out.find(f"reload-fails-after-list-edits|{type(e).__name__}", f"{self.key} hist {self.hist_id}: reload raised {type(e).__name__}: {e}",
                          {"kind": "history", "model": self.key, "hist": self.hist_id, "failure": "reload"})
            return
        for (ou, attr), rel in self.touched.items():
            try:
                mem = ol.uuids(getattr(model.by_uuid(ou), attr))
            except Exception:  # noqa: BLE001  owner deleted meanwhile
                continue
            try:
                rel2 = ol.uuids(getattr(m2.by_uuid(ou), attr))
            except Exception as e:  # noqa: BLE001
                rel2 = f"!{type(e).__name__}"
            self.out.hit("reload.compared")
            if mem != rel2:
                self.out.find(f"reloaded-view-differs|{rel.kind}", f"{self.key} hist {self.hist_id}: {rel.key()} in memory {short(mem)} but after save+reload {short(rel2) if isinstance(rel2, list) else rel2}",
                              {"kind": "history", "model": self.key, "hist": self.hist_id, "failure": "reloaded-view"})


def unique_scenarios(ctx: Ctx, out: Outcome, key: str, limit: int):
    """Every uniqueness-enforcing link relation found in the model: the same object offered twice, through a
    second (outdated) list object and inside one assigned sequence, must be rejected and change nothing."""
    model = ol.load(ctx, key)
    rng = random.Random(f"c08u:{ctx.seed}:{key}")
    rels = [r for r in objops.discover(model, rng, max_objs=ctx.pick(300, 900)) if getattr(r.acc, "unique", False)]
    seen_acc = set()
    n = 0
    for r in rels:
        if id(r.acc) in seen_acc and rng.random() < 0.7:
            continue
        seen_acc.add(id(r.acc))
        try:
            h1, h2 = r.get(), r.get()
        except Exception:  # noqa: BLE001
            continue
        cands = [c for c in objops.candidates_for(model, r, rng, 12) if c not in h1]
        if not cands:
            continue
        x = rng.choice(cands)
        try:
            h1.append(x)
        except Exception:  # noqa: BLE001
            continue
        n += 1
        out.case(("unique", key, r.key()), {"model": key, "relation": r.key(), "object": getattr(x, "uuid", None)})
        out.hit("unique.scenario")
        before = ol.frag_hashes(model._loader)
        for label, fn in (("second-handle-append", lambda: h2.append(x)),
                          ("assign-sequence-with-duplicate", lambda: setattr(r.owner, r.attr, [*r.get(), x]))):
            try:
                fn()
                accepted = True
            except Exception:  # noqa: BLE001
                accepted = False
            fresh = ol.uuids(r.get())
            if accepted and fresh.count(getattr(x, "uuid", None)) != 1:
                pass
            links = [c for c in r.owner._element if isinstance(c.tag, str) and ("#" + x.uuid) in " ".join(c.attrib.values())]
            if len(links) > 1:
                out.find(f"unique-accepts-duplicate|{r.kind}|{label}", f"{key}: {r.key()}: {label} stored {len(links)} link elements to {x.uuid}",
                         {"kind": "unique", "model": key, "relation": r.key(), "failure": f"unique-accepts-duplicate|{r.kind}|{label}"})
            elif not accepted and ol.frag_hashes(model._loader) != before:
                out.find(f"rejected-op-changed-model|{r.kind}|{label}", f"{key}: {r.key()}: {label} was rejected but the model changed",
                         {"kind": "unique", "model": key, "relation": r.key(), "failure": f"rejected-op-changed-model|{r.kind}|{label}"})
        if n >= limit:
            break


def link_multiplicity_scenarios(ctx: Ctx, out: Outcome, key: str, limit: int):
    """Link-element relations whose link elements are NOT one-to-one with the list members (a target referenced by two
    link elements shows up once; a link element without target is skipped) – found in the model, and made through the
    API on non-unique relations: an object inserted at EVERY index must land where a Python list puts it, in the list
    in hand and in a freshly fetched list; then it is removed again."""
    from capellambse.model import _descriptors as D

    model = ol.load(ctx, key)
    rng = random.Random(f"c08m:{ctx.seed}:{key}")
    found = []
    for obj in ol.all_objects(model):
        cls = type(obj)
        for attr in dir(cls):
            if attr.startswith("_"):
                continue
            acc = getattr(cls, attr, None)
            if type(acc) is not D.LinkAccessor or acc.aslist is None or not acc.tag:
                continue
            nrefs = sum(1 for c in obj._element.iterchildren(acc.tag) if ol.xtype_of(c) in acc.xtypes)
            if nrefs < 2:
                continue
            try:
                lst = getattr(obj, attr)
            except Exception:  # noqa: BLE001
                continue
            rel = objops.Relation(obj, attr, "LinkAccessor", acc)
            if nrefs != len(lst):
                found.append((rel, "natural"))
            elif not acc.unique and len(found) < 3 * limit:
                found.append((rel, "made"))
    rng.shuffle(found)
    found.sort(key=lambda t: t[1] != "natural")   # the ones the model file itself contains first
    n = 0
    for rel, how in found:
        if n >= limit:
            break
        try:
            if how == "made":
                h0 = rel.get()
                h0.append(h0[0])   # a second link element to the first member: the view does not change
                if sum(1 for c in rel.owner._element.iterchildren(rel.acc.tag) if ol.xtype_of(c) in rel.acc.xtypes) == len(rel.get()):
                    continue
            cands = [c for c in objops.candidates_for(model, rel, rng, 12) if c not in rel.get()]
        except Exception:  # noqa: BLE001
            continue
        if not cands:
            continue
        x = rng.choice(cands)
        n += 1
        out.hit(f"link-multiplicity.{how}")
        size = len(rel.get())
        for i in ([0, size] + list(range(1, size)) + [-1])[: ctx.pick(8, 40)]:
            try:
                h = rel.get()
                base = ol.uuids(h)
                h.insert(i, x)
            except Exception as e:  # noqa: BLE001
                out.hit(f"link-multiplicity.insert-rejected.{type(e).__name__}")
                continue
            want = list(base)
            want.insert(i, x.uuid)
            fresh, inhand = ol.uuids(rel.get()), ol.uuids(h)
            out.case(("link-multiplicity", key, rel.key(), idx_class(i, size)), {"model": key, "relation": rel.key(), "i": i, "n": size, "how": how})
            rep = {"kind": "link-multiplicity", "model": key, "relation": rel.key(), "owner": getattr(rel.owner, "uuid", None), "i": i}
            if fresh != want:
                sig = f"fresh-view-differs|LinkAccessor|insert|{idx_class(i, size)}|link-elements-not-one-to-one"
                out.find(sig, f"{key}: {rel.key()} of {getattr(rel.owner, 'uuid', None)} ({how}): insert({i}, x) on {size} members: fresh view {short(fresh)} but a Python list gives {short(want)}", dict(rep, failure=sig))
            if inhand != want:
                sig = "list-in-hand-differs|LinkAccessor|insert|link-elements-not-one-to-one"
                out.find(sig, f"{key}: {rel.key()} ({how}): insert({i}, x): list in hand {short(inhand)} but a Python list gives {short(want)}", dict(rep, failure=sig))
            try:
                rel.get().remove(x)
            except Exception:  # noqa: BLE001
                break


def member_again_scenarios(ctx: Ctx, out: Outcome, key: str, limit: int):
    """Attribute-link lists are plain sequences: offering an object that already is a member (append(lst[0]),
    insert(0, lst[-1])) must give what a Python list gives – in the list in hand, in a freshly fetched list and in
    the stored attribute; a second edit through the same list object must not lose anything."""
    import re as _re

    model = ol.load(ctx, key)
    rng = random.Random(f"c08a:{ctx.seed}:{key}")
    rels = [r for r in objops.discover(model, rng, max_objs=ctx.pick(400, 1200))
            if r.kind == "AttrProxyAccessor" and not (getattr(r.acc, "list_extra_args", None) or {}).get("fixed_length")]
    seen_acc: set = set()
    n = 0
    for r in rels:
        if n >= limit:
            break
        try:
            h = r.get()
        except Exception:  # noqa: BLE001
            continue
        if not len(h) or id(r.acc) in seen_acc:
            continue
        seen_acc.add(id(r.acc))
        n += 1
        orig = list(h)
        want = ol.uuids(h)
        out.hit("member-again.scenario")
        for label, fn, py in (("append-first-member", lambda h=h: h.append(h[0]), lambda l: l + [l[0]]),
                              ("insert-last-member-at-front", lambda h=h: h.insert(0, h[len(h) - 1]), lambda l: [l[-1]] + l),
                              ("append-new-after-duplicates", None, None)):
            if fn is None:
                cands = [c for c in objops.candidates_for(model, r, rng, 8) if c not in h]
                if not cands:
                    continue
                x = cands[0]
                fn, py = (lambda h=h, x=x: h.append(x)), (lambda l, x=x: l + [x.uuid])
            try:
                fn()
            except Exception as e:  # noqa: BLE001
                out.hit(f"member-again.rejected.{type(e).__name__}")
                break
            want = py(want)
            fresh, inhand = ol.uuids(r.get()), ol.uuids(h)
            raw = _re.findall(r"#([A-Za-z0-9_-]+)", r.owner._element.get(r.acc.attr, ""))
            out.case(("member-again", key, r.key(), label), {"model": key, "relation": r.key(), "step": label, "n": len(want)})
            rep = {"kind": "member-again", "model": key, "relation": r.key(), "owner": getattr(r.owner, "uuid", None)}
            for what, got in (("list-in-hand", inhand), ("fresh-view", fresh), ("stored-attribute", raw)):
                if got != want:
                    sig = f"{what}-differs|AttrProxyAccessor|{label}"
                    out.find(sig, f"{key}: {r.key()} of {getattr(r.owner, 'uuid', None)}: after {label} the {what} is {short(got)}, a Python list holds {short(want)}", dict(rep, failure=sig))
        try:
            setattr(r.owner, r.attr, orig)
        except Exception:  # noqa: BLE001
            pass


def shared_tag_scenarios(ctx: Ctx, out: Outcome, key: str, limit: int, req=None, impl=None, meta=None):
    """Link-element relations of one class that store their links under the SAME XML tag (told apart by xsi:type):
    re-assigning or deleting one of them must leave the sibling relations exactly as they were."""
    model = ol.load(ctx, key)
    rng = random.Random(f"c08s:{ctx.seed}:{key}")
    rels = [r for r in objops.discover(model, rng, max_objs=ctx.pick(400, 1200)) if type(r.acc).__name__ == "LinkAccessor" and getattr(r.acc, "tag", None)]
    by_owner: dict = {}
    for r in rels:
        by_owner.setdefault(id(r.owner._element), []).append(r)
    n = 0
    for group in by_owner.values():
        tags: dict = {}
        for r in group:
            tags.setdefault(r.acc.tag, []).append(r)
        for tag, rs in tags.items():
            if len(rs) < 2:
                continue
            try:
                views = {r.attr: ol.uuids(r.get()) for r in rs}
            except Exception:  # noqa: BLE001
                continue
            if sum(1 for v in views.values() if v) < 2:
                continue
            r = rng.choice([x for x in rs if views[x.attr]])
            for label, fn in (("assign-same-members", lambda r=r: setattr(r.owner, r.attr, list(r.get()))),
                              ("delete-relation", lambda r=r: delattr(r.owner, r.attr))):
                lkids = [{"nid": id(c), "tag": c.tag if isinstance(c.tag, str) else "", "xt": ol.xtype_of(c) or ""} for c in r.owner._element]
                ol._KEEP.append(list(r.owner._element))
                try:
                    fn()
                    outcome = "ok"
                except Exception as e:  # noqa: BLE001
                    outcome = type(e).__name__
                if label == "delete-relation" and outcome == "ok" and req is not None:
                    req.append({"op": "clist.linkclear", "lkids": lkids, "tag": r.acc.tag, "xts": sorted(r.acc.xtypes)})
                    impl.append([id(c) for c in r.owner._element])
                    meta.append(("clist.linkclear", "LinkAccessor", "-", len(lkids)))
                n += 1
                out.case(("shared-tag", key, type(r.owner).__name__, r.attr, label, outcome),
                         {"model": key, "owner": type(r.owner).__name__, "relation": r.attr, "tag": tag, "op": label, "outcome": outcome})
                out.hit(f"shared-tag.{label}.{outcome}")
                for sib in rs:
                    if sib is r:
                        continue
                    try:
                        now = ol.uuids(sib.get())
                    except Exception as e:  # noqa: BLE001
                        now = f"!{type(e).__name__}"
                    if now != views[sib.attr]:
                        out.find(f"side-effect|LinkAccessor|{label}|sibling-relation-with-same-tag",
                                 f"{key}: {label} on {type(r.owner).__name__}.{r.attr} changed {sib.attr} (same XML tag {tag}): {short(views[sib.attr])} -> {short(now) if isinstance(now, list) else now}",
                                 {"kind": "shared-tag", "model": key, "failure": f"side-effect|LinkAccessor|{label}|sibling-relation-with-same-tag"})
                if label == "assign-same-members" and outcome == "ok":
                    try:
                        if ol.uuids(r.get()) != views[r.attr]:
                            out.find(f"fresh-view-differs|LinkAccessor|{label}", f"{key}: re-assigning {r.attr} to its own members changed it",
                                     {"kind": "shared-tag", "model": key, "failure": f"fresh-view-differs|LinkAccessor|{label}"})
                    except Exception:  # noqa: BLE001
                        pass
            if n >= limit:
                return


def seed_eq_lists(model, rng: random.Random, out: Outcome | None = None, hosts: int = 3, members: int = 4) -> int:
    """A corpus model that has no list of equality-overriding objects gets some (input construction, before the
    monitored history starts): for every containment relation, of any registered class, whose declared member class
    overrides equality (reflection), `hosts` new owners are created wherever the model already has a list that takes
    objects of the owner class, and each gets `members` new members whose comparison keys are drawn from a two-letter
    alphabet – so equal-but-distinct members occur inside one list and across lists. Returns the number of lists made."""
    from capellambse.model import _descriptors as D
    from capellambse.model import _xtype

    decl = []
    for cls in {c for d in _xtype.XTYPE_HANDLERS.values() for c in d.values()}:
        for attr in dir(cls):
            if attr.startswith("_"):
                continue
            try:
                acc = getattr(cls, attr)
            except Exception:  # noqa: BLE001
                continue
            if type(acc) is D.DirectProxyAccessor and acc.aslist is not None and not acc.rootelem and objops._declared_eq(acc) \
                    and objops.overrides_eq(getattr(acc, "class_", None)) and objops.eq_key(acc.class_):
                decl.append((cls, attr, acc))
    decl.sort(key=lambda t: (t[0].__name__, t[1]))
    made = 0
    objs = ol.all_objects(model)
    for ocls, attr, acc in decl:
        # lists of the model that take objects of the owner class
        homes = []
        for o, a, hacc, lst in ol.coupled_relations(model, objs):
            if type(hacc) is D.DirectProxyAccessor and not hacc.rootelem and getattr(hacc, "class_", None) is ocls:
                homes.append(lst)
        if not homes:
            continue
        key = objops.eq_key(acc.class_)
        for h in range(hosts):
            home = rng.choice(homes)
            try:
                owner = home.create(name=f"eq-host-{h}")
                lst = getattr(owner, attr)
                for _ in range(members):
                    lst.create(**{key: rng.choice(["A", "B"])})
                made += 1
            except Exception as e:  # noqa: BLE001
                if out is not None:
                    out.hit(f"eq-seed.failed.{ocls.__name__}.{attr}.{type(e).__name__}")
                continue
            if out is not None:
                out.hit(f"eq-seed.{ocls.__name__}.{attr}")
    return made


def eq_model(ctx: Ctx, key: str, hist_id: int, out: Outcome | None = None):
    """the corpus model for an equality-steered history; lists of equality-overriding objects are made when it has none"""
    model = ol.load(ctx, key)
    if not objops.eq_owner_elements(model):
        seed_eq_lists(model, random.Random(f"c08eq:{ctx.seed}:{key}:{hist_id}"), out)
        objops._EQ_OWNERS.clear()
    return model


SCRIPT_HIST = 200


def scripted_history(ctx: Ctx, out: Outcome, key: str, limit: int, kinds, observers: list):
    """every list operation in turn (objops.EQ_SCRIPT_OPS) on the relations of `key` that hold equality-overriding
    objects, through the same monitors and the same accessor tie as the random histories"""
    m0 = eq_model(ctx, key, SCRIPT_HIST, out)
    for ob in observers:
        ob.script_plan = [limit, list(kinds) if kinds else None]
    objops.SCRIPT = objops.eq_script(m0, random.Random(f"c08script:{ctx.seed}:{key}"), limit, kinds)
    out.hit(f"eq-script.{key}.relations", len(objops.SCRIPT) // len(objops.EQ_SCRIPT_OPS))
    try:
        S.run_history(ctx, out, key, len(objops.SCRIPT) + 40, observers, weights=W, hist_id=SCRIPT_HIST, model=m0)
    finally:
        objops.SCRIPT = None


def run(ctx: Ctx) -> Outcome:
    import os

    out = Outcome(rule=RULE)
    objops.SAME_RESOURCE_MOVES = True
    objops.PREFER_INTERLEAVED = 0.4
    objops.MEMBER_AGAIN = 0.25
    objops.EQ_OVERRIDE = EQ_OVERRIDE
    req: list = []
    impl: list = []
    meta: list = []
    for key, nh, ns, *eqp in (THOROUGH if ctx.thorough else QUICK):
        for h in range(nh):
            import accsession
            objops.EQ_OVERRIDE = eqp[0] if eqp else EQ_OVERRIDE
            m0 = None
            if eqp:
                h += 100   # histories of their own (another seed than the plain ones on the same model)
                m0 = eq_model(ctx, key, h, out)
            S.run_history(ctx, out, key, ns, [ListMonitor(out, ctx, req, impl, meta), accsession.AccessorTie(out), ReloadMonitor(out, ctx)], weights=W, hist_id=h, model=m0)   # the tie ends before ReloadMonitor saves (save swaps fragment roots)
    objops.EQ_OVERRIDE = 0.0
    for key, limit, kinds in (SCRIPTED_THOROUGH if ctx.thorough else SCRIPTED_QUICK):
        scripted_history(ctx, out, key, limit, kinds, [ListMonitor(out, ctx, req, impl, meta), accsession.AccessorTie(out), ReloadMonitor(out, ctx)])
    for key in (["t52", "t50", "write"] if ctx.thorough else ["t50"]):
        unique_scenarios(ctx, out, key, ctx.pick(6, 30))
        shared_tag_scenarios(ctx, out, key, ctx.pick(6, 30), req, impl, meta)
        link_multiplicity_scenarios(ctx, out, key, ctx.pick(5, 30))
        member_again_scenarios(ctx, out, key, ctx.pick(8, 40))
    # model-only sweep: every index on synthetic child lists (also covered by the theorems)
    rng = random.Random(f"c08:{ctx.seed}")
    for _ in range(ctx.pick(300, 3000)):
        n = rng.randrange(0, 7)
        kids = [[k + 1, rng.random() < 0.6] for k in range(n)]
        view = [k for k, m in kids if m]
        i = rng.randrange(-len(view) - 3, len(view) + 4)
        req.append({"op": "clist.check", "kids": kids, "i": i, "x": 99})
        impl.append(py_apply(view, "insert", {"i": i}, 99))
        meta.append(("clist.check", "synthetic", idx_class(i, len(view)), len(view)))
    if os.environ.get("VERIF_NO_MODEL") != "1" and req:
        answers = common.model(req, driver="CoupledList")
        for m, iv, ans in zip(meta, impl, answers):
            mv = ans.get("ok", {"err": ans.get("err")})
            if m[0] == "clist.assign" and isinstance(mv, list):
                # link elements of the owner that referred to a removed member are purged by the deletion
                # (allowed by the statement); compare the order of what is left
                alive = set(iv)
                mv = [k for k in mv if k in alive]
            if mv != iv:
                out.disagree(m[0], list(m), iv, mv)
            out.hit(f"{m[0]}.{m[2]}")
    return out


def replay(ctx: Ctx, case: dict):
    out = Outcome()
    objops.SAME_RESOURCE_MOVES = True
    objops.PREFER_INTERLEAVED = 0.4
    objops.MEMBER_AGAIN = 0.25
    objops.EQ_OVERRIDE = EQ_OVERRIDE
    if case.get("kind") == "member-again":
        member_again_scenarios(ctx, out, case["model"], 60)
    if case.get("kind") == "link-multiplicity":
        link_multiplicity_scenarios(ctx, out, case["model"], 40)
    plan = {k: ns for k, _, ns, *_e in THOROUGH + QUICK}
    m0 = None
    if case.get("hist", 0) == SCRIPT_HIST:
        plans = [(case["model"], case["script"][0], tuple(case["script"][1]) if case["script"][1] else None)] if case.get("script") else []
        for key, limit, kinds in plans + SCRIPTED_THOROUGH + SCRIPTED_QUICK:
            if key == case["model"]:
                scripted_history(ctx, out, key, limit, kinds, [ListMonitor(out, ctx, [], [], []), ReloadMonitor(out, ctx)])
                break
        for f in out.findings:
            if f.signature == case.get("failure"):
                return f.what
        return None
    if case.get("hist", 0) >= 100:
        objops.EQ_OVERRIDE = 0.8
        m0 = eq_model(ctx, case["model"], case["hist"])
    S.run_history(ctx, out, case["model"], max(plan.get(case["model"], 40), case.get("step", 0) + 1),
                  [ListMonitor(out, ctx, [], [], []), ReloadMonitor(out, ctx)], weights=W, hist_id=case["hist"], model=m0)
    if case.get("kind") == "unique":
        unique_scenarios(ctx, out, case["model"], 30)
    if case.get("kind") == "shared-tag":
        shared_tag_scenarios(ctx, out, case["model"], 30)
    for f in out.findings:
        if f.signature == case.get("failure"):
            return f.what
    return None
