"""C18 — SVG output is well-formed, complete and self-contained.

Correspondence: Lean `Capella.Svg.renderWith` (run on the generated STYLES / marker / symbol tables)
against the real `convert_svgdiagram` + `SVGFormat.convert`: for every (diagram class x element kind x
style class) of the style tables a small diagram is built through the public diagram API, rendered,
re-parsed with lxml and compared with the model: view box, the list of groups (id, class), the set
of referenced ids, the set of ids defined in <defs>. `word_wrap` / `check_for_vertical_overflow`
are compared with `Capella.Wrap` on seeded texts, the text-extent function being passed as a table.
Monitor (no model): well-formed XML, unique ids, every url(#..)/href="#.." resolves, exactly one
top-level group per visible element with its id and style class, hidden elements absent, view box =
viewport + margin, label text recoverable from the tspans modulo wrapping / ellipsis — on the
generated diagrams and on every diagram of the corpus models.
"""

from __future__ import annotations

import fractions
import itertools
import json
import os
import re
import sys

import common
from common import Ctx, Outcome

DRIVERS = ["Svg"]
TABLES = True
LEVEL = "proof"
RULE = ("exhaustive product of the generated style tables: every diagram class of STYLES (+ None) x element kind "
        "{box, symbol, box_symbol, edge, circle, port-on-a-box} x every style class of the matching element type (Box.* "
        "resp. Edge.*, + the port classes), each as a small diagram at the library's minimum sizes (148x69 boxes, 30x30 "
        "symbols, 10x10 ports) in several variants (plain / label / label+children+features+floating labels+hidden sibling "
        "/ style overrides: stroke, gradient fill, text_fill, every marker factory on marker-start/-end); labels drawn by a "
        "seeded generator over the XML-legal alphabet (markup characters, tabs/newlines, non-ASCII, non-BMP); plus all "
        "diagrams of the corpus models (monitor only); histories: seeded diagrams of 2-7 elements that share markers, strokes, "
        "gradients, icons and icon dependencies (the <defs> section compared as a sequence); label builders of 1-3 seeded labels "
        "in boxes from negative to unbounded size (render_hbounded_lines); seeded strings through svgwrite's text/attribute "
        "serialisation. distinct = distinct (diagram class, kind, style class, variant) resp. distinct generated input; "
        "non-trivial = all of them (every case draws at least one element / renders at least one label)")
ASSUMPTIONS = [
    "svgwrite's escaping is assumed to be xml.etree's _escape_cdata/_escape_attrib (Model/SvgText.lean) and compared with the real "
    "TSpan/Group serialisation on every run; its attribute validation (beyond rx/ry on <use>) is exercised, not modelled",
    "style-override colours are opaque RGB and gradients have two stops (what the aird parser produces; others make the renderer raise)",
    "PIL font metrics are a parameter: text wrapping is proved for every extent function and compared through an extent table",
    "label geometry (positions of text and icons) is not modelled: C18 is partial for label placement",
    "style-override values are colours (RGB), gradients (lists of RGB), numbers and names of existing marker factories; "
    "CSS colour strings other than #RGB/#RRGGBB[AA] and arbitrary url(...) strings are outside the modelled input space",
    "ports are drawn attached to a parent box (a port without parent makes _get_port_transformation raise KeyError)",
]
TRUSTED = ["C18: lxml as XML parser for the re-parse; harness construction of diagrams through capellambse.diagram"]
MANIFEST = dict(
    text=("Lean theorems over a model of get_style, Styling (marker/gradient references), Drawing._deploy_defs, "
          "_add_decofactory/get_svg_symbol, draw_object and its draw functions (reduced to the group added, ids referenced, "
          "ids deployed), the JSON encoder's hidden filter and DiagramMetadata: for every table with a well-formed symbol "
          "table, every diagram class, object and style override for which drawing succeeds, every referenced id (marker, "
          "gradient, symbol, references inside deployed symbols) is deployed; one group per visible element in order with "
          "its id and class; hidden elements absent; view box = rounded viewport -10/-10/+20/+20; word_wrap preserves the "
          "word sequence for every extent function and vertical overflow only truncates and appends '...'. Round 3: the <defs> "
          "section as a state machine (Drawing._deploy_defs with defs_ids, _add_decofactory with deco_cache): every reference is "
          "defined through every shortcut, no child of <defs> is deployed twice, each id a group references is the id of exactly "
          "one child, _generate_id is injective; every element without style overrides draws for every diagram class and style "
          "class (or is the known rx/ry rejection); render_hbounded_lines returns the label's words or a marked prefix, dots iff "
          "overflow, no character invented; given xml.etree's escaping the text and attribute nodes are XML-safe. The live STYLES, "
          "marker and symbol tables are generated into Lean with kernel-checked well-formedness obligations. Tie: exhaustive "
          "render-and-reparse of every (diagram class x kind x style class) combination against the model, plus an independent "
          "monitor on generated and corpus diagrams."),
    design_ref="§6 C18",
    note=("Partial for label placement: PIL metrics are a parameter, svgwrite's escaping is a stated assumption compared on every run; "
          "success of drawing with style overrides is established by the exhaustive run, not proved. Ids defined inside symbol "
          "fragments are not unique (brown_oval, identical definitions): observation, kept as _fails/_partial theorems. "
          "Trusted: Lean kernel, lxml re-parse, harness diagram construction."),
    technique="Lean 4 proof (generic closure theorem + generated tables checked by decide +kernel; induction for wrapping) + exhaustive render/re-parse correspondence",
)

SVGNS = "{http://www.w3.org/2000/svg}"
MIN_BOX = (148, 69)
MIN_SYMBOL = (30, 30)

# ------------------------------------------------------------------ label alphabet

ALPHA = (list("abcXYZ019") + list("<>&\"'") + [" ", " ", " ", "\t", "\n", "\r\n", " ", "　"] +
         list("éßΩ漢") + ["\U0001F600", "é", "​", " ", "\u0085", "�", "", "\U0010FFFF", "-", "•", "...", "]]>", "&amp;", "<b>"])


def gen_label(rng, n=None) -> str:
    n = n if n is not None else rng.randint(1, 14)
    s = "".join(rng.choice(ALPHA) for _ in range(n))
    return s if s.strip() else s + "x"


def py_words(s: str) -> list[str]:
    return s.split()


# ------------------------------------------------------------------ descriptors -> capellambse diagram / model input


def rgb_hex(c) -> str:
    return c.tohex()


def val_to_model(v):
    from capellambse.diagram import capstyle

    if v is None:
        return None
    if isinstance(v, capstyle.RGB):
        return {"str": "#" + v.tohex()}  # JSON encoder: str(RGB)
    if isinstance(v, (list, tuple)):
        return {"grad": [x.tohex() for x in v]}
    if isinstance(v, (int, float)):
        return {"num": str(v)}
    return {"str": str(v)}


def build(desc: dict):
    """desc -> (capellambse Diagram, model request elems, visible uuids in order, hidden uuids, label expectations)."""
    from capellambse import diagram

    dg = diagram.Diagram("verif", styleclass=desc["dc"])
    elems, visible, hidden, labels = [], [], [], {}
    y = 10

    def mobj(kind, uuid, cls, ctx, has_label, nfl, nel, nfeat, children, descr, style):
        return {"kind": kind, "id": uuid, "cls": cls, "context": sorted(ctx), "hasLabel": has_label, "nFloating": nfl,
                "nEdgeLabels": nel, "nFeatures": nfeat, "hasChildren": children, "hasDescription": descr,
                "style": [[k, val_to_model(v)] for k, v in style.items()]}

    def revive(v):  # a replay file stores RGB tuples as JSON lists
        from capellambse.diagram import capstyle

        if isinstance(v, list) and v and all(isinstance(x, (int, float)) for x in v) and len(v) in (3, 4):
            return capstyle.RGB(*v)
        if isinstance(v, list):
            return [revive(x) for x in v]
        return v

    for e in desc["elems"]:
        kind = e["kind"]
        st = {k_: revive(v_) for k_, v_ in (e.get("style") or {}).items()}
        ctx = e.get("context") or []
        hid = bool(e.get("hidden"))
        if kind in ("box", "symbol", "box_symbol"):
            size = MIN_SYMBOL if kind == "symbol" else MIN_BOX
            size = e.get("size", size)
            fl = [diagram.Box((12, y + 80), (60, 14), label=t_) for t_ in e.get("floating", [])]
            box = diagram.Box((10, y), size, label=e.get("label", ""), floating_labels=fl or None, uuid=e["uuid"],
                              styleclass=e["cls"], styleoverrides=st or None, features=list(e.get("features") or []) or None,
                              hidden=hid, context=ctx, description=e.get("description"))
            if kind != "box":
                box.JSON_TYPE = kind
            dg.add_element(box)
            kids = []
            for ch in e.get("children", []):
                cb = diagram.Box((20, y + 20), (60, 30), label=ch.get("label", ""), uuid=ch["uuid"], styleclass=ch["cls"], parent=box,
                                 hidden=bool(ch.get("hidden")))
                dg.add_element(cb)
                kids.append((ch, cb))
            ports = []
            for p in e.get("ports", []):
                pb = diagram.Box((5, y + 30), (10, 10), uuid=p["uuid"], styleclass=p["cls"], parent=box, port=True,
                                 floating_labels=[diagram.Box((0, y + 45), (40, 12), label=t_) for t_ in p.get("floating", [])] or None)
                pb.JSON_TYPE = "symbol"
                dg.add_element(pb)
                ports.append((p, pb))
            has_kids = any(True for _ in kids)
            # `floating_labels` is emitted when the list is not None (an empty list is stored for None) and not hidelabel
            elems.append({"hidden": hid, "obj": mobj(kind, e["uuid"], e["cls"], set(ctx) | set(), bool(e.get("label")), len(fl), 0,
                                                    len(e.get("features") or []), has_kids, e.get("description") is not None, st)})
            (hidden if hid else visible).append(e["uuid"])
            if not hid:
                exp = []
                if kind != "symbol" and e.get("label") and e.get("description") is None:
                    exp.append(e["label"])
                if e.get("description") is None:
                    exp += list(e.get("floating", []))
                if not e.get("features") and e.get("description") is None:
                    labels[e["uuid"]] = exp
            for ch, cb in kids:
                chid = bool(ch.get("hidden"))
                elems.append({"hidden": chid, "obj": mobj("box", ch["uuid"], ch["cls"], set(), bool(ch.get("label")), 0, 0, 0, False, False, {})})
                (hidden if chid else visible).append(ch["uuid"])
                if not chid:
                    labels[ch["uuid"]] = [ch["label"]] if ch.get("label") else []
            for p, pb in ports:
                elems.append({"hidden": False, "obj": mobj("symbol", p["uuid"], p["cls"], set(), False, len(p.get("floating", [])), 0, 0, False, False, {})})
                visible.append(p["uuid"])
                labels[p["uuid"]] = list(p.get("floating", []))
            y += 140
        elif kind == "edge":
            lbls = [diagram.Box((30, y + 5), (80, 14), label=t_) for t_ in e.get("edge_labels", [])]
            lbls += [diagram.Box((30, y + 25), (80, 14), label="hidden label", hidden=True) for _ in range(e.get("hidden_labels", 0))]
            ed = diagram.Edge([(10, y), (120, y), (120, y + 30)], labels=lbls or None, uuid=e["uuid"], styleclass=e["cls"],
                              styleoverrides=st or None, hidden=hid, context=ctx)
            dg.add_element(ed)
            elems.append({"hidden": hid, "obj": mobj("edge", e["uuid"], e["cls"], set(ctx), False, 0, len(e.get("edge_labels", [])), 0, False, False, st)})
            (hidden if hid else visible).append(e["uuid"])
            if not hid:
                labels[e["uuid"]] = list(e.get("edge_labels", []))
            y += 60
        elif kind == "circle":
            c = diagram.Circle((40, y + 10), 5, uuid=e["uuid"], styleclass=e["cls"], styleoverrides=st or None, hidden=hid, context=ctx)
            dg.add_element(c)
            elems.append({"hidden": hid, "obj": mobj("circle", e["uuid"], e["cls"], set(ctx), False, 0, 0, 0, False, False, st)})
            (hidden if hid else visible).append(e["uuid"])
            if not hid:
                labels[e["uuid"]] = []
            y += 40
        else:
            raise ValueError(kind)
    # `context` is a field of the element (adding children / ports extends it): read it back from the objects
    by_uuid = {el.uuid: el for el in dg}
    for me in elems:
        me["obj"]["context"] = sorted(by_uuid[me["obj"]["id"]].context)
    return dg, elems, visible, hidden, labels


def frac(x) -> list[int]:
    f = fractions.Fraction(x)
    return [f.numerator, f.denominator]


# ------------------------------------------------------------------ SVG side


def parse_svg(svg: str):
    from lxml import etree

    root = etree.fromstring(svg.encode("utf-8"))
    ids, refs = [], set()
    for el in root.iter():
        if not isinstance(el.tag, str):
            continue
        for k, v in el.attrib.items():
            if k == "id":
                ids.append(v)
            if k.split("}")[-1] == "href" and v.startswith("#"):
                refs.add(v[1:])
            for m in re.finditer(r"url\(\s*[\"']?#([^)\"']+)", v):
                refs.add(m.group(1))
    defs_ids = [el.get("id") for d in root.iter(SVGNS + "defs") for el in d.iter() if isinstance(el.tag, str) and el.get("id") is not None]
    groups = [(g.get("id"), g.get("class")) for g in root if g.tag == SVGNS + "g"]
    vb = [float(x) for x in root.get("viewBox").split()]
    return root, ids, refs, defs_ids, groups, vb


DEF_KIND = {"symbol": "symbol", "marker": "marker", "linearGradient": "gradient", "radialGradient": "gradient"}


def defs_sequence(root) -> list:
    """children of <defs> in document order: [kind, id, [every id defined inside, in document order]]"""
    out = []
    for d in root.iter(SVGNS + "defs"):
        if d.getparent() is not root:
            continue
        for el in d:
            if not isinstance(el.tag, str):
                continue
            tag = el.tag.split("}")[-1]
            out.append([DEF_KIND.get(tag, tag), el.get("id") or "", [x.get("id") for x in el.iter() if isinstance(x.tag, str) and x.get("id") is not None]])
    return out


def group_texts(root, gid):
    """list of text elements (each: list of tspan strings) inside the top-level group with that id"""
    out = []
    for g in root:
        if g.tag == SVGNS + "g" and g.get("id") == gid:
            for t_ in g.iter(SVGNS + "text"):
                out.append(["".join(ts.itertext()) for ts in t_.iter(SVGNS + "tspan")])
    return out


def match_labels(rendered_words: list[str], labels: list[str]) -> str | None:
    """rendered words must be, label by label, the label's words or a prefix of them ending in '...'"""
    i = 0
    for lab in labels:
        ws = py_words(lab)
        k = 0
        truncated = False
        while k < len(ws):
            if i < len(rendered_words) and rendered_words[i] == ws[k]:
                i += 1
                k += 1
                continue
            if i < len(rendered_words) and rendered_words[i] == ws[k] + "...":
                i += 1
                truncated = True
                break
            if i < len(rendered_words) and rendered_words[i] == "...":  # the cut fell on a blank line
                i += 1
                truncated = True
                break
            if i == len(rendered_words) and i > 0 and rendered_words[-1].endswith("..."):
                return None  # cut right after a word that itself ends in "..." (or a blank line): marked
            return f"label {lab!r}: word {k} ({ws[k]!r}) not found at rendered position {i} ({rendered_words[i:i + 3]!r})"
        del truncated
    if i != len(rendered_words):
        return f"extra rendered words {rendered_words[i:i + 5]!r}"
    return None


def monitor(out: Outcome, case: dict, svg: str | None, err: BaseException | None, dg, visible, hidden, labels):
    """Direct encoding of the statement on the rendered string."""
    def fail(cls, what):
        out.find(f"render|{cls}", f"{what} [dc={case.get('dc')!r} kind={case.get('kind')} cls={case.get('cls')} variant={case.get('variant')}]", case)

    if err is not None:
        msg = str(err)
        m = re.search(r"Invalid attribute '([\w-]+)' for svg-element <(\w+)>", msg)
        m2 = re.search(r"'(.*?)' is not a valid value for attribute '([\w-]+)'", msg)
        reason = (f"invalid-attribute-{m.group(1)}-on-{m.group(2)}" if m else
                  f"invalid-value-{m2.group(1)}-for-{m2.group(2)}" if m2 else "other")
        fail(f"raises:{type(err).__name__}|{reason}", f"rendering raised {type(err).__name__}: {msg[:160]}")
        return None
    try:
        root, ids, refs, defs_ids, groups, vb = parse_svg(svg)
    except Exception as e:  # noqa: BLE001
        fail("not-well-formed", f"XML parse error: {e}")
        return None
    dup = sorted({i for i in ids if ids.count(i) > 1})
    if dup:  # not part of the statement (id uniqueness is validity, not well-formedness): reported as information only
        out.extra.setdefault("duplicate_ids_seen", [])
        for x in dup:
            if x not in out.extra["duplicate_ids_seen"]:
                out.extra["duplicate_ids_seen"].append(x)
        from lxml import etree

        for x in dup:  # ... but a reference to an id with two *different* definitions does not point to "a definition"
            forms = {etree.tostring(el, method="c14n") for el in root.iter() if isinstance(el.tag, str) and el.get("id") == x}
            if len(forms) > 1 and x in refs:
                fail("ambiguous-ref", f"id {x!r} is referenced and has {len(forms)} different definitions")
    top = [e[1] for e in defs_sequence(root)]
    if len(top) != len(set(top)):  # the same marker / gradient / symbol deployed twice: harmless when identical, information only
        out.extra.setdefault("defs_children_with_same_id", [])
        for x in sorted({i for i in top if top.count(i) > 1}):
            if x not in out.extra["defs_children_with_same_id"]:
                out.extra["defs_children_with_same_id"].append(x)
    dangling = sorted(refs - set(ids))
    if dangling:
        classes = {e.styleclass for e in dg}
        kinds = sorted({"marker" if "Mark_" in d else
                        ("symbol-of-class" if d[: -len("Symbol")] in classes or d[: -len("FeatureSymbol")] in classes else "symbol-dependency") if d.endswith("Symbol")
                        else "gradient" if "radient" in d else "other" for d in dangling})
        fail("dangling-ref:" + "+".join(kinds), f"references without definition: {dangling[:5]}")
    gids = [g[0] for g in groups]
    if gids != visible:
        fail("groups", f"top-level groups {gids[:8]} != visible elements {visible[:8]}")
    by_uuid = {e.uuid: e for e in dg}
    for gid, gcls in groups:
        el = by_uuid.get(gid)
        if el is None:
            continue
        toks = (gcls or "").split()
        if el.styleclass not in toks or not toks or toks[0] not in ("Box", "Edge", "Circle"):
            fail("group-class", f"group {gid} has class {gcls!r}, element style class {el.styleclass!r}")
    for h in hidden:
        if h in ids:
            fail("hidden-present", f"hidden element {h} appears as an id")
    vp = dg.viewport
    want = [vp.pos.x - 10, vp.pos.y - 10, vp.size.x + 20, vp.size.y + 20] if vp is not None else [-10, -10, 20, 20]
    if any(abs(a - b) > 1 for a, b in zip(vb, want)):  # coordinates are rounded to an adjacent integer (`_intround`)
        fail("viewbox", f"viewBox {vb} != viewport + margin {want}")
    for uid, labs in labels.items():
        texts = group_texts(root, uid)
        rendered = [w for t_ in texts for line in t_ for w in py_words(line)]
        problem = match_labels(rendered, labs)
        if problem:
            fail("label-text", f"element {uid}: {problem}")
    return root, ids, refs, defs_ids, groups, vb


def render_real(dg):
    from capellambse.model import diagram as MD

    return MD.SVGFormat.convert(MD.convert_svgdiagram(dg))


# ------------------------------------------------------------------ case generation


def table_classes():
    from capellambse.diagram import capstyle
    from capellambse.svg import decorations

    box, edge = set(), set()
    for d in capstyle.STYLES.values():
        for oc in d:
            if oc.startswith("Box."):
                box.add(oc[4:])
            elif oc.startswith("Edge."):
                edge.add(oc[5:])
    ports = sorted(decorations.all_ports)
    dcs = [None] + [k for k in capstyle.STYLES if k != "__GLOBAL__"]
    return dcs, sorted(box - set(ports)), sorted(edge), ports


def variants(ctx: Ctx, kind: str, cls: str, markers: list[str]):
    """(variant name, element descriptors)"""
    from capellambse.diagram import capstyle

    RGB = capstyle.RGB
    rng = ctx.rng
    u = "_el-1"
    if kind in ("box", "symbol", "box_symbol"):
        yield "plain", [{"kind": kind, "uuid": u, "cls": cls}]
        yield "label", [{"kind": kind, "uuid": u, "cls": cls, "label": gen_label(rng), "context": ["_ctx-a", "_ctx-b"]}]
        yield "rich", [
            {"kind": kind, "uuid": u, "cls": cls, "label": gen_label(rng), "floating": [gen_label(rng, 4)],
             "features": ["feat <a> &amp; b", gen_label(rng, 5)] if kind == "box" else [],
             "children": [{"uuid": "_kid-1", "cls": cls, "label": "kid"}, {"uuid": "_kid-2", "cls": cls, "label": "hidden kid", "hidden": True}] if kind == "box" else [],
             "ports": [{"uuid": "_port-1", "cls": "FIP", "floating": ["p1"]}, {"uuid": "_port-2", "cls": "CP_INOUT"}, {"uuid": "_port-3", "cls": "PP"}] if kind == "box" else []},
            {"kind": kind, "uuid": "_hidden-1", "cls": cls, "label": "must not appear", "hidden": True}]
        yield "override", [{"kind": kind, "uuid": u, "cls": cls, "label": "lbl" if kind != "symbol" else "", "floating": ["fl"] if kind != "box" else [],
                            "style": {"stroke": RGB(1, 2, 3), "fill": [RGB(10, 20, 30), RGB(200, 210, 220)], "text_fill": RGB(9, 9, 9), "stroke-width": 3}}]
    elif kind == "edge":
        yield "plain", [{"kind": "edge", "uuid": u, "cls": cls}]
        yield "label", [{"kind": "edge", "uuid": u, "cls": cls, "edge_labels": [gen_label(rng)], "hidden_labels": 1, "context": ["_ctx-a"]},
                        {"kind": "edge", "uuid": "_hidden-1", "cls": cls, "hidden": True, "edge_labels": ["must not appear"]}]
        yield "override", [{"kind": "edge", "uuid": u, "cls": cls, "edge_labels": ["l"], "style": {"stroke": RGB(1, 2, 3), "stroke-width": 3, "text_fill": [RGB(1, 1, 1), RGB(2, 2, 2)]}}]
        for m in markers:
            yield f"marker-end={m}", [{"kind": "edge", "uuid": u, "cls": cls, "style": {"marker-end": m}}]
        yield "marker-start+stroke", [{"kind": "edge", "uuid": u, "cls": cls, "style": {"marker-start": markers[rng.randrange(len(markers))], "stroke": RGB(0xAB, 0xCD, 0xEF)}}]
    elif kind == "circle":
        yield "plain", [{"kind": "circle", "uuid": u, "cls": cls, "context": ["_ctx-a"]}]
        yield "override", [{"kind": "circle", "uuid": u, "cls": cls, "style": {"stroke": RGB(4, 5, 6)}},
                           {"kind": "circle", "uuid": "_hidden-1", "cls": cls, "hidden": True}]
    elif kind == "port":
        yield "plain", [{"kind": "box", "uuid": "_parent", "cls": "LogicalComponent", "label": "parent", "ports": [{"uuid": u, "cls": cls}]}]
        yield "label", [{"kind": "box", "uuid": "_parent", "cls": "LogicalComponent", "label": "parent", "ports": [{"uuid": u, "cls": cls, "floating": [gen_label(rng, 5)]}]}]


HISTORY_BOX = ["Mission", "Capability", "OperationalCapability", "LogicalHumanActor", "SystemHumanActor", "LogicalHumanComponent",
               "PhysicalNodeHumanActor", "StickFigure", "StandaloneStickFigure", "Error", "NoSuchClass", "Note", "Requirement", "Class",
               "Enumeration", "LogicalFunction", "SystemFunction", "LogicalComponent", "FunctionalExchange", "State", "Mode"]


def gen_history(rng, box_classes, edge_classes, markers, ports):
    """a diagram of several elements that share (or nearly share) markers, strokes, gradients, icons and icon dependencies:
    what the second, third ... `draw_object` does depends on what the earlier ones left in <defs> and `deco_cache`"""
    from capellambse.diagram import capstyle

    RGB = capstyle.RGB
    # values the aird parser can produce: opaque colours, two-stop gradients (`get_style`: "a two-element list of RGBs").
    # Outside that space the renderer raises: RGB with alpha < 1 -> '#RRGGBBAA' rejected by svgwrite; a gradient of n != 2
    # colours -> `_make_lgradient` ValueError (stop_opacity has two entries). Observed by this generator, recorded in design/C18.md.
    strokes = [RGB(1, 2, 3), RGB(0xAB, 0xCD, 0xEF), RGB(0, 0, 0), RGB(0xAB, 0xCD, 0xEE)]
    grads = [[RGB(10, 20, 30), RGB(200, 210, 220)], [RGB(1, 1, 1), RGB(2, 2, 2)], [RGB(200, 210, 220), RGB(10, 20, 30)], [RGB(7, 7, 7), RGB(7, 7, 7)]]
    elems, tags = [], set()
    for i in range(rng.randint(2, 7)):
        kind = rng.choice(["box", "box", "box", "edge", "edge", "symbol", "box_symbol", "circle", "port"])
        u = f"_h-{i}"
        st = {}
        if kind == "edge":
            cls = rng.choice(edge_classes)
            r = rng.random()
            if r < 0.5:
                st[rng.choice(["marker-end", "marker-start"])] = rng.choice(markers)
            if r < 0.2:
                st["marker-start"] = rng.choice(markers)
            if rng.random() < 0.5:
                st["stroke"] = rng.choice(strokes)
            if rng.random() < 0.2:
                st["text_fill"] = rng.choice(grads)
            if rng.random() < 0.15:
                st["stroke-width"] = rng.choice([1, 3])
            elems.append({"kind": "edge", "uuid": u, "cls": cls, "style": st, "edge_labels": ["el"] if rng.random() < 0.6 else []})
        elif kind == "circle":
            if rng.random() < 0.5:
                st["stroke"] = rng.choice(strokes)
            elems.append({"kind": "circle", "uuid": u, "cls": rng.choice(edge_classes), "style": st})
        elif kind == "port":
            elems.append({"kind": "box", "uuid": u, "cls": rng.choice(box_classes), "label": "p" if rng.random() < 0.5 else "",
                          "ports": [{"uuid": u + "-p", "cls": rng.choice(ports), "floating": ["pl"] if rng.random() < 0.3 else []}]})
        else:
            cls = rng.choice(HISTORY_BOX) if rng.random() < 0.6 else rng.choice(box_classes)
            for key in ("fill", "text_fill", "stroke"):
                if rng.random() < 0.25:
                    st[key] = rng.choice(grads) if key != "stroke" or rng.random() < 0.3 else rng.choice(strokes)
            e = {"kind": kind, "uuid": u, "cls": cls, "style": st}
            r = rng.random()
            if kind == "symbol":
                if r < 0.4:
                    e["floating"] = ["fl"]
            else:
                if r < 0.7:
                    e["label"] = "lbl"
                if kind == "box" and rng.random() < 0.3:
                    e["features"] = ["f1", "f2"]
                if rng.random() < 0.2:
                    e["floating"] = ["fl"]
            if rng.random() < 0.1:
                e["hidden"] = True
            elems.append(e)
        tags.add(kind)
    return elems


# ------------------------------------------------------------------ the run


def _imports():
    if str(common.REPO) not in sys.path:
        sys.path.insert(0, str(common.REPO))
    import logging

    logging.disable(logging.CRITICAL)
    import capellambse  # noqa: F401


def run_case(out: Outcome, case: dict, requests: list, pending: list, use_model: bool, seq=None):
    dg, elems, visible, hidden, labels = build(case)
    svg, err = None, None
    try:
        svg = render_real(dg)
    except Exception as e:  # noqa: BLE001
        err = e
    parsed = monitor(out, case, svg, err, dg, visible, hidden, labels)
    vp = dg.viewport
    req = {"op": "svg.render", "dc": case["dc"], "elems": elems,
           "viewport": None if vp is None else {"x": frac(vp.pos.x), "y": frac(vp.pos.y), "w": frac(vp.size.x), "h": frac(vp.size.y)}}
    if case["dc"] is None:
        del req["dc"]
    if use_model:
        if parsed is None:
            impl = {"raise": type(err).__name__ if err is not None else "not-well-formed"}
        else:
            _root, _ids, refs, defs_ids, groups, vb = parsed
            impl = {"viewBox": [int(x) for x in vb], "groups": [list(g) for g in groups], "refs": sorted(refs), "defs": sorted(set(defs_ids))}
        requests.append(req)
        pending.append((case, impl))
        if seq is not None:  # the <defs> section as a sequence (stateful model `renderS`)
            seq[0].append(dict(req, op="svg.renderS"))
            seq[1].append((case, {"raise": impl["raise"]} if "raise" in impl else
                           {"viewBox": impl["viewBox"], "groups": impl["groups"], "refs": impl["refs"], "defs": defs_sequence(parsed[0])}))


def run(ctx: Ctx) -> Outcome:
    _imports()
    import gen_styles
    from capellambse import helpers as chelpers
    from capellambse.svg import helpers as shelpers

    out = Outcome(rule=RULE)
    use_model = os.environ.get("VERIF_NO_MODEL") != "1"
    requests: list[dict] = []
    pending: list = []
    seq: tuple[list, list] = ([], [])
    dist: dict[str, int] = {}
    live = gen_styles.collect()
    markers = [m["name"] for m in live["markers"]]
    dcs, box_classes, edge_classes, ports = table_classes()
    out.table_obligations = 5 * (-(-len(live["entries"]) // gen_styles.ROWS_PER_CHUNK)) + 2 * (-(-len(live["symbols"]) // gen_styles.ROWS_PER_CHUNK)) + 11

    combos = [(k, c) for k in ("box", "symbol", "box_symbol") for c in box_classes] + \
             [(k, c) for k in ("edge", "circle") for c in edge_classes] + [("port", c) for c in ports]
    n = 0
    for dc in dcs:
        for kind, cls in combos:
            vs = list(variants(ctx, kind, cls, markers))
            if not ctx.thorough:
                keep = {0, 1 + (n % (len(vs) - 1))} if len(vs) > 1 else {0}
                vs = [v for i, v in enumerate(vs) if i in keep]
            n += 1
            for vname, elems in vs:
                case = {"dc": dc, "kind": kind, "cls": cls, "variant": vname, "elems": elems}
                run_case(out, case, requests, pending, use_model, seq)
                out.case((dc, kind, cls, vname), {"dc": dc, "kind": kind, "cls": cls, "variant": vname} if len(out.samples) < 6 and ctx.rng.random() < 0.001 else None)
                out.traces_validated += 1
                dist[f"kind:{kind}"] = dist.get(f"kind:{kind}", 0) + 1
                dist[f"variant:{vname.split('=')[0]}"] = dist.get(f"variant:{vname.split('=')[0]}", 0) + 1

    # ---- histories: several elements on one drawing (what is already in <defs> / deco_cache decides what is added)
    for i in range(ctx.pick(400, 4000)):
        elems = gen_history(ctx.rng, box_classes, edge_classes, markers, ports)
        if i < 3:  # the three icons that share the inner id `brown_oval`, two at a time
            trio = ["Mission", "Capability", "OperationalCapability"]
            elems = [{"kind": "box", "uuid": f"_h-{j}", "cls": c, "style": {}, "label": "lbl"} for j, c in enumerate(trio[:i] + trio[i + 1:])]
        case = {"dc": ctx.rng.choice(dcs), "kind": "history", "cls": "+".join(e["cls"] for e in elems)[:60], "variant": f"history-{i}", "elems": elems}
        run_case(out, case, requests, pending, use_model, seq)
        out.case(("history", case["dc"], json.dumps(elems, sort_keys=True, default=str)), None)
        out.traces_validated += 1
        dist["variant:history"] = dist.get("variant:history", 0) + 1
        dist[f"history_len:{len(elems)}"] = dist.get(f"history_len:{len(elems)}", 0) + 1

    # ---- label fidelity: seeded labels over the XML-legal alphabet on a few classes and sizes
    for i in range(ctx.pick(300, 3000)):
        kind = ctx.rng.choice(["box", "box", "edge", "box_symbol", "symbol"])
        cls = ctx.rng.choice(box_classes if kind != "edge" else edge_classes)
        lab = gen_label(ctx.rng, ctx.rng.randint(1, 40))
        size = (ctx.rng.choice([148, 160, 300]), ctx.rng.choice([69, 80, 200]))
        if kind == "edge":
            elems = [{"kind": "edge", "uuid": "_el-1", "cls": cls, "edge_labels": [lab]}]
        elif kind == "symbol":
            elems = [{"kind": "symbol", "uuid": "_el-1", "cls": cls, "floating": [lab]}]
        else:
            elems = [{"kind": kind, "uuid": "_el-1", "cls": cls, "label": lab, "size": size}]
        case = {"dc": ctx.rng.choice(dcs), "kind": kind, "cls": cls, "variant": "label-alphabet", "elems": elems}
        run_case(out, case, requests, pending, use_model)
        out.case(("label", i, lab), None)
        dist["variant:label-alphabet"] = dist.get("variant:label-alphabet", 0) + 1

    # ---- corpus diagrams (monitor only)
    data = common.REPO / "tests" / "data"
    models = [data / "Library Test", data / "parser", data / "pvmt", data / "melodymodel" / "5_2"]
    if ctx.thorough:
        models += [data / "melodymodel" / "5_0", data / "melodymodel" / "6_0"]
    import capellambse

    ncorpus = 0
    for mp in models:
        try:
            model = capellambse.MelodyModel(mp)
        except Exception as e:  # noqa: BLE001
            out.extra.setdefault("corpus_load_errors", []).append(f"{mp.name}: {e!r}")
            continue
        for d in model.diagrams:
            case = {"dc": None, "kind": "corpus", "cls": mp.name, "variant": d.uuid, "corpus": str(mp.relative_to(data)), "uuid": d.uuid}
            try:
                dg = d.render(None)
                case["dc"] = dg.styleclass
            except Exception as e:  # noqa: BLE001 -- the aird parser is not C18's subject
                out.extra.setdefault("corpus_parse_errors", []).append(f"{mp.name}/{d.uuid}: {type(e).__name__}")
                continue
            svg, err = None, None
            try:
                svg = render_real(dg)
            except Exception as e:  # noqa: BLE001
                err = e
            visible = [e.uuid for e in dg if not e.hidden]
            hidden = [e.uuid for e in dg if e.hidden and e.uuid not in visible]
            monitor(out, case, svg, err, dg, visible, hidden, {})
            out.case(("corpus", mp.name, d.uuid), None)
            ncorpus += 1
    dist["corpus_diagrams"] = ncorpus

    # ---- word_wrap / vertical overflow against the model (extent passed as a table)
    wrap_reqs, wrap_impl = [], []

    def ext_table(strings):
        return [[s, frac(w), frac(h)] for s in sorted(strings) for (w, h) in [chelpers.extent_func(s)]]

    for i in range(ctx.pick(150, 1500)):
        text = gen_label(ctx.rng, ctx.rng.randint(1, 30))
        width = ctx.rng.choice([0, 10, 25, 40, 60, 100, 1000]) + ctx.rng.random()
        lines = text.splitlines()
        cands = set()
        for ln in lines:
            ws = ln.split()
            lead = ln[: len(ln) - len(ln.lstrip())]
            for a in range(len(ws)):
                for b in range(a + 1, len(ws) + 1):
                    j = " ".join(ws[a:b])
                    cands |= {j, lead + j, " " + j, j + "...", lead + j + "...", " " + j + "..."}
            cands |= {ln, ln.lstrip(), lead + "...", "..."}
        cands.add("...")
        real = chelpers.word_wrap(text, width)
        spaces = "".join(sorted({c for c in text if c.isspace()} | {" "}))
        wrap_reqs.append({"op": "svg.wrap", "ext": ext_table(cands), "spaces": spaces, "lines": lines, "width": frac(width)})
        wrap_impl.append(("wrap", text, width, real))
        height = ctx.rng.choice([0, 5, 15, 30, 45, 200]) + ctx.rng.random()
        maxw = max(extent[0] for extent in map(chelpers.extent_func, real)) if ctx.rng.random() < 0.5 else width
        try:
            vreal = shelpers.check_for_vertical_overflow(real, height, maxw)
        except AssertionError:
            vreal = "AssertionError"
        wrap_reqs.append({"op": "svg.voverflow", "ext": ext_table(cands | set(real) | {r + "..." for r in real}), "spaces": spaces, "lines": real,
                          "height": frac(height), "maxw": frac(maxw)})
        wrap_impl.append(("voverflow", real, (height, maxw), vreal))
        out.case(("wrap", i, text), None)
        # monitor: words preserved by wrapping; overflow only truncates
        if [w for ln in real for w in ln.split()] != text.split():
            out.find("word_wrap|words-changed", f"word_wrap({text!r}, {width}) -> {real!r}", {"kind": "wrap", "text": text, "width": width})
    dist["wrap_cases"] = len(wrap_reqs)

    # ---- render_hbounded_lines (horizontal + vertical overflow of all labels of a builder) against `renderLabels`
    from capellambse.svg import drawing as sdrawing

    def label_cands(text):
        c = {"...", ""}
        for ln in text.splitlines():
            ws = ln.split()
            lead = ln[: len(ln) - len(ln.lstrip())]
            for a in range(len(ws)):
                for b in range(a + 1, len(ws) + 1):
                    j = " ".join(ws[a:b])
                    c |= {j, lead + j, " " + j, j + "...", lead + j + "...", " " + j + "..."}
            c |= {ln, ln.lstrip(), lead + "...", ln + "..."}
        return c

    label_reqs, label_impl = [], []
    for i in range(ctx.pick(250, 2500)):
        nlab = ctx.rng.choice([1, 1, 1, 2, 3])
        texts = [gen_label(ctx.rng, ctx.rng.randint(1, 25)) if ctx.rng.random() < 0.7 else
                 " ".join(ctx.rng.choice(["ab", "cde", "Wwwwwwwwwwwwwwwwwwwwwwwwwwwwwwwwww", "i", "x-y", "•", "-"]) for _ in range(ctx.rng.randint(1, 9)))
                 + ctx.rng.choice(["", "\n", "\n\nzz", " \n  indented line"]) for _ in range(nlab)]
        rect_w = ctx.rng.choice([-5, 0, 3, 20, 21, 22, 40, 80, 148, 1500]) + ctx.rng.choice([0, 0, 0.5])
        # line heights are multiples of 10/7: 30 = 21 units and 200 = 140 units are exact float boundaries (see `tie` below)
        rect_h = ctx.rng.choice([-1, 0, 5, 14, 15, 16, 29, 30, 31, 45, 69, 201, float("inf")])
        render_icon = ctx.rng.random() < 0.5
        b = sdrawing.LabelBuilder(rect_w, rect_h, [{"text": t_} for t_ in texts], None, None, icon=render_icon)
        try:
            real = list(sdrawing.render_hbounded_lines(b, render_icon).lines)
        except AssertionError:
            real = "AssertionError"
        cands = set()
        for t_ in texts:
            cands |= label_cands(t_)
        if real != "AssertionError":
            cands |= set(real)
        spaces = "".join(sorted({c for t_ in texts for c in t_ if c.isspace()} | {" "}))
        hval = 10 ** 9 if rect_h == float("inf") else rect_h
        label_reqs.append({"op": "svg.label", "ext": ext_table(cands), "spaces": spaces, "labels": [t_.splitlines() for t_ in texts],
                           "rectW": frac(rect_w), "rectH": frac(hval), "pad": frac(1 if render_icon else 0), "icon": frac(20 if render_icon else 0)})
        # the code adds float line heights, the model exact rationals: when a partial sum lands on the height up to rounding
        # (|sum - height| < 1e-9) the `>` test is decided by the rounding of the float sum -> declared tie, not compared
        tie = False
        if real != "AssertionError":
            for t_ in texts:
                th = 0.0
                for ln in chelpers.word_wrap(t_, rect_w - (21 if render_icon else 0)):
                    lh = chelpers.extent_func(ln)[1]
                    if abs(th + lh - rect_h) < 1e-9:
                        tie = True
                    if th + lh > rect_h:
                        break
                    th += lh
        label_impl.append((texts, (rect_w, rect_h, render_icon), real, tie))
        out.case(("label-lines", i, tuple(texts), rect_w, rect_h, render_icon), None)
        # monitor, straight from the statement: the rendered words are, label by label, the label's words or a marked prefix
        if real != "AssertionError":
            problem = match_labels([w for ln in real for w in ln.split()], texts)
            if problem:
                out.find("render_hbounded_lines|label-text", f"labels {texts!r} in {rect_w}x{rect_h} icon={render_icon}: {problem}",
                         {"kind": "label-lines", "texts": texts, "rect_w": rect_w, "rect_h": "inf" if rect_h == float("inf") else rect_h, "icon": render_icon})
        dist[f"label_lines:{'assert' if real == 'AssertionError' else 'cut' if any(x.endswith('...') for x in real) else 'whole'}"] = \
            dist.get(f"label_lines:{'assert' if real == 'AssertionError' else 'cut' if any(x.endswith('...') for x in real) else 'whole'}", 0) + 1

    # ---- escaping: what svgwrite writes for a text node / an attribute value vs. the assumed escaper; re-parse
    from lxml import etree as _et
    from svgwrite import container as _svgc
    from svgwrite import text as _svgt

    ILLEGAL = ["\x00", "\x01", "\x08", "\x0e", "\x1b", "\ufffe", "\uffff"]
    esc_reqs, esc_impl = [], []
    for i in range(ctx.pick(300, 3000)):
        r = ctx.rng.random()
        s_ = gen_label(ctx.rng, ctx.rng.randint(0, 20)) if r < 0.6 else "".join(ctx.rng.choice(list("<>&\"' \t\n\rab;#1") + ["&amp;", "&#10;", "]]>"]) for _ in range(ctx.rng.randint(0, 12)))
        if r > 0.9:
            s_ += ctx.rng.choice(ILLEGAL) + "z"
        if not s_ or any(0xD800 <= ord(c) <= 0xDFFF for c in s_):  # svgwrite drops an empty attribute; lone surrogates cannot be encoded
            continue
        tx = _svgt.TSpan(text=s_).tostring()
        gx = _svgc.Group(class_=s_, debug=False).tostring()
        mt = re.fullmatch(r"<tspan>(.*)</tspan>", tx, re.S) or re.fullmatch(r"<tspan ?/>()", tx)
        mg = re.fullmatch(r'<g class="(.*)" ?/>', gx, re.S)
        esc_reqs.append({"op": "svg.escape", "s": s_})
        esc_impl.append((s_, mt.group(1) if mt else tx, mg.group(1) if mg else gx))
        out.case(("escape", s_), None)
        # monitor: a string of XML characters comes back from a real parser unchanged (CR in text is normalised by XML itself)
        legal = all(c in "\t\n\r" or 0x20 <= ord(c) <= 0xD7FF or 0xE000 <= ord(c) <= 0xFFFD or ord(c) >= 0x10000 for c in s_)
        try:
            root = _et.fromstring(f"<r>{tx}{gx}</r>".encode("utf-8"))
            back_t, back_a = (root[0].text or ""), root[1].get("class")
            if legal and (back_t != s_.replace("\r\n", "\n").replace("\r", "\n") or back_a != s_):
                out.find("svgwrite|text-not-preserved", f"{s_!r} read back as text {back_t!r} / attribute {back_a!r}", {"kind": "escape", "s": s_})
            dist["escape:legal" if legal else "escape:illegal-but-parsed"] = dist.get("escape:legal" if legal else "escape:illegal-but-parsed", 0) + 1
        except _et.XMLSyntaxError as e:
            if legal:
                out.find("svgwrite|not-well-formed", f"{s_!r}: {e}", {"kind": "escape", "s": s_})
            else:  # outside the quantifier (labels over the XML-legal character set): recorded, not judged
                dist["escape:illegal-char-passes-through-unfiltered"] = dist.get("escape:illegal-char-passes-through-unfiltered", 0) + 1

    # ---- model side
    if use_model:
        # the hypotheses of `every_styled_element_draws` (decidable), evaluated by the driver on every case: where they hold,
        # the implementation must draw (or raise the one rx/ry rejection)
        hyp_answers = common.model([dict(r, op="svg.hyp") for r in seq[0]], driver="Svg")
        for (case, impl), ans in zip(seq[1], hyp_answers):
            holds = ans.get("ok")
            out.hit(f"theorem-domain:every_styled_element_draws:{'holds' if holds else 'outside'}")
            if holds and "raise" in impl and impl["raise"] != "ValueError":
                out.disagree("theorem-domain", {k: case[k] for k in ("dc", "kind", "cls", "variant")} | {"elems": case["elems"]}, impl, "hypotheses hold: must draw")
        seq_answers = common.model(seq[0], driver="Svg")
        for (case, impl), ans in zip(seq[1], seq_answers):
            m = ans.get("ok")
            key = {k: case[k] for k in ("dc", "kind", "cls", "variant")} | {"elems": case["elems"]}
            if m is None:
                out.disagree("driver-error", key, impl, ans)
                continue
            if "raise" in m:
                if "raise" not in impl:
                    out.disagree("defs-sequence", key, impl, {"raise": m["raise"]})
                out.hit("defs-model:raise:" + m["raise"])
                continue
            d = m["ok"]
            mm = {"viewBox": d["viewBox"], "groups": d["groups"], "refs": sorted(set(d["refs"])), "defs": d["defs"]}
            if mm != impl:
                out.disagree("defs-sequence", key, impl, mm)
            # `all_ids_unique_when_no_clash`: the decidable hypothesis, evaluated by the model, against the real document
            real_ids = [i for e_ in impl["defs"] for i in e_[2]]
            real_unique = len(real_ids) == len(set(real_ids))
            if d["noClash"] != real_unique:
                out.disagree("no-clash", key, {"all ids of <defs> pairwise different": real_unique}, {"noClash": d["noClash"]})
            out.hit("defs-model:noClash:" + str(d["noClash"]).lower())
            for b in d["log"]:
                out.hit("defs-model:" + b)
            out.extra["defs_sequence_cases"] = out.extra.get("defs_sequence_cases", 0) + 1
            out.extra["defs_sequence_max_children"] = max(out.extra.get("defs_sequence_max_children", 0), len(d["defs"]))
        for (texts, par, real, tie), ans in zip(label_impl, common.model(label_reqs, driver="Svg")):
            m = ans.get("ok")
            if tie:
                out.hit("label-model:float-boundary-tie(not compared)")
            elif m is None:
                out.disagree("driver-error", {"labels": texts, "param": par}, real, ans)
            elif "assert" in m:
                if real != "AssertionError":
                    out.disagree("label-lines", {"labels": texts, "param": par}, real, "AssertionError")
                out.hit("label-model:assertion")
            else:
                if m["lines"] != real:
                    out.disagree("label-lines", {"labels": texts, "param": par}, real, m["lines"])
                out.hit("label-model:" + ("cut" if any(x.endswith("...") for x in m["lines"]) else "whole"))
        for (s_, it, ia), ans in zip(esc_impl, common.model(esc_reqs, driver="Svg")):
            m = ans.get("ok")
            if m is None or m["text"] != it or m["attr"] != ia:
                out.disagree("escape", s_, {"text": it, "attr": ia}, m if m is not None else ans)
            elif m["legal"] and "\r" not in s_ and m["unescText"] != s_:
                out.disagree("escape-roundtrip", s_, s_, m["unescText"])
            out.hit("escape-model:" + ("legal" if m and m["legal"] else "illegal"))
        answers = common.model(requests + wrap_reqs + [{"op": "svg.dump-tables"}], driver="Svg")
        for (case, impl), ans in zip(pending, answers[: len(requests)]):
            m = ans.get("ok")
            if m is None:
                out.disagree("driver-error", {k: case[k] for k in ("dc", "kind", "cls", "variant")}, impl, ans)
                continue
            if "raise" in m:
                mm = {"raise": m["raise"]}
                ok = "raise" in impl
            else:
                d = m["ok"]
                mm = {"viewBox": d["viewBox"], "groups": d["groups"], "refs": sorted(set(d["refs"])), "defs": sorted(set(d["defs"]))}
                ok = mm == impl
            if not ok:
                out.disagree("render", {k: case[k] for k in ("dc", "kind", "cls", "variant")} | {"elems": case["elems"]}, impl, mm)
            out.hit("model:" + ("raise:" + m["raise"] if "raise" in m else case["kind"]))
        for (stream, a, b, real), ans in zip(wrap_impl, answers[len(requests): len(requests) + len(wrap_reqs)]):
            m = ans.get("ok")
            if real == "AssertionError":
                out.hit("model:voverflow-assert")
                continue
            if m != list(real):
                out.disagree(stream, {"input": a, "param": b}, list(real), m)
            out.hit("model:" + stream)
        dump = answers[-1].get("ok")
        want_styles = [[dc, oc, [[k, _dump_val(v)] for k, v in props]] for dc, oc, props in live["entries"]]
        if dump is None or dump["styles"] != want_styles:
            out.disagree("table-roundtrip", "styles", "live STYLES", "generated table differs")
        want_syms = [[s["name"], s["id"], s["deps"], s["ids"], s["refs"]] for s in live["symbols"]]
        if dump is None or dump["symbols"] != want_syms or dump["markers"] != [[m["name"], m["deps"], m["id_faithful"], m["refs"]] for m in live["markers"]]:
            out.disagree("table-roundtrip", "symbols/markers", "live factories", "generated table differs")
        want_dig = [[s_["name"], i, dg] for s_ in live["symbols"] for i, dg in s_["digests"]]
        if dump is None or dump["digests"] != want_dig:
            out.disagree("table-roundtrip", "symbol id digests", "live factories", "generated table differs")
        if dump is None or any(dump["sets"][k] != live["sets"][k] for k in dump["sets"]):
            out.disagree("table-roundtrip", "sets", "live decoration sets", "generated table differs")
        out.hit("table-roundtrip")
    out.extra["input_distribution"] = dict(sorted(dist.items()))
    out.extra["table_sizes"] = {"style_entries": len(live["entries"]), "markers": len(markers), "symbols": len(live["symbols"]),
                                "diagram_classes": len(dcs), "box_classes": len(box_classes), "edge_classes": len(edge_classes), "ports": len(ports)}
    out.exhaustive = True
    return out


def _dump_val(v):
    from capellambse.diagram import capstyle

    if v is None:
        return None
    if isinstance(v, capstyle.RGB):
        return {"color": v.tohex()}
    if isinstance(v, bool):
        return {"other": repr(v)}
    if isinstance(v, (int, float)):
        return {"num": str(v)}
    if isinstance(v, str):
        return {"str": v}
    if isinstance(v, (list, tuple)) and v and all(isinstance(x, capstyle.RGB) for x in v):
        return {"grad": [x.tohex() for x in v]}
    return {"other": repr(v)}


# ------------------------------------------------------------------ single-case replay


def replay(ctx: Ctx, case: dict) -> str | None:
    _imports()
    out = Outcome()
    if case.get("kind") == "wrap":
        from capellambse import helpers as chelpers

        real = chelpers.word_wrap(case["text"], case["width"])
        if [w for ln in real for w in ln.split()] != case["text"].split():
            return f"word_wrap({case['text']!r}, {case['width']}) -> {real!r} changes the words"
        return None
    if case.get("kind") == "escape":
        from lxml import etree as _et
        from svgwrite import container as _svgc
        from svgwrite import text as _svgt

        s_ = case["s"]
        tx, gx = _svgt.TSpan(text=s_).tostring(), _svgc.Group(class_=s_, debug=False).tostring()
        print(f"replay: {s_!r} written as {tx!r} / {gx!r}")
        try:
            root = _et.fromstring(f"<r>{tx}{gx}</r>".encode("utf-8"))
        except _et.XMLSyntaxError as e:
            return f"not well-formed: {e}"
        if (root[0].text or "") != s_.replace("\r\n", "\n").replace("\r", "\n") or root[1].get("class") != s_:
            return f"read back as {root[0].text!r} / {root[1].get('class')!r}"
        return None
    if case.get("kind") == "label-lines":
        from capellambse.svg import drawing as sdrawing

        rect_h = float("inf") if case["rect_h"] == "inf" else case["rect_h"]
        b = sdrawing.LabelBuilder(case["rect_w"], rect_h, [{"text": t_} for t_ in case["texts"]], None, None, icon=case["icon"])
        try:
            real = list(sdrawing.render_hbounded_lines(b, case["icon"]).lines)
        except AssertionError:
            return None
        print(f"replay: render_hbounded_lines({case['texts']!r}, {case['rect_w']}x{rect_h}, icon={case['icon']}) -> {real!r}")
        problem = match_labels([w for ln in real for w in ln.split()], case["texts"])
        return f"render_hbounded_lines: {problem}" if problem else None
    if case.get("kind") == "corpus":
        import capellambse

        model = capellambse.MelodyModel(common.REPO / "tests" / "data" / case["corpus"])
        d = model.diagrams.by_uuid(case["uuid"])
        dg = d.render(None)
        svg, err = None, None
        try:
            svg = render_real(dg)
        except Exception as e:  # noqa: BLE001
            err = e
        visible = [e.uuid for e in dg if not e.hidden]
        monitor(out, case, svg, err, dg, visible, [e.uuid for e in dg if e.hidden and e.uuid not in visible], {})
    else:
        dg, _elems, visible, hidden, labels = build(case)
        svg, err = None, None
        try:
            svg = render_real(dg)
        except Exception as e:  # noqa: BLE001
            err = e
        monitor(out, case, svg, err, dg, visible, hidden, labels)
        print(f"replay: dc={case['dc']!r} kind={case['kind']} cls={case['cls']} variant={case['variant']}")
        if svg is not None:
            try:
                _r, ids, refs, _d, groups, vb = parse_svg(svg)
                print(f"  groups {groups}\n  viewBox {vb}\n  referenced ids {sorted(refs)}\n  defined ids {sorted(ids)}")
            except Exception as e:  # noqa: BLE001
                print(f"  not well-formed: {e}")
        else:
            print(f"  rendering raised {type(err).__name__}: {err}")
    if out.findings:
        return "; ".join(f"{f.signature}: {f.what}" for f in out.findings)
    return None
