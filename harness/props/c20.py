"""C20 — ReqIF export is closed, unique and covers every requirement exactly once.

Cases: every requirements module of every test model under /repo/tests/data, plus modules reached by
seeded edit histories through the public API (requirements/folders added, removed, moved; attributes of
all six value kinds with and without definition; definitions with and without data type; enumeration
values; requirement/module types; texts with markup-significant characters), exported after every step.

Correspondence: the module as the API presents it is sent to the Lean model `Capella.Reqif` (driver
`Reqif`), whose abstract document (identifiers, *-REF texts, spec objects with values, hierarchy, or the
exception class) is compared with the document re-parsed from the bytes `CapellaModule.to_reqif` wrote.

A second stream (`tree`) compares the model's whole element tree (`Capella.Reqif.Doc.toXml`: header, every tag, attribute,
constant, text, in document order) with the re-parsed bytes; the iteration order of the exporter's sets is observed and
handed to the model as its `setOrder` parameter, so nothing is sorted. A third check exports the same modules in
subprocesses under different PYTHONHASHSEEDs.

Monitor: direct encoding of the property on the exported bytes and the *raw XML* of the model (no
model, no exporter code): second parser accepts the bytes, identifiers unique, every *-REF resolves,
requirements of the raw `ownedRequirements` tree exactly once as SPEC-OBJECT and once in the hierarchy in
depth-first order, fields / values / enumeration choices equal to the raw XML attributes, compressed
output contains byte-identical document.
"""

from __future__ import annotations

import copy
import datetime
import html.parser
import io
import os
import pathlib
import sys
import xml.etree.ElementTree as ET
import zipfile

import common
from common import Ctx, Outcome

DRIVERS = ["Reqif"]
TABLES = False
LEVEL = "proof"
RULE = ("one case = one export of one module state; module states are (a) all CapellaModules of all models under "
        "/repo/tests/data and (b) every prefix of seeded API edit histories on a fresh module (ops: add/remove/move "
        "requirement and folder, set fields from a pool with markup-significant texts, set/unset types, new types with and "
        "without attribute definitions, definitions with/without data type, attributes of the six value kinds with/without "
        "definition — also of the other class —, enumeration values, re-typing a definition's data type) and a folder chain "
        "of depth 96 (quick) / 400 (thorough); each state is exported with one of 6 metadata variants; 9 module states are "
        "exported under 3 (quick) / 6 (thorough) PYTHONHASHSEEDs; distinct = distinct abstract input (module JSON sent to the model); non-trivial = "
        "the module has at least one requirement inside a folder or one attribute")
ASSUMPTIONS = [
    "lxml.html.fromstring + html_to_xhtml (rich-text conversion) is a parameter of the model: the harness computes it with the same library and the model places the result",
    "str(float), datetime.astimezone/strftime and lxml's XML serialisation/escaping are parameters; the monitor re-parses the bytes with lxml and with expat",
    "object identity of types/definitions/data types is identity of uuid (the object layer resolves references by uuid)",
    "the iteration order of the exporter's set[_AttributeDefinition] objects is a parameter of the model (Module.setOrder, any rearrangement); the harness observes it by building the same sets once more (exporter._collect_objects) and the model checks nothing but that it is a rearrangement of what it collects itself",
    "header: the formatted creation time, repr() of the two names in the default comment, capellambse.__version__ and the Capella version string are parameters",
    "the model covers class-violating links and stale enumeration values as coded (AttributeError, dangling ENUM-VALUE-REF); refs_closed_partial states the exact condition under which the document is closed",
    "depth-first order = for every container its `requirements` in order, then its `folders` in order, recursively (the two lists the object layer exposes); folders themselves are not exported",
]
TRUSTED = ["C20: harness extraction of the module into JSON (harness/props/c20.py: describe) and the re-parse of the exported bytes (parse_doc)"]
MANIFEST = dict(
    text=("Lean theorems over a model of the ReqIF exporter (collection of used types/definitions, datatypes, spec types, "
          "spec objects, hierarchy, identifier rendering, compress decision, and the element tree with header, constants and "
          "LAST-CHANGE that is serialised): for every module tree and every iteration order of the exporter's sets every *-REF "
          "is defined in the document (exact condition: every enumeration choice belongs to an emitted data type), the generic "
          "scans of the element tree for IDENTIFIER attributes and *-REF elements are these identifiers and references, "
          "all identifiers (structured and rendered as strings, for hex-and-dash uuids) are pairwise distinct, "
          "spec objects and hierarchy are both the depth-first order of the module with every requirement exactly once, every "
          "value is placed under its own definition and decodes back to the attribute value, and compressed output holds the "
          "same document. The model is tied to /repo by a differential run over all corpus modules and seeded API edit "
          "histories; an independent raw-XML monitor is the failing-input search."),
    design_ref="§6 C20",
    note=("Trusted: Lean kernel; lxml.html rich-text conversion, float/datetime formatting and XML serialisation as parameters; "
          "harness extraction/re-parse. Known findings: enumeration attribute without definition and class-violating links make the "
          "exporter raise; an enumeration choice outside the definition's data type leaves a dangling ENUM-VALUE-REF."),
    technique="Lean 4 proof (induction on the folder tree, list invariants, injectivity of identifier rendering) + differential correspondence on corpus modules and API edit histories + raw-XML monitor",
)

XSI = "{http://www.w3.org/2001/XMLSchema-instance}type"
XHTML_NS = "http://www.w3.org/1999/xhtml"
FIXED_TIME = datetime.datetime(2020, 2, 2, 12, 0, 0, tzinfo=datetime.timezone.utc)

TEXTS = [
    "", "plain", "a < b & c", "if a<b then c", "x <y> z", "<", "&", "&amp;", "\"quoted\" 'single'", "]]>",
    "ä ö ü €", "tab\there", "<b>bold</b>", "1 > 0", "a&b;c", "<p>para</p>", "line\nbreak", " ", "<!-- c -->", "  lead",
]
HTML_TEXTS = [
    "", "<p>Simple paragraph</p>", "<p>x &amp; y &lt; z</p>", "<p>one</p><p>two</p>", "<ul><li>a</li><li>b &gt; c</li></ul>",
    "<p>with <b>bold</b> and <i>it</i></p>", "<div><p>nested</p></div>", "just text", "<p>ä €</p>", "<p>a<br>b</p>", " ",
    "<p>&quot;q&quot;</p>",
]
KINDS = ["bool", "date", "int", "real", "string", "enum"]


# ---------------------------------------------------------------------------------------------- helpers


def canon(el) -> str:
    """prefix-independent canonical text of an element tree (tag in Clark notation, sorted attributes)"""
    from lxml import etree

    if not isinstance(el.tag, str):  # comment / PI
        return f"<!{type(el).__name__}:{el.text}>" + (el.tail or "")
    out = ["<", el.tag]
    for k in sorted(el.attrib):
        out.append(f" {k}={el.attrib[k]!r}")
    out.append(">")
    out.append(el.text or "")
    for ch in el:
        out.append(canon(ch))
        out.append(ch.tail or "")
    out.append("</>")
    del etree
    return "".join(out)


def convert_xhtml(raw: str):
    """the parameter `xhtml` of the model: lxml.html.fromstring + html_to_xhtml, canonical text or None"""
    from lxml import etree, html

    try:
        el = html.fromstring(raw)
    except etree.ParserError:
        return None
    html.html_to_xhtml(el)
    return canon(el)


class _Text(html.parser.HTMLParser):
    def __init__(self):
        super().__init__(convert_charrefs=True)
        self.buf = []

    def handle_data(self, data):
        self.buf.append(data)


def html_text(raw: str) -> str:
    p = _Text()
    p.feed(raw)
    p.close()
    return "".join("".join(p.buf).split())


def alive(obj, mod) -> bool:
    e = obj._element
    while e is not None:
        if e is mod._element:
            return True
        e = e.getparent()
    return False


# ---------------------------------------------------------------------------------------------- describe (API view)


def describe(mod, reqif) -> dict:
    """The module as the object layer presents it (input of the model)."""
    import math

    def d_dt(dt):
        if dt is None:
            return None
        vals = []
        if isinstance(dt, reqif.EnumerationDataTypeDefinition):
            vals = [{"uuid": v.uuid, "long_name": v.long_name or "", "description": v.description or ""} for v in dt.values]
        return {"uuid": dt.uuid, "long_name": dt.long_name or "", "values": vals,
                "is_enum": isinstance(dt, reqif.EnumerationDataTypeDefinition)}

    def d_def(d):
        if d is None:
            return None
        is_enum = isinstance(d, reqif.AttributeDefinitionEnumeration)
        return {"uuid": d.uuid, "long_name": d.long_name or "", "description": d.description or "",
                "is_enum": is_enum, "multi_valued": bool(d.multi_valued) if is_enum else False,
                "data_type": d_dt(d.data_type)}

    def d_val(a):
        if isinstance(a, reqif.EnumerationValueAttribute):
            return {"k": "enum", "v": [v.uuid for v in a.values]}
        v = a.value
        if isinstance(a, reqif.BooleanValueAttribute):
            return {"k": "bool", "v": bool(v)}
        if isinstance(a, reqif.DateValueAttribute):
            return {"k": "date", "v": None if v is None else
                    v.astimezone(datetime.timezone.utc).strftime("%Y-%m-%dT%H:%M:%SZ")}
        if isinstance(a, reqif.IntegerValueAttribute):
            return {"k": "int", "v": int(v)}
        if isinstance(a, reqif.RealValueAttribute):
            return {"k": "real", "inf": 1 if v == math.inf else -1 if v == -math.inf else 0, "repr": str(v)}
        if isinstance(a, reqif.StringValueAttribute):
            return {"k": "string", "v": v or ""}
        raise common.InfraError(f"unknown attribute class {type(a).__name__}")

    def d_req(r):
        t = r.type
        return {"uuid": r.uuid, "long_name": r.long_name or "", "identifier": r.identifier or "",
                "chapter_name": r.chapter_name or "", "name": r.name or "", "text": str(r.text or ""),
                "type": None if t is None else {"uuid": t.uuid, "long_name": t.long_name or "", "description": t.description or ""},
                "attrs": [{"def": d_def(a.definition), "value": d_val(a)} for a in r.attributes]}

    def d_cont(c):
        return {"reqs": [d_req(r) for r in c.requirements], "folders": [d_cont(f) for f in c.folders]}

    top = d_cont(mod)
    mt = mod.type
    return {"model_uuid": mod._model.uuid, "uuid": mod.uuid, "long_name": mod.long_name or "",
            "description": mod.description or "",
            "type": None if mt is None else {"uuid": mt.uuid, "long_name": mt.long_name or ""},
            "reqs": top["reqs"], "folders": top["folders"]}


def set_order(mod, exporter) -> list:
    """The iteration order of the exporter's `set[_AttributeDefinition]` objects in this process — a run-time parameter
    of the model (Python fixes it by string hashes). Observed by building the same sets again: equal elements inserted in
    the same order into a fresh set iterate in the same order. The model checks that it is a rearrangement of what it
    collects itself."""
    try:
        rt = exporter._collect_objects(mod)
    except Exception:  # noqa: BLE001
        return []
    try:
        return [{"type": k, "defs": [{"def": None if ad.modelobj is None else ad.modelobj.uuid, "kind": ad.type} for ad in ads]}
                for k, ads in rt.items()]
    except (AttributeError, TypeError, ValueError):
        # the private helper no longer returns a mapping type-uuid -> set of definitions (internal refactoring): the
        # order parameter is unavailable, exactly as when the helper raises; the monitor and the document-level
        # correspondence do not depend on it
        return []


def all_reqs(desc: dict) -> list[dict]:
    out = []

    def walk(c):
        out.extend(c["reqs"])
        for f in c["folders"]:
            walk(f)

    walk(desc)
    return out


def escape(s: str) -> str:
    """markupsafe.escape on a plain str (own copy: the harness does not call the library under test's helper)"""
    return s.replace("&", "&amp;").replace("<", "&lt;").replace(">", "&gt;").replace("'", "&#39;").replace('"', "&#34;")


def xhtml_table(desc: dict) -> list:
    raws = {"<div>" + escape(desc["long_name"]) + "</div>", "<div></div>"}
    for r in all_reqs(desc):
        for k in ("chapter_name", "name"):
            if r[k]:
                raws.add(escape(r[k]))
        if r["text"]:
            raws.add(r["text"])
    return [[raw, convert_xhtml(raw)] for raw in sorted(raws)]


def features(desc: dict) -> set[str]:
    f = set()
    reqs = all_reqs(desc)
    if desc["folders"]:
        f.add("folders")
    if any(c["folders"] for c in desc["folders"]):
        f.add("nested-folders")
    types_with_nodef: set = set()
    def_types: dict = {}
    for r in reqs:
        f.add("type:some" if r["type"] else "type:none")
        tk = r["type"]["uuid"] if r["type"] else None
        for a in r["attrs"]:
            k = a["value"]["k"]
            f.add(f"attr:{k}:{'def' if a['def'] else 'nodef'}")
            if a["def"] is None:
                types_with_nodef.add((tk, k))
                if k == "enum":
                    f.add("enum-attribute-without-definition")
            else:
                def_types.setdefault((a["def"]["uuid"], k), set()).add(tk)
                if a["def"]["data_type"] is None:
                    f.add("def-without-datatype")
                    if a["def"]["is_enum"]:
                        f.add("enum-definition-without-datatype")
            if k == "enum" and len(a["value"]["v"]) > 1:
                f.add("enum-multi")
            if a["def"] is not None:
                dt = a["def"]["data_type"]
                if k == "enum" and not a["def"]["is_enum"]:
                    f.add("class-violation:enum-attribute-with-plain-definition")
                if k != "enum" and a["def"]["is_enum"]:
                    f.add("enum-definition-on-simple-attribute")
                if a["def"]["is_enum"] and dt is not None and not dt["is_enum"]:
                    f.add("class-violation:enum-definition-with-plain-datatype")
                if not a["def"]["is_enum"] and dt is not None and dt["is_enum"]:
                    f.add("plain-definition-with-enum-datatype")
                if k == "enum":
                    owned = {v["uuid"] for v in (dt["values"] if dt else [])}
                    if any(v not in owned for v in a["value"]["v"]):
                        f.add("enum-value-outside-datatype")
        for k in ("chapter_name", "name", "text"):
            if r[k] and convert_xhtml(r[k] if k == "text" else escape(r[k])) is None:
                f.add("blank-rich-text-field")
            if k != "text" and any(ch in r[k] for ch in "<>&"):
                f.add("markup-in-plain-field")
    if len({k for _, k in types_with_nodef}) < len(types_with_nodef):
        f.add("nodef-under-two-types")
    if any(len(v) > 1 for v in def_types.values()):
        f.add("def-under-two-types")
    if not reqs:
        f.add("empty-module")
    if any(r["type"] and not r["attrs"] for r in reqs):
        f.add("typed-requirement-without-attributes")

    def depth(c):
        return 1 + max((depth(x) for x in c["folders"]), default=0)

    dp = depth(desc) - 1
    if dp >= 8:
        f.add("folder-depth>=8")
    if dp >= 64:
        f.add("folder-depth>=64")
    if desc["type"] is None:
        f.add("module-type:none")
    if any(ch in desc["long_name"] for ch in "<>&"):
        f.add("markup-in-plain-field")
    return f


# ---------------------------------------------------------------------------------------------- re-parse of the bytes


def _loc(tag: str) -> str:
    return tag.rsplit("}", 1)[-1]


def parse_doc(data: bytes, n_std_so: int, n_std_spec: int) -> dict:
    from lxml import etree

    root = etree.fromstring(data)
    q = lambda el, path: el.find(path)  # noqa: E731

    def val(v):
        tv = v.get("THE-VALUE")
        if _loc(v.tag) == "ATTRIBUTE-VALUE-XHTML":
            holder = q(v, "{*}THE-VALUE")
            tv = "".join(canon(c) for c in holder) if holder is not None else None
        return {"kind": _loc(v.tag)[len("ATTRIBUTE-VALUE-"):], "def_ref": q(v, "{*}DEFINITION")[0].text,
                "the_value": tv, "enum_refs": [r.text for r in v.findall("{*}VALUES/{*}ENUM-VALUE-REF")]}

    def adef(a):
        mv = a.get("MULTI-VALUED")
        return {"id": a.get("IDENTIFIER"), "kind": _loc(a.tag)[len("ATTRIBUTE-DEFINITION-"):], "long_name": a.get("LONG-NAME"),
                "desc": a.get("DESC"), "multi_valued": None if mv is None else mv == "true", "dt_ref": q(a, "{*}TYPE")[0].text}

    def stype(t, nstd):
        wrap = q(t, "{*}SPEC-ATTRIBUTES")
        ads = [adef(a) for a in wrap] if wrap is not None else []
        return {"id": t.get("IDENTIFIER"), "long_name": t.get("LONG-NAME"), "desc": t.get("DESC"),
                "std": ads[:nstd], "custom": sorted(ads[nstd:], key=lambda a: a["id"])}

    content = root.find("{*}CORE-CONTENT/{*}REQ-IF-CONTENT")
    dts = []
    for d in q(content, "{*}DATATYPES"):
        sv = q(d, "{*}SPECIFIED-VALUES")
        dts.append({"id": d.get("IDENTIFIER"), "kind": _loc(d.tag)[len("DATATYPE-DEFINITION-"):], "long_name": d.get("LONG-NAME"),
                    "values": None if sv is None else [{"id": e.get("IDENTIFIER"), "long_name": e.get("LONG-NAME"), "desc": e.get("DESC")} for e in sv]})
    sts = list(q(content, "{*}SPEC-TYPES"))
    sos = []
    for o in q(content, "{*}SPEC-OBJECTS"):
        sos.append({"id": o.get("IDENTIFIER"), "long_name": o.get("LONG-NAME"),
                    "values": [val(v) for v in q(o, "{*}VALUES")], "type_ref": q(o, "{*}TYPE")[0].text})
    spec = q(content, "{*}SPECIFICATIONS")[0]
    return {
        "header_id": root.find("{*}THE-HEADER/{*}REQ-IF-HEADER").get("IDENTIFIER"),
        "datatypes": dts,
        "spec_types": [stype(t, n_std_so) for t in sts[:-1]],
        "specification_type": stype(sts[-1], n_std_spec),
        "spec_objects": sos,
        "specification": {"id": spec.get("IDENTIFIER"), "long_name": spec.get("LONG-NAME"), "desc": spec.get("DESC"),
                          "type_ref": q(spec, "{*}TYPE")[0].text, "values": [val(v) for v in q(spec, "{*}VALUES")],
                          "children": [{"id": h.get("IDENTIFIER"), "obj_ref": h.find("{*}OBJECT/{*}SPEC-OBJECT-REF").text}
                                       for h in q(spec, "{*}CHILDREN")]},
        "defs": sorted(e.get("IDENTIFIER") for e in root.iter() if isinstance(e.tag, str) and e.get("IDENTIFIER") is not None),
        "refs": sorted(e.text or "" for e in root.iter() if isinstance(e.tag, str) and e.tag.endswith("-REF")),
    }


def canon_model_doc(d: dict) -> dict:
    d = copy.deepcopy(d)
    for t in d["spec_types"]:
        t["custom"].sort(key=lambda a: a["id"])
    d["defs"].sort()
    d["refs"].sort()
    return d


# ---------------------------------------------------------------------------------------------- whole element tree


REQIF_NS = "http://www.omg.org/spec/ReqIF/20110401/reqif.xsd"
XSI_NS = "http://www.w3.org/2001/XMLSchema-instance"


def parse_tree(data: bytes) -> dict:
    """The re-parsed bytes as the JSON element tree of the driver's `tree` op (local names, every attribute, text,
    children in document order; XHTML subtrees as one canonical string)."""
    from lxml import etree

    def conv(e):
        if not isinstance(e.tag, str):
            return {"t": f"!{type(e).__name__}", "a": [], "x": e.text, "c": []}
        q = etree.QName(e)
        if q.namespace == XHTML_NS:
            return {"raw": canon(e)}
        tag = q.localname if q.namespace == REQIF_NS else e.tag
        attrs = []
        for k, v in e.attrib.items():
            kq = etree.QName(k)
            attrs.append([("xsi:" + kq.localname) if kq.namespace == XSI_NS else k, v])
        return {"t": tag, "a": attrs, "x": e.text, "c": [conv(c) for c in e]}

    return conv(etree.fromstring(data))


def canon_tree(t: dict, n_std: int) -> dict:
    """attributes sorted by name (XML attribute order is insignificant), empty text = no text, the set-ordered custom
    attribute definitions of a SPEC-OBJECT-TYPE sorted by IDENTIFIER"""
    if "raw" in t:
        return t
    kids = [canon_tree(c, n_std) for c in t["c"]]
    return {"t": t["t"], "a": sorted(t["a"]), "x": t["x"] or None, "c": kids}


def sort_set_ordered(t: dict, n_std: int) -> dict:
    if "raw" in t:
        return t
    kids = [sort_set_ordered(c, n_std) for c in t["c"]]
    if t["t"] == "SPEC-OBJECT-TYPE":
        for c in kids:
            if c.get("t") == "SPEC-ATTRIBUTES":
                c["c"] = c["c"][:n_std] + sorted(c["c"][n_std:], key=lambda a: dict(a["a"]).get("IDENTIFIER", ""))
    return {**t, "c": kids}


def tree_scan(t: dict) -> tuple[list, list]:
    """(IDENTIFIER values, texts of *-REF elements) in document order — the harness's own scan of a JSON tree"""
    ids, refs = [], []

    def walk(e):
        if "raw" in e:
            return
        for k, v in e["a"]:
            if k == "IDENTIFIER":
                ids.append(v)
        if e["t"].endswith("-REF"):
            refs.append(e["x"] or "")
        for c in e["c"]:
            walk(c)

    walk(t)
    return ids, refs


MD_VARIANTS = 6


def metadata_variant(i: int):
    """(metadata argument of to_reqif, the same as the model's `metadata` input)"""
    tz = datetime.timezone(datetime.timedelta(hours=5, minutes=30))
    i %= MD_VARIANTS
    if i == 0:
        md = {"creation_time": FIXED_TIME}
    elif i == 1:
        md = {"creation_time": FIXED_TIME, "comment": "c <&> \"ü\"", "title": "T ]]> t"}
    elif i == 2:
        md = {"creation_time": datetime.datetime(2031, 12, 31, 23, 59, 59, tzinfo=tz), "title": ""}
    elif i == 3:
        md = None  # creation time = now: read back from the header and handed to the model as `now`
    elif i == 4:
        md = {"comment": "", "unsupported": 1}
    else:
        md = {"creation_time": FIXED_TIME, "title": "only title", "author": "ignored"}
    return md


def md_json(md) -> dict:
    md = md or {}
    ct = md.get("creation_time")
    return {"comment": md.get("comment"), "title": md.get("title"),
            "creation_time": None if ct is None else ct.astimezone(datetime.timezone.utc).strftime("%Y-%m-%dT%H:%M:%SZ")}


# ---------------------------------------------------------------------------------------------- monitor (raw XML vs bytes)


def raw_dfs(el) -> list:
    """requirements of the raw `ownedRequirements` tree: a container's requirements first, then its folders"""
    kids = [c for c in el if c.tag == "ownedRequirements"]
    reqs = [c for c in kids if c.get(XSI) == "Requirements:Requirement"]
    for c in kids:
        if c.get(XSI) == "Requirements:Folder":
            reqs.extend(raw_dfs(c))
    return reqs


def raw_capella_date(s: str):
    # Capella: 2021-07-23T15:00:00.000+0200
    return datetime.datetime.strptime(s, "%Y-%m-%dT%H:%M:%S.%f%z")


def monitor(mod, data: bytes | None, exc: BaseException | None, feats: set[str]) -> list[tuple[str, str]]:
    """Returns (signature, what) for every way the export of this module state breaks the property."""
    from lxml import etree

    bad: list[tuple[str, str]] = []
    if exc is not None:
        cls = ("enum-attribute-without-definition" if isinstance(exc, AssertionError) and "enum-attribute-without-definition" in feats
               else "blank-rich-text-field" if isinstance(exc, etree.ParserError) and "blank-rich-text-field" in feats
               else "class-violating-link" if isinstance(exc, AttributeError) and any(x.startswith("class-violation:") for x in feats)
               else "enum-definition-without-datatype" if isinstance(exc, AttributeError) and "enum-definition-without-datatype" in feats
               else "plain-text-markup" if isinstance(exc, ValueError) and "markup-in-plain-field" in feats
               else "other")
        return [(f"to_reqif|crash|{type(exc).__name__}|{cls}", f"export raised {type(exc).__name__}: {str(exc)[:120]}")]
    assert data is not None
    try:
        ET.fromstring(data)  # expat: second opinion on well-formedness
        root = etree.fromstring(data)
    except Exception as e:  # noqa: BLE001
        return [("to_reqif|not-well-formed", f"exported bytes do not parse: {e!r}"[:200])]
    ids: dict[str, list] = {}
    for e in root.iter():
        if isinstance(e.tag, str) and e.get("IDENTIFIER") is not None:
            ids.setdefault(e.get("IDENTIFIER"), []).append(e)
    for i, els in ids.items():
        if len(els) > 1:
            tags = sorted({_loc(e.tag).rsplit("-", 1)[0] if _loc(e.tag).startswith(("ATTRIBUTE-DEFINITION", "DATATYPE-DEFINITION")) else _loc(e.tag) for e in els})
            cls = "|enum-definition-on-simple-attribute" if tags == ["ENUM-VALUE"] and "enum-definition-on-simple-attribute" in feats else ""
            bad.append((f"to_reqif|duplicate-id|{'+'.join(tags)}{cls}", f"IDENTIFIER {i!r} occurs {len(els)} times"))
    for e in root.iter():
        if isinstance(e.tag, str) and e.tag.endswith("-REF") and (e.text or "") not in ids:
            t = _loc(e.tag)
            cls = "ATTRIBUTE-DEFINITION-REF" if t.startswith("ATTRIBUTE-DEFINITION") else "DATATYPE-DEFINITION-REF" if t.startswith("DATATYPE") else t
            if cls == "ATTRIBUTE-DEFINITION-REF" and (e.text or "").startswith(("NULL", "_NULL")):
                cls += "|definition-less-attribute"
            if cls == "ENUM-VALUE-REF" and "enum-value-outside-datatype" in feats:
                cls += "|value-outside-datatype"
            bad.append((f"to_reqif|dangling-ref|{cls}", f"<{t}>{e.text}</> has no element with that IDENTIFIER"))
    # coverage and order
    want = raw_dfs(mod._element)
    want_ids = ["_" + r.get("id").upper() for r in want]
    sos = root.findall(".//{*}SPEC-OBJECTS/{*}SPEC-OBJECT")
    got = [o.get("IDENTIFIER") for o in sos]
    hier = [h.text for h in root.findall(".//{*}SPECIFICATIONS/{*}SPECIFICATION/{*}CHILDREN//{*}SPEC-OBJECT-REF")]
    if got != want_ids:
        kind = "order" if sorted(got) == sorted(want_ids) else "coverage"
        bad.append((f"to_reqif|spec-objects|{kind}", f"SPEC-OBJECTs {got[:6]}… differ from depth-first requirements {want_ids[:6]}…"))
    if hier != want_ids:
        kind = "order" if sorted(hier) == sorted(want_ids) else "coverage"
        bad.append((f"to_reqif|hierarchy|{kind}", f"hierarchy {hier[:6]}… differs from depth-first requirements {want_ids[:6]}…"))
    if len(root.findall(".//{*}SPEC-HIERARCHY")) != len(hier):
        bad.append(("to_reqif|hierarchy|coverage", "SPEC-HIERARCHY without SPEC-OBJECT-REF"))
    # fields and values
    if got == want_ids:
        for raw, so in zip(want, sos):
            vals = list(so.find("{*}VALUES"))
            ln = raw.get("ReqIFLongName") or None
            if so.get("LONG-NAME") != ln:
                bad.append(("to_reqif|field-changed|LONG-NAME", f"{so.get('IDENTIFIER')}: LONG-NAME {so.get('LONG-NAME')!r} vs {ln!r}"))
            if len(vals) < 4:
                bad.append(("to_reqif|field-missing|standard", f"{so.get('IDENTIFIER')}: {len(vals)} values"))
                continue
            byname = {}
            for v in vals[:4]:
                ref = v.find("{*}DEFINITION")[0].text or ""
                byname[ref.rsplit("ReqIF.", 1)[-1]] = v
            fid = byname.get("ForeignID")
            if fid is None or fid.get("THE-VALUE") != (raw.get("ReqIFIdentifier") or ""):
                bad.append(("to_reqif|field-changed|ForeignID", f"{so.get('IDENTIFIER')}: {None if fid is None else fid.get('THE-VALUE')!r} vs {raw.get('ReqIFIdentifier')!r}"))
            for nm, attr, plain in (("ChapterName", "ReqIFChapterName", True), ("Name", "ReqIFName", True), ("Text", "ReqIFText", False)):
                v = byname.get(nm)
                src = raw.get(attr) or ""
                if v is None or v.find("{*}THE-VALUE") is None:
                    bad.append((f"to_reqif|field-missing|{nm}", f"{so.get('IDENTIFIER')}: no {nm}"))
                    continue
                txt = "".join(v.find("{*}THE-VALUE").itertext())
                if plain:
                    if " ".join(txt.split()) != " ".join(src.split()):  # XHTML: runs of white space are one space
                        cls = "plain-text-markup" if any(c in src for c in "<>&") else "plain-text"
                        bad.append((f"to_reqif|field-changed|{cls}", f"{so.get('IDENTIFIER')}: {nm} {src!r} exported as text {txt!r}"))
                elif "".join(txt.split()) != html_text(src):
                    bad.append(("to_reqif|field-changed|rich-text", f"{so.get('IDENTIFIER')}: Text {src!r} exported as text {txt!r}"))
            rattrs = [a for a in raw if a.tag == "ownedAttributes"]
            if len(vals) - 4 != len(rattrs):
                bad.append(("to_reqif|value-missing|count", f"{so.get('IDENTIFIER')}: {len(vals) - 4} attribute values for {len(rattrs)} attributes"))
                continue
            for ra, v in zip(rattrs, vals[4:]):
                kind = ra.get(XSI).split(":")[1][: -len("ValueAttribute")].upper()
                tv, rv = v.get("THE-VALUE"), ra.get("value")
                ok = _loc(v.tag) == f"ATTRIBUTE-VALUE-{kind}"
                if ok and kind == "BOOLEAN":
                    ok = tv == ("true" if rv == "true" else "false")
                elif ok and kind == "INTEGER":
                    ok = tv is not None and int(tv) == int(rv or "0") and tv == str(int(tv))
                elif ok and kind == "STRING":
                    ok = tv == (rv or "")
                elif ok and kind == "REAL":
                    want_f = float("inf") if rv == "*" else float(rv or "0")
                    ok = tv is not None and float(tv.replace("Infinity", "inf")) == want_f
                elif ok and kind == "DATE":
                    if rv is None:
                        ok = tv is not None  # no value: any timestamp placeholder
                    else:
                        ok = tv is not None and datetime.datetime.strptime(tv, "%Y-%m-%dT%H:%M:%SZ").replace(tzinfo=datetime.timezone.utc) == raw_capella_date(rv)
                elif ok and kind == "ENUMERATION":
                    wantrefs = ["_" + x.lstrip("#").upper() for x in (ra.get("values") or "").split()]
                    ok = [r.text for r in v.findall("{*}VALUES/{*}ENUM-VALUE-REF")] == wantrefs
                if not ok:
                    bad.append((f"to_reqif|value-changed|{kind}", f"{so.get('IDENTIFIER')}: raw {dict(ra.attrib)!r} exported as {_loc(v.tag)} THE-VALUE={tv!r}"))
    return bad


def monitor_compress(mod, scratch: pathlib.Path) -> tuple[list[tuple[str, str]], list[dict]]:
    """compressed export contains the same document; explicit `compress` is honoured.
    Returns findings and the observed decisions (for the correspondence with `compressDecision`)."""
    bad, seen = [], []
    md = {"creation_time": FIXED_TIME}
    plain, exc = export_once(mod, md)
    if exc is not None:
        # the module does not export at all (e.g. it holds the input of a recorded finding): same classification as the main
        # monitor, nothing to compare
        try:
            from capellambse.extensions import reqif as _rq

            feats = features(describe(mod, _rq))
        except Exception:  # noqa: BLE001
            feats = set()
        return monitor(mod, None, exc, feats), []

    def observe(label, target_kind, name, compress):
        path = scratch / name if name else None
        try:
            if target_kind == "stream":
                b = io.BytesIO()
                mod.to_reqif(b, metadata=md, compress=compress)
                data = b.getvalue()
            else:
                tgt = str(path) if target_kind == "str" else path
                mod.to_reqif(tgt, metadata=md, compress=compress)
                data = path.read_bytes()
        except Exception as e:  # noqa: BLE001
            bad.append((f"to_reqif|compress|crash|{type(e).__name__}", f"{label}: {type(e).__name__}: {str(e)[:100]}"))
            return
        finally:
            if path is not None and path.exists():
                path.unlink()
        is_zip = data[:2] == b"PK"
        seen.append({"target": None if target_kind == "stream" else name, "compress": compress, "zip": is_zip})
        want_zip = compress if compress is not None else (target_kind != "stream" and name.endswith(".reqifz"))
        if is_zip != want_zip:
            bad.append((f"to_reqif|compress|{'ignored' if want_zip else 'unwanted'}|compress={compress}",
                        f"{label}: output is {'a zip' if is_zip else 'plain XML'}"))
        if is_zip:
            try:
                with zipfile.ZipFile(io.BytesIO(data)) as z:
                    members = [n for n in z.namelist() if n.endswith(".reqif")]
                    inner = z.read(members[0]) if len(members) == 1 and len(z.namelist()) == 1 else None
                    corrupt = z.testzip()
            except Exception as e:  # noqa: BLE001
                bad.append(("to_reqif|compress|archive-unreadable", f"{label}: {e!r}"[:160]))
                return
            if inner is None or corrupt:
                bad.append(("to_reqif|compress|archive-members", f"{label}: members {z.namelist()}"))
            elif inner != plain:
                bad.append(("to_reqif|compress|different-document", f"{label}: member differs from the uncompressed export"))
        elif data != plain:
            bad.append(("to_reqif|compress|different-document", f"{label}: plain output differs"))

    for tk, name, c in [("str", "a.reqifz", None), ("path", "b.reqifz", None), ("str", "c.reqif", None), ("str", "d.reqif", True),
                        ("stream", "", True), ("stream", "", None), ("str", "e.reqifz", False), ("path", "f.REQIFZ", None),
                        ("str", "reqifz", None), ("stream", "", False), ("path", "g.xml", True)]:
        observe(f"to_reqif({tk}:{name or 'BytesIO'}, compress={c})", tk, name, c)
    return bad, seen


# ---------------------------------------------------------------------------------------------- edit histories


class History:
    """A module reached by API edits; every op is a plain list so that it can be recorded and replayed."""

    def __init__(self, model, reqif):
        self.model, self.reqif = model, reqif
        layer = model.oa if hasattr(model, "oa") and model.oa is not None else model.la
        self.mod = layer.requirement_modules.create(long_name="History module")
        self.tf = layer.requirement_types_folders.create(long_name="History types")
        self.conts = [self.mod]
        self.reqs: list = []
        self.types: list = []
        self.mtypes: list = []
        self.dts: list = []
        self.edts: list = []
        self.defs: list = []  # (definition, is_enum)
        self.moved = 0

    def _get(self, lst, i):
        return lst[i] if isinstance(i, int) and 0 <= i < len(lst) else None

    def apply(self, op: list) -> bool:
        """False when the op does not apply to the current state (shrunk histories)."""
        rq = self.reqif
        name, *a = op
        if name == "add_req":
            c = self._get(self.conts, a[0])
            if c is None or not alive(c, self.mod):
                return False
            self.reqs.append(c.requirements.create(long_name=a[1], name=a[2], chapter_name=a[3], identifier=a[4], text=a[5]))
        elif name == "add_folder":
            c = self._get(self.conts, a[0])
            if c is None or not alive(c, self.mod):
                return False
            self.conts.append(c.folders.create(long_name=a[1]))
        elif name == "del_req":
            r = self._get(self.reqs, a[0])
            if r is None or not alive(r, self.mod):
                return False
            r.parent.requirements.remove(r)
        elif name == "del_folder":
            f = self._get(self.conts, a[0])
            if f is None or f is self.mod or not alive(f, self.mod):
                return False
            f.parent.folders.remove(f)
        elif name == "move_req":
            r, c = self._get(self.reqs, a[0]), self._get(self.conts, a[1])
            if r is None or c is None or not alive(r, self.mod) or not alive(c, self.mod):
                return False
            c.requirements.insert(min(a[2], len(c.requirements)), r)
            self.moved += 1
        elif name == "move_folder":
            f, c = self._get(self.conts, a[0]), self._get(self.conts, a[1])
            if f is None or c is None or f is self.mod or not alive(f, self.mod) or not alive(c, self.mod):
                return False
            e = c._element
            while e is not None:  # no cycles
                if e is f._element:
                    return False
                e = e.getparent()
            c.folders.append(f)
            self.moved += 1
        elif name == "set_field":
            r = self._get(self.reqs, a[0])
            if r is None or not alive(r, self.mod):
                return False
            setattr(r, a[1], a[2])
        elif name == "set_type":
            r = self._get(self.reqs, a[0])
            if r is None or not alive(r, self.mod):
                return False
            if a[1] is None:
                if r.type is not None:
                    del r.type
            else:
                t = self._get(self.types, a[1])
                if t is None:
                    return False
                r.type = t
        elif name == "new_type":
            self.types.append(self.tf.requirement_types.create(long_name=a[0], description=a[1]))
        elif name == "new_mtype":
            self.mtypes.append(self.tf.module_types.create(long_name=a[0]))
        elif name == "new_dt":
            self.dts.append(self.tf.data_type_definitions.create("DataTypeDefinition", long_name=a[0]))
        elif name == "new_edt":
            dt = self.tf.data_type_definitions.create("EnumerationDataTypeDefinition", long_name=a[0])
            for ln, desc in a[1]:
                dt.values.create(long_name=ln, description=desc)
            self.edts.append(dt)
        elif name == "new_def":
            t = self._get(self.types, a[0])
            if t is None:
                return False
            if a[1]:
                dt = self._get(self.edts, a[2]) if a[2] is not None else None
                d = t.attribute_definitions.create("AttributeDefinitionEnumeration", long_name=a[3], description=a[4], multi_valued=bool(a[5]))
            else:
                dt = self._get(self.dts, a[2]) if a[2] is not None else None
                d = t.attribute_definitions.create("AttributeDefinition", long_name=a[3], description=a[4])
            if dt is not None:
                d.data_type = dt
            self.defs.append((d, bool(a[1])))
        elif name == "add_attr":
            r = self._get(self.reqs, a[0])
            if r is None or not alive(r, self.mod):
                return False
            kind, di, value = a[1], a[2], a[3]
            cross = len(a) > 4 and bool(a[4])  # a definition of the other class is allowed (the object layer does not check)
            kw = {}
            if di is not None:
                ent = self._get(self.defs, di)
                if ent is None or (ent[1] != (kind == "enum") and not cross):
                    return False
                kw["definition"] = ent[0]
            if kind == "enum":
                at = r.attributes.create("enum", **kw)
                dt = kw["definition"].data_type if kw else None
                if not isinstance(dt, self.reqif.EnumerationDataTypeDefinition):
                    dt = self._get(self.edts, 0)
                if dt is not None and value:
                    vals = list(dt.values)
                    at.values = [vals[i % len(vals)] for i in value] if vals else []
            elif kind == "date":
                v = None if value is None else datetime.datetime.fromtimestamp(value[0], datetime.timezone(datetime.timedelta(minutes=value[1])))
                r.attributes.create("date", value=v, **kw) if v is not None else r.attributes.create("date", **kw)
            else:
                r.attributes.create(kind, value=value, **kw)
        elif name == "set_def_dt":
            # re-type a definition: another data type of its pool (attributes keep their old choices), none, or — `cross` —
            # a data type of the other class
            ent = self._get(self.defs, a[0])
            if ent is None:
                return False
            if a[1] is None:
                if ent[0].data_type is not None:
                    del ent[0].data_type
            else:
                dt = self._get(self.edts if a[1] == "edts" else self.dts, a[2])
                if dt is None:
                    return False
                ent[0].data_type = dt
        elif name == "del_attr":
            r = self._get(self.reqs, a[0])
            if r is None or not alive(r, self.mod) or not len(r.attributes):
                return False
            r.attributes.remove(r.attributes[a[1] % len(r.attributes)])
        elif name == "mod_type":
            if a[0] is None:
                if self.mod.type is not None:
                    del self.mod.type
            else:
                t = self._get(self.mtypes, a[0])
                if t is None:
                    return False
                self.mod.type = t
        elif name == "mod_field":
            setattr(self.mod, a[0], a[1])
        else:
            raise common.InfraError(f"unknown op {name}")
        return True

    def discard(self):
        for o in (self.mod, self.tf):
            try:
                o.parent.requirement_modules.remove(o) if o is self.mod else o.parent.requirement_types_folders.remove(o)
            except Exception:  # noqa: BLE001
                pass


def safe_apply(h: History, op: list, out: Outcome | None) -> bool:
    """`History.apply`, with an exception of the object layer (not the exporter's business) turned into "op not applied"."""
    try:
        return h.apply(op)
    except common.InfraError:
        raise
    except Exception as e:  # noqa: BLE001
        if out is not None:
            out.hit("history:op-raised")
            out.extra.setdefault("ops_raised", [])
            if len(out.extra["ops_raised"]) < 5:
                out.extra["ops_raised"].append(f"{op[0]}: {type(e).__name__}: {str(e)[:80]}")
        return False


def gen_op(rng, h: History, risky: float) -> list:
    """next random op for the current state; `risky` = probability weight of inputs behind known findings"""
    def text(plain=True):
        pool = TEXTS if plain else HTML_TEXTS
        t = rng.choice(pool)
        if rng.random() >= risky and (convert_xhtml(t) is None and t):
            t = "ok"
        if plain and rng.random() >= risky and any(c in t for c in "<>&"):
            t = t.replace("<", "(").replace(">", ")").replace("&", "+")
        return t

    nreq, ncont = len(h.reqs), len(h.conts)
    # vocabulary first: a history without types/definitions cannot reach the typed branches
    setup = [["new_type", text(), ""], ["new_dt", text()], ["new_edt", text(), [[text(), ""], [text(), "d"]]],
             ["new_def", 0, False, 0, text(), "", False], ["new_def", 0, True, 0, text(), "", rng.random() < 0.5],
             ["new_type", text(), "d"]]
    n_vocab = len(h.types) + len(h.dts) + len(h.edts) + len(h.defs)
    if n_vocab < len(setup) and rng.random() < 0.7:
        return setup[n_vocab]
    choices = ["add_req"] * 5 + ["add_folder"] * 2
    if nreq:
        choices += ["add_attr"] * 7 + ["set_field"] * 2 + ["set_type"] * 4 + ["move_req"] * 2 + ["del_req", "del_attr"]
    if ncont > 1:
        choices += ["move_folder", "del_folder"]
    choices += ["new_type", "new_def", "new_def", "new_dt", "new_edt", "new_mtype", "mod_type", "mod_field"]
    if h.defs and risky:
        choices += ["set_def_dt"]
    name = rng.choice(choices)
    if name == "set_def_dt":
        di = rng.randrange(len(h.defs))
        is_enum = h.defs[di][1]
        u = rng.random()
        if u < 0.15:
            return [name, di, None, None]
        pool = ("edts" if is_enum else "dts") if u < 0.75 else ("dts" if is_enum else "edts")  # a quarter: other class
        n = len(h.edts if pool == "edts" else h.dts)
        return [name, di, pool, rng.randrange(n)] if n else [name, di, None, None]
    if name == "add_req":
        return [name, rng.randrange(ncont), text(), text(), text(), text(), text(False)]
    if name == "add_folder":
        return [name, rng.randrange(ncont), text()]
    if name in ("del_req",):
        return [name, rng.randrange(nreq)]
    if name == "del_folder":
        return [name, rng.randrange(1, ncont)]
    if name == "move_req":
        return [name, rng.randrange(nreq), rng.randrange(ncont), rng.randrange(4)]
    if name == "move_folder":
        return [name, rng.randrange(1, ncont), rng.randrange(ncont)]
    if name == "set_field":
        f = rng.choice(["long_name", "name", "chapter_name", "identifier", "text"])
        return [name, rng.randrange(nreq), f, text(f != "text")]
    if name == "set_type":
        return [name, rng.randrange(nreq), rng.randrange(len(h.types)) if h.types and rng.random() < 0.8 else None]
    if name == "new_type":
        return [name, text(), rng.choice(["", "desc <&>"])]
    if name == "new_mtype":
        return [name, text()]
    if name == "new_dt":
        return [name, text()]
    if name == "new_edt":
        return [name, text(), [[text(), rng.choice(["", "d&<"])] for _ in range(rng.randrange(0, 4))]]
    if name == "new_def":
        if not h.types:
            return ["new_type", text(), ""]
        is_enum = rng.random() < 0.4
        pool = h.edts if is_enum else h.dts
        # an enumeration definition without data type is behind a repaired defect: keep it rare but present
        dti = rng.randrange(len(pool)) if pool and rng.random() < 0.85 else None
        return [name, rng.randrange(len(h.types)), is_enum, dti, text(), rng.choice(["", "d"]), rng.random() < 0.5]
    if name == "add_attr":
        kind = rng.choice(KINDS)
        cands = [i for i, (_, e) in enumerate(h.defs) if e == (kind == "enum")]
        di = rng.choice(cands) if cands and rng.random() < 0.6 else None
        cross = False
        if h.defs and rng.random() < risky * 0.4:  # a definition of any class
            di, cross = rng.randrange(len(h.defs)), True
        if kind == "enum" and di is None and rng.random() >= risky:
            if cands:
                di = rng.choice(cands)
            else:
                kind = "string"
        if kind == "bool":
            v = rng.random() < 0.5
        elif kind == "int":
            v = rng.choice([0, 1, -1, 42, 2**31, -(2**40), rng.randrange(-10**6, 10**6)])
        elif kind == "real":
            v = rng.choice([0.0, 1.5, -2.25, 1e300, 1e-7, 0.1, float(rng.randrange(-1000, 1000)) / 7])
        elif kind == "string":
            v = rng.choice(TEXTS)
        elif kind == "date":
            v = None if rng.random() < 0.2 else [rng.randrange(0, 2_000_000_000), rng.choice([0, 60, 120, -300, 330])]
        else:
            v = [rng.randrange(5) for _ in range(rng.randrange(0, 3))]
        return [name, rng.randrange(nreq), kind, di, v] + ([True] if cross else [])
    if name == "del_attr":
        return [name, rng.randrange(nreq), rng.randrange(8)]
    if name == "mod_type":
        return [name, rng.randrange(len(h.mtypes)) if h.mtypes and rng.random() < 0.7 else None]
    return ["mod_field", rng.choice(["long_name", "description"]), text()]


# ---------------------------------------------------------------------------------------------- hash seeds (set order)

HASHSEED_HISTORIES = [0, 1, 5, 7, 8, 12]  # indices into DIRECTED: several definitions under one requirement type


def child_main() -> None:
    """Runs in a subprocess with its own PYTHONHASHSEED: export the corpus modules of one model and some directed
    histories (uuid4 replaced by a seeded sequence so that every process builds the same module) and print, per case,
    the bytes' digest, the identifiers, the references and the canonical tree digest."""
    import hashlib
    import json
    import random
    import uuid

    rel = sys.argv[1]
    os.environ.setdefault("XDG_CACHE_HOME", sys.argv[2])
    if str(common.REPO) not in sys.path:
        sys.path.insert(0, str(common.REPO))
    import capellambse
    from capellambse.extensions import reqif
    from capellambse.extensions.reqif import exporter

    rng = random.Random(20)
    uuid.uuid4 = lambda: uuid.UUID(int=rng.getrandbits(128), version=4)  # chosen uuids, the same in every process
    model = capellambse.MelodyModel(str(common.REPO / rel))
    res = {}

    def record(name, mod):
        data, exc = export_once(mod)
        if exc is not None:
            res[name] = {"err": type(exc).__name__}
            return
        tree = canon_tree(parse_tree(data), len(exporter.STD_SPEC_OBJECT_ATTRIBUTES))
        ids, refs = tree_scan(tree)
        order = [[d["def"], d["kind"]] for o in set_order(mod, exporter) for d in o["defs"]]
        canon = sort_set_ordered(tree, len(exporter.STD_SPEC_OBJECT_ATTRIBUTES))
        res[name] = {"bytes": hashlib.sha256(data).hexdigest(), "ids": sorted(ids), "refs": sorted(refs),
                     "canon": hashlib.sha256(json.dumps(canon, sort_keys=True).encode()).hexdigest(), "order": order}

    for mod in model.search(reqif.CapellaModule):
        record("corpus:" + mod.uuid, mod)
    for i in HASHSEED_HISTORIES:
        h = History(model, reqif)
        try:
            for op in DIRECTED[i]:
                safe_apply(h, op, None)
            record(f"directed:{i}", h.mod)
        finally:
            h.discard()
    print(json.dumps(res))


def monitor_hash_seeds(ctx: Ctx, out: Outcome, rel: str) -> None:
    """Same modules, different PYTHONHASHSEED: the identifiers, the references and the document up to the order of the
    set-ordered attribute definitions must not depend on the seed (an IDENTIFIER names the same thing in every export)."""
    import json
    import subprocess

    seeds = [0, 1, 4242] if not ctx.thorough else [0, 1, 2, 3, 4242, 99991]
    procs = []
    for sd in seeds:
        env = dict(os.environ, PYTHONHASHSEED=str(sd))
        code = "import sys; sys.path.insert(0, %r); import props.c20 as m; m.child_main()" % str(pathlib.Path(__file__).resolve().parent.parent)
        procs.append((sd, subprocess.Popen([sys.executable, "-c", code, rel, str(ctx.scratch / "xdg")], env=env,
                                           stdout=subprocess.PIPE, stderr=subprocess.PIPE, text=True)))
    results = {}
    for sd, p in procs:
        try:
            so, se = p.communicate(timeout=600)
        except subprocess.TimeoutExpired:
            p.kill()
            raise common.InfraError("hash-seed child timed out") from None
        if p.returncode != 0:
            raise common.InfraError(f"hash-seed child failed: {se[-800:]}")
        results[sd] = json.loads(so.strip().splitlines()[-1])
    base = results[seeds[0]]
    orders, byte_diff = set(), 0
    for name, ref in base.items():
        out.case(("hash-seeds", rel, name), nontrivial="order" in ref and len(ref["order"]) > 1)
        out.traces_validated += len(seeds)
        for sd in seeds[1:]:
            other = results[sd].get(name)
            case = {"kind": "hash-seeds", "model": rel, "name": name, "seeds": [seeds[0], sd]}
            if other is None or ("err" in ref) != ("err" in other):
                out.find("to_reqif|nondeterministic|outcome", f"{name}: {ref.get('err', 'document')} under seed {seeds[0]}, {(other or {}).get('err', 'document')} under seed {sd}", case)
                continue
            if "err" in ref:
                if ref["err"] != other["err"]:
                    out.hit("hash-seeds:exception-class-differs")
                continue
            if ref["ids"] != other["ids"] or ref["refs"] != other["refs"]:
                out.find("to_reqif|nondeterministic|identifiers", f"{name}: the identifiers / references of the export depend on PYTHONHASHSEED ({seeds[0]} vs {sd})", case)
            elif ref["canon"] != other["canon"]:
                out.find("to_reqif|nondeterministic|content", f"{name}: the document differs beyond the order of attribute definitions under PYTHONHASHSEED {seeds[0]} vs {sd}", case)
            if ref["bytes"] != other["bytes"]:
                byte_diff += 1
            orders.add((name, tuple(map(tuple, other["order"]))))
        orders.add((name, tuple(map(tuple, ref.get("order", [])))))
    out.hit("hash-seeds:cases", len(base))
    out.hit("hash-seeds:bytes-differ", byte_diff)
    out.extra["hash_seeds"] = {"seeds": seeds, "cases": len(base), "pairs_with_different_bytes": byte_diff,
                               "distinct_set_orders_seen": len(orders)}


# ---------------------------------------------------------------------------------------------- the run


class Env:
    def __init__(self, ctx: Ctx):
        os.environ.setdefault("XDG_CACHE_HOME", str(ctx.scratch / "xdg"))
        if str(common.REPO) not in sys.path:
            sys.path.insert(0, str(common.REPO))
        import capellambse
        from capellambse.extensions import reqif
        from capellambse.extensions.reqif import exporter

        self.capellambse, self.reqif, self.exporter = capellambse, reqif, exporter
        self.n_so = len(exporter.STD_SPEC_OBJECT_ATTRIBUTES)
        self.n_spec = len(exporter.STD_SPECIFICATION_ATTRIBUTES)
        self._models: dict[str, object] = {}

    def model(self, rel: str):
        if rel not in self._models:
            self._models[rel] = self.capellambse.MelodyModel(str(common.REPO / rel))
        return self._models[rel]

    def airds(self) -> list[str]:
        base = common.REPO / "tests" / "data"
        return sorted(str(p.relative_to(common.REPO)) for p in base.rglob("*.aird"))


def export_once(mod, md: dict | None = {"creation_time": FIXED_TIME}) -> tuple[bytes | None, BaseException | None]:  # noqa: B006
    buf = io.BytesIO()
    try:
        mod.to_reqif(buf, metadata=md)
    except Exception as e:  # noqa: BLE001
        return None, e
    return buf.getvalue(), None


def case_variant(case: dict) -> int:
    """which metadata variant a case is exported with (a function of the case, so that a replay repeats it)"""
    return case["md"] if "md" in case else len(case.get("ops", []))


def monitor_header(mod, data: bytes, md: dict | None, t0: datetime.datetime, t1: datetime.datetime) -> list[tuple[str, str]]:
    """The document skeleton and the header, read from the bytes only: REQ-IF / THE-HEADER / REQ-IF-HEADER with its six
    fields once each, CORE-CONTENT / REQ-IF-CONTENT with its six sections once each, everything in the ReqIF namespace,
    CREATION-TIME = the requested instant (or the time of the call), LAST-CHANGE of every identified element = CREATION-TIME,
    TITLE / COMMENT = metadata or the raw long name."""
    from lxml import etree

    bad: list[tuple[str, str]] = []
    try:
        root = etree.fromstring(data)
    except Exception:  # noqa: BLE001
        return []  # reported by `monitor`
    ln = lambda e: etree.QName(e).localname  # noqa: E731
    for e in root.iter():
        if isinstance(e.tag, str) and etree.QName(e).namespace not in (REQIF_NS, XHTML_NS):
            bad.append(("to_reqif|skeleton|namespace", f"<{e.tag}> is not in the ReqIF namespace"))
            break
    shape = [ln(c) for c in root]
    if ln(root) != "REQ-IF" or shape != ["THE-HEADER", "CORE-CONTENT"]:
        bad.append(("to_reqif|skeleton|root", f"{ln(root)} has children {shape}"))
        return bad
    hdrs = list(root[0])
    if [ln(h) for h in hdrs] != ["REQ-IF-HEADER"] or not hdrs[0].get("IDENTIFIER"):
        bad.append(("to_reqif|skeleton|header", f"THE-HEADER holds {[ln(h) for h in hdrs]}"))
        return bad
    fields = {}
    for c in hdrs[0]:
        fields.setdefault(ln(c), []).append(c.text or "")
    want_fields = ["COMMENT", "CREATION-TIME", "REQ-IF-TOOL-ID", "REQ-IF-VERSION", "SOURCE-TOOL-ID", "TITLE"]
    if sorted(fields) != want_fields or any(len(v) != 1 for v in fields.values()):
        bad.append(("to_reqif|skeleton|header-fields", f"REQ-IF-HEADER holds {sorted((k, len(v)) for k, v in fields.items())}"))
        return bad
    content = list(root[1])
    sections = [ln(c) for c in content[0]] if len(content) == 1 and ln(content[0]) == "REQ-IF-CONTENT" else None
    if sections is None or sorted(sections) != sorted(["DATATYPES", "SPEC-TYPES", "SPEC-OBJECTS", "SPEC-RELATIONS", "SPECIFICATIONS", "SPEC-RELATION-GROUPS"]):
        bad.append(("to_reqif|skeleton|content", f"CORE-CONTENT holds {[ln(c) for c in content]} / {sections}"))
    if fields["REQ-IF-VERSION"][0] not in ("1.0", "1.0.1", "1.1", "1.2"):
        bad.append(("to_reqif|header|version", f"REQ-IF-VERSION {fields['REQ-IF-VERSION'][0]!r}"))
    ct = fields["CREATION-TIME"][0]
    try:
        inst = datetime.datetime.strptime(ct, "%Y-%m-%dT%H:%M:%SZ").replace(tzinfo=datetime.timezone.utc)
    except ValueError:
        bad.append(("to_reqif|header|creation-time", f"CREATION-TIME {ct!r} is not a UTC timestamp"))
        inst = None
    want_ct = (md or {}).get("creation_time")
    if inst is not None:
        if want_ct is not None and inst != want_ct.astimezone(datetime.timezone.utc).replace(microsecond=0):
            bad.append(("to_reqif|header|creation-time", f"CREATION-TIME {ct!r} for requested {want_ct.isoformat()}"))
        if want_ct is None and not (t0.replace(microsecond=0) <= inst <= t1):
            bad.append(("to_reqif|header|creation-time", f"CREATION-TIME {ct!r} is not the time of the call ({t0.isoformat()}…{t1.isoformat()})"))
    for e in root.iter():
        if isinstance(e.tag, str) and e.get("IDENTIFIER") is not None and ln(e) != "REQ-IF-HEADER" and e.get("LAST-CHANGE") != ct:
            bad.append(("to_reqif|header|last-change", f"<{ln(e)} {e.get('IDENTIFIER')}> LAST-CHANGE {e.get('LAST-CHANGE')!r}, CREATION-TIME {ct!r}"))
            break
    want_title = (md or {}).get("title", mod._element.get("ReqIFLongName") or "")
    if fields["TITLE"][0] != want_title:
        bad.append(("to_reqif|header|title", f"TITLE {fields['TITLE'][0]!r}, expected {want_title!r}"))
    if md and "comment" in md and fields["COMMENT"][0] != md["comment"]:
        bad.append(("to_reqif|header|comment", f"COMMENT {fields['COMMENT'][0]!r}, expected {md['comment']!r}"))
    if hdrs[0].get("IDENTIFIER") != "_" + mod._model.uuid.upper():
        bad.append(("to_reqif|header|identifier", f"header IDENTIFIER {hdrs[0].get('IDENTIFIER')!r}"))
    return bad


def err_name(e: BaseException) -> str:
    from lxml import etree

    if isinstance(e, AssertionError):
        return "assertion"
    if isinstance(e, etree.ParserError):
        return "parser"
    return type(e).__name__


def evaluate(env: Env, mod, case: dict, out: Outcome, pending: list) -> list[tuple[str, str]]:
    """Run one module state: implementation, monitor; queue the correspondence request."""
    try:
        desc = describe(mod, env.reqif)
    except common.InfraError:
        raise
    except Exception as e:  # noqa: BLE001 - the object layer cannot even present the module: not the exporter's business
        out.hit("describe:raised")
        out.extra.setdefault("describe_raised", []).append(f"{type(e).__name__}: {str(e)[:80]}")
        return []
    feats = features(desc)
    variant = case_variant(case)
    md = metadata_variant(variant)
    t0 = datetime.datetime.now(datetime.timezone.utc)
    data, exc = export_once(mod, md)
    t1 = datetime.datetime.now(datetime.timezone.utc)
    found = monitor(mod, data, exc, feats)
    if data is not None:
        found += monitor_header(mod, data, md, t0, t1)
    for sig, what in found:
        out.find(sig, what, case)
    out.hit(f"metadata:variant-{variant % MD_VARIANTS}")
    nreq = len(all_reqs(desc))
    nontrivial = bool(desc["folders"] and any(all_reqs(f) for f in desc["folders"])) or any(r["attrs"] for r in all_reqs(desc))
    key = common.sha(desc)
    out.case(key, {"case": {k: v for k, v in case.items() if k != "ops"} | ({"n_ops": len(case["ops"])} if "ops" in case else {}),
                   "requirements": nreq, "features": sorted(feats)} if nreq and len(out.samples) < 6 else None, nontrivial)
    for f in feats:
        out.hit(f)
    out.hit("export:" + ("ok" if exc is None else err_name(exc)))
    out.traces_validated += 1
    if exc is None:
        try:
            impl = {"doc": parse_doc(data, env.n_so, env.n_spec), "dfs": [r["uuid"] for r in all_reqs(desc)]}
        except Exception as e:  # noqa: BLE001
            impl = {"unparsable": repr(e)[:200]}
    else:
        impl = {"err": err_name(exc)}
    xt = xhtml_table(desc)
    desc = dict(desc, set_order=set_order(mod, env.exporter))
    seen: dict = {}
    for r in all_reqs(desc):
        row = seen.setdefault(r["type"]["uuid"] if r["type"] else None, [])
        for a in r["attrs"]:
            k = (a["def"]["uuid"] if a["def"] else None, {"bool": "BOOLEAN", "int": "INTEGER", "enum": "ENUMERATION"}.get(a["value"]["k"], a["value"]["k"].upper()))
            if k not in row:
                row.append(k)
    obs = {o["type"]: [(d["def"], d["kind"]) for d in o["defs"]] for o in desc["set_order"]}
    if any(len(v) > 1 for v in obs.values()):
        out.hit("set-order:" + ("first-seen" if all(obs.get(k) == v for k, v in seen.items()) else "rearranged"))
    pending.append(({"op": "export", "module": desc, "xhtml": xt}, impl, case))
    # whole-tree stream: same module, plus the header inputs
    if exc is None:
        try:
            itree = parse_tree(data)
            now = next((c["x"] for h in itree["c"][0]["c"] for c in h["c"] if c["t"] == "CREATION-TIME"), "") or ""
            itree = canon_tree(itree, env.n_so)
        except Exception as e:  # noqa: BLE001
            itree, now = {"unparsable": repr(e)[:200]}, ""
        timpl = {"tree": itree}
    else:
        timpl, now = {"err": err_name(exc)}, ""
    envj = {"default_comment": "Requirements module " + repr(mod.name) + " from " + repr(mod._model.name),
            "now": now, "tool_id": "capellambse v" + env.capellambse.__version__,
            "source_tool_id": "Capella " + str(mod._model.info.capella_version)}
    pending.append(({"op": "tree", "module": desc, "xhtml": xt, "env": envj, "metadata": md_json(md)}, timpl, case))
    return found


def run_history(env: Env, rel: str, ops: list, out: Outcome | None, pending: list | None, every: bool = True):
    """Apply ops on a fresh module of model `rel`; evaluate after each op (or only at the end)."""
    h = History(env.model(rel), env.reqif)
    found_all: list[tuple[str, str]] = []
    try:
        for i, op in enumerate(ops):
            safe_apply(h, op, out)
            if every or i == len(ops) - 1:
                o = out if out is not None else Outcome()
                p = pending if pending is not None else []
                found_all += evaluate(env, h.mod, {"kind": "history", "model": rel, "ops": ops[: i + 1]}, o, p)
        if out is not None:
            out.extra["moves"] = out.extra.get("moves", 0) + h.moved
    finally:
        h.discard()
    return found_all


_CREATES = {"add_folder": "conts", "add_req": "reqs", "new_type": "types", "new_mtype": "mtypes", "new_dt": "dts",
            "new_edt": "edts", "new_def": "defs"}


def _op_refs(op: list) -> list[tuple[int, str]]:
    """(position in op, registry) of every registry index the op mentions"""
    n = op[0]
    if n in ("add_req", "add_folder", "del_folder"):
        return [(1, "conts")]
    if n in ("del_req", "set_field", "del_attr"):
        return [(1, "reqs")]
    if n == "move_req":
        return [(1, "reqs"), (2, "conts")]
    if n == "move_folder":
        return [(1, "conts"), (2, "conts")]
    if n == "set_type":
        return [(1, "reqs"), (2, "types")]
    if n == "new_def":
        return [(1, "types"), (3, "edts" if op[2] else "dts")]
    if n == "add_attr":
        return [(1, "reqs"), (3, "defs")]
    if n == "set_def_dt":
        return [(1, "defs")] + ([(3, op[2])] if op[2] else [])
    if n == "mod_type":
        return [(1, "mtypes")]
    return []


def _without(ops: list, i: int) -> list:
    """ops minus op i, with later registry indices renumbered (ops that used the removed entry are dropped)"""
    reg = _CREATES.get(ops[i][0])
    if reg is None:
        return ops[:i] + ops[i + 1:]
    k = sum(1 for o in ops[:i] if _CREATES.get(o[0]) == reg) + (1 if reg == "conts" else 0)
    out = ops[:i]
    for o in ops[i + 1:]:
        o = list(o)
        drop = False
        for pos, r in _op_refs(o):
            if r == reg and isinstance(o[pos], int) and not isinstance(o[pos], bool):
                if o[pos] == k:
                    drop = True
                elif o[pos] > k:
                    o[pos] -= 1
        if not drop:
            out.append(o)
    return out


def shrink(env: Env, rel: str, ops: list, sig: str, budget: int = 60) -> list:
    """greedy one-at-a-time removal (registry indices renumbered) keeping the signature"""
    cur = list(ops)
    progress = True
    while progress and budget > 0:
        progress = False
        i = len(cur) - 1
        while i >= 0 and budget > 0:
            cand = _without(cur, i)
            budget -= 1
            try:
                found = run_history(env, rel, cand, None, None, every=False) if cand else []
            except Exception:  # noqa: BLE001
                found = []
            if any(s == sig for s, _ in found):
                cur = cand
                progress = True
            i -= 1
    return cur


def hist_models_of(airds: list[str], ctx: Ctx) -> list[str]:
    return [r for r in airds if "melodymodel/5_2" in r or "writemodel" in r or (ctx.thorough and "melodymodel" in r)]


_R = ["add_req", 0, "R", "name", "chapter", "ID-1", "<p>text</p>"]
DIRECTED = [
    # definition-less attributes of every kind under two requirement types and under no type
    [["new_type", "T1", ""], ["new_type", "T2", "d"], _R, _R, _R, ["set_type", 0, 0], ["set_type", 1, 1],
     *[["add_attr", r, k, None, v] for r in (0, 1, 2) for k, v in (("string", "s"), ("bool", True), ("int", 7), ("real", 1.5), ("date", [86400, 60]))]],
    # one definition used under two types and under no type
    [["new_type", "T1", ""], ["new_type", "T2", ""], ["new_dt", "DT"], ["new_def", 0, False, 0, "D", "", False], _R, _R, _R,
     ["set_type", 0, 0], ["set_type", 1, 1], ["add_attr", 0, "string", 0, "a"], ["add_attr", 1, "string", 0, "b"],
     ["add_attr", 2, "string", 0, "c"], ["add_attr", 2, "int", 0, 3]],
    # enumeration attribute without definition
    [["new_edt", "E", [["v1", ""], ["v2", "d"]]], _R, ["add_attr", 0, "enum", None, [0]]],
    # fields with nothing to parse
    [["add_req", 0, "R", " ", "\n", "", " "], ["add_req", 0, "R", "<!-- c -->", "<?pi?>", "", "<!-- only a comment -->"]],
    # markup-significant characters in plain-text fields, module long name included
    [["add_req", 0, "L<1>&\"'", "if a<b then c", "x <y> z", "ID<&>\"'", "<p>x &amp; y &lt; z</p>"], ["mod_field", "long_name", "M <b>&</b> a<b"],
     ["mod_field", "description", "D <&>"], ["add_req", 0, "]]>", "<script>x</script>", "&amp; &lt;", "&", "<p>]]&gt;</p>"]],
    # enumeration definitions: without data type, with data type, multi-valued, values with markup
    [["new_type", "T", ""], ["new_edt", "E<&>", [["v<1>", "d&"], ["v2", ""], ["", ""]]], ["new_def", 0, True, None, "NoDT", "", False],
     ["new_def", 0, True, 0, "Single", "desc", False], ["new_def", 0, True, 0, "Multi", "", True], _R, ["set_type", 0, 0],
     ["add_attr", 0, "enum", 0, []], ["add_attr", 0, "enum", 1, [1]], ["add_attr", 0, "enum", 2, [0, 2]], _R, ["add_attr", 1, "enum", 2, [2, 1, 0]]],
    # plain definitions with and without data type, every kind under one definition
    [["new_type", "T", ""], ["new_dt", "DT"], ["new_def", 0, False, 0, "WithDT", "", False], ["new_def", 0, False, None, "NoDT", "d", False], _R,
     ["set_type", 0, 0], *[["add_attr", 0, k, d, v] for d in (0, 1) for k, v in (("string", "s"), ("bool", False), ("int", -7), ("real", 0.1), ("date", None))]],
    # a definition is re-typed after a choice was made: the attribute keeps a value of the old data type
    [["new_type", "T", ""], ["new_edt", "E1", [["a", ""], ["b", ""]]], ["new_edt", "E2", [["c", ""]]], ["new_def", 0, True, 0, "Sel", "", False], _R,
     ["set_type", 0, 0], ["add_attr", 0, "enum", 0, [1]], ["set_def_dt", 0, "edts", 1], ["set_def_dt", 0, None, None], ["set_def_dt", 0, "edts", 0]],
    # an enumeration definition under a simple attribute, alone and next to an enumeration attribute of the same definition
    [["new_type", "T", ""], ["new_edt", "E", [["a", ""], ["b", "d"]]], ["new_def", 0, True, 0, "Sel", "", True], _R, ["set_type", 0, 0],
     ["add_attr", 0, "string", 0, "s", True], ["add_attr", 0, "enum", 0, [0, 1]], ["add_attr", 0, "int", 0, 3, True]],
    # links of the wrong class: enumeration attribute → plain definition; enumeration definition → plain data type; plain definition → enumeration data type
    [["new_type", "T", ""], ["new_dt", "DT"], ["new_edt", "E", [["a", ""]]], ["new_def", 0, False, 0, "Plain", "", False], _R, ["set_type", 0, 0],
     ["add_attr", 0, "enum", 0, [0], True]],
    [["new_type", "T", ""], ["new_dt", "DT"], ["new_edt", "E", [["a", ""]]], ["new_def", 0, True, 0, "Sel", "", False], _R, ["set_type", 0, 0],
     ["add_attr", 0, "enum", 0, [0]], ["set_def_dt", 0, "dts", 0]],
    [["new_type", "T", ""], ["new_dt", "DT"], ["new_edt", "E", [["a", ""]]], ["new_def", 0, False, 0, "Plain", "", False], _R, ["set_type", 0, 0],
     ["add_attr", 0, "string", 0, "s"], ["set_def_dt", 0, "edts", 0], ["add_attr", 0, "real", 0, 2.5]],
    # both crash classes in one module: which exception is raised depends on the iteration order of the set
    [["new_type", "T", ""], ["new_dt", "DT"], ["new_edt", "E", [["a", ""]]], ["new_def", 0, False, 0, "Plain", "", False], _R, ["set_type", 0, 0],
     _R, ["set_type", 1, 0], ["add_attr", 0, "enum", None, []], ["add_attr", 1, "enum", 0, [0], True], ["add_attr", 1, "enum", None, [0]]],
    # nesting, removal and moves
    [["add_folder", 0, "F1"], ["add_folder", 1, "F2"], ["add_folder", 2, "F3"], ["add_folder", 0, "G"], _R, ["add_req", 1, "A", "", "", "", ""],
     ["add_req", 2, "B", "", "", "", ""], ["add_req", 3, "C", "", "", "", ""], ["add_req", 4, "D", "", "", "", ""], ["add_req", 3, "E", "", "", "", ""],
     ["move_req", 3, 0, 0], ["move_req", 0, 3, 1], ["move_folder", 4, 3], ["move_folder", 2, 0], ["del_req", 1], ["move_req", 5, 1, 0],
     ["del_folder", 1], ["add_req", 0, "late", "", "", "", ""]],
]


def run(ctx: Ctx) -> Outcome:
    env = Env(ctx)
    out = Outcome(rule=RULE)
    pending: list = []
    req: list[dict] = []

    # tables of the model == tables of the code
    req.append({"op": "tables"})
    std_impl = {"spec_object": [[n, v["type"], v["attr"]] for n, v in env.exporter.STD_SPEC_OBJECT_ATTRIBUTES.items()],
                "specification": [[n, v["type"]] for n, v in env.exporter.STD_SPECIFICATION_ATTRIBUTES.items()]}
    field_attr = {"identifier": "identifier", "chapterName": "chapter_name", "name": "name", "text": "text"}

    # (a) corpus
    airds = env.airds()
    n_mod = 0
    for rel in airds:
        try:
            model = env.model(rel)
        except Exception as e:  # noqa: BLE001
            out.extra.setdefault("unloadable_models", []).append(f"{rel}: {type(e).__name__}")
            continue
        mods = list(model.search(env.reqif.CapellaModule))
        for mod in mods:
            n_mod += 1
            evaluate(env, mod, {"kind": "corpus", "model": rel, "module": mod.uuid, "md": n_mod}, out, pending)
            if n_mod <= ctx.pick(4, 1000):
                bad, seen = monitor_compress(mod, ctx.scratch)
                for sig, what in bad:
                    out.find(sig, what, {"kind": "compress", "model": rel, "module": mod.uuid})
                for s in seen:
                    req.append({"op": "decide", "target": s["target"], "compress": s["compress"]})
                    pending.append((None, {"compress": s["zip"]}, {"kind": "compress", "model": rel, "module": mod.uuid, **s}))
                    out.case(("compress", rel, mod.uuid, str(s["target"]), str(s["compress"])), nontrivial=True)
    out.extra["corpus_models"] = len(airds)
    out.extra["corpus_modules"] = n_mod

    # (b0) directed histories: one per input class behind a (repaired or recorded) defect, and deep nesting with moves
    for ops in DIRECTED:
        for rel in hist_models_of(airds, ctx)[:1]:
            h = History(env.model(rel), env.reqif)
            done: list = []
            try:
                for op in ops:
                    if safe_apply(h, op, out):
                        done.append(op)
                        evaluate(env, h.mod, {"kind": "history", "model": rel, "ops": list(done)}, out, pending)
                out.extra["moves"] = out.extra.get("moves", 0) + h.moved
            finally:
                h.discard()
    out.extra["directed_histories"] = len(DIRECTED)

    # (b1) deep nesting: a chain of folders with a requirement at every eighth level and at the bottom (the exporter's
    # three traversals are recursive generators; CPython's recursion limit is near 1000 frames)
    depth = ctx.pick(96, 400)
    ops = []
    for i in range(depth):
        ops.append(["add_folder", i, f"F{i}"])
        if i % 8 == 7:
            ops.append(["add_req", i + 1, f"R{i}", "", "", "", ""])
    ops.append(["add_req", depth, "leaf", "n", "c", "ID", "<p>t</p>"])
    ops.append(["add_req", 0, "top", "", "", "", ""])
    for rel in hist_models_of(airds, ctx)[:1]:
        h = History(env.model(rel), env.reqif)
        try:
            for op in ops:
                safe_apply(h, op, out)
            evaluate(env, h.mod, {"kind": "history", "model": rel, "ops": ops}, out, pending)
        finally:
            h.discard()
    out.extra["deep_nesting_depth"] = depth

    # (b) edit histories
    hist_models = hist_models_of(airds, ctx)
    n_hist = ctx.pick(50, 1200)
    n_ops = ctx.pick(18, 24)
    for hi in range(n_hist):
        rel = hist_models[hi % len(hist_models)]
        risky = 0.0 if hi % 3 else 0.25  # two thirds of the histories stay clear of the recorded findings
        h = History(env.model(rel), env.reqif)
        ops: list = []
        try:
            done = 0
            for _ in range(3 * n_ops):
                if done >= n_ops:
                    break
                op = gen_op(ctx.rng, h, risky)
                if not safe_apply(h, op, out):
                    continue
                ops.append(op)
                if op[0] in _CREATES and op[0] not in ("add_req", "add_folder"):
                    continue  # vocabulary only: the module (and its export) is unchanged
                done += 1
                found = evaluate(env, h.mod, {"kind": "history", "model": rel, "ops": list(ops)}, out, pending)
                if any(s.startswith("to_reqif|crash") for s, _ in found):
                    break  # a crashing state hides everything after it
            out.extra["moves"] = out.extra.get("moves", 0) + h.moved
            if hi == 0:
                bad, seen = monitor_compress(h.mod, ctx.scratch)
                for sig, what in bad:
                    out.find(sig, what, {"kind": "compress-history", "model": rel, "ops": list(ops)})
        finally:
            h.discard()
    out.extra["histories"] = n_hist
    out.extra["ops_per_history"] = n_ops

    # (c) the same modules under different string-hash seeds (separate processes)
    monitor_hash_seeds(ctx, out, hist_models[0])

    # shrink history replays (first of each signature)
    for f in out.findings:
        if f.replay.get("kind") == "history":
            try:
                small = shrink(env, f.replay["model"], f.replay["ops"], f.signature, budget=ctx.pick(40, 120))
                f.replay = {"kind": "history", "model": f.replay["model"], "ops": small}
            except Exception:  # noqa: BLE001
                pass

    # ---- differential comparison
    if os.environ.get("VERIF_NO_MODEL") != "1":
        lines = [req[0]] + [p[0] for p in pending if p[0] is not None] + req[1:]
        answers = common.model(lines, driver="Reqif")
        tab = answers[0].get("ok")
        impl_tab = {"spec_object": [[n, t, a] for n, t, a in std_impl["spec_object"]], "specification": std_impl["specification"]}
        model_tab = None if tab is None else {
            "spec_object": [[n, t, field_attr.get(f.split(".")[-1], f)] for n, t, f in tab["spec_object"]],
            "specification": tab["specification"]}
        if model_tab != impl_tab:
            out.disagree("tables", "STD_*_ATTRIBUTES", impl_tab, model_tab)
        out.hit("tables")
        n_exp = len([p for p in pending if p[0] is not None])
        exp_answers = answers[1: 1 + n_exp]
        dec_answers = answers[1 + n_exp:]
        ei = di = 0
        for reqline, impl, case in pending:
            if reqline is not None:
                ans = exp_answers[ei]
                ei += 1
                mv = ans.get("ok", {"driver-error": ans.get("err")})
                if reqline["op"] == "tree":
                    compare_tree(env, out, case, impl, mv)
                    continue
                if "doc" in mv:
                    mv = {"doc": canon_model_doc(mv["doc"]), "dfs": mv["dfs"]}
                if mv != impl:
                    small = {k: v for k, v in case.items()}
                    out.disagree("export", small, _first_diff(impl, mv), "see impl field (first difference: path, impl, model)")
                out.hit("stream:export")
            else:
                ans = dec_answers[di]
                di += 1
                mv = ans.get("ok", {})
                if mv.get("compress") != impl["compress"]:
                    out.disagree("compress-decision", case, impl, mv)
                out.hit("stream:compress-decision")
    return out


def compare_tree(env: "Env", out: Outcome, case: dict, impl: dict, mv: dict) -> None:
    """stream `tree`: the whole element tree of the model against the re-parsed bytes"""
    out.hit("stream:tree")
    if "tree" in mv:
        mt = canon_tree(mv["tree"], env.n_so)
        # the model's own scans (Lean `Xml.idents` / `Xml.refTexts`) against the harness's scan of the same tree
        ids, refs = tree_scan(mt)
        if ids != mv["idents"] or refs != mv["refs"]:
            out.disagree("tree-scan", {k: v for k, v in case.items()}, _first_diff({"idents": ids, "refs": refs}, {"idents": mv["idents"], "refs": mv["refs"]}),
                         "Lean scan of the model tree differs from the harness scan of the same tree (path, harness, Lean)")
        mv = {"tree": mt}  # no sorting: the set order is an input of the model
        out.hit("tree:ok")
    else:
        out.hit("tree:" + str(mv.get("err", "driver-error")))
    if mv != impl:
        out.disagree("tree", {k: v for k, v in case.items()}, _first_diff(impl, mv), "see impl field (first difference: path, impl, model)")


def _first_diff(a, b, path="$"):
    if type(a) is not type(b):
        return [path, a if not isinstance(a, (dict, list)) else type(a).__name__, b if not isinstance(b, (dict, list)) else type(b).__name__]
    if isinstance(a, dict):
        for k in sorted(set(a) | set(b)):
            if k not in a or k not in b:
                return [f"{path}.{k}", "present" if k in a else "absent", "present" if k in b else "absent"]
            d = _first_diff(a[k], b[k], f"{path}.{k}")
            if d:
                return d
        return None
    if isinstance(a, list):
        if len(a) != len(b):
            return [path + ".len", len(a), len(b)]
        for i, (x, y) in enumerate(zip(a, b)):
            d = _first_diff(x, y, f"{path}[{i}]")
            if d:
                return d
        return None
    return None if a == b else [path, a, b]


def replay(ctx: Ctx, case: dict):
    """Re-run ONE recorded failing case against the implementation under the monitor."""
    env = Env(ctx)
    if case["kind"] == "corpus":
        mod = env.model(case["model"]).by_uuid(case["module"])
        desc = describe(mod, env.reqif)
        md = metadata_variant(case_variant(case))
        t0 = datetime.datetime.now(datetime.timezone.utc)
        data, exc = export_once(mod, md)
        found = monitor(mod, data, exc, features(desc))
        if data is not None:
            found += monitor_header(mod, data, md, t0, datetime.datetime.now(datetime.timezone.utc))
    elif case["kind"] == "compress":
        mod = env.model(case["model"]).by_uuid(case["module"])
        found, _ = monitor_compress(mod, ctx.scratch)
    elif case["kind"] == "hash-seeds":
        o = Outcome()
        monitor_hash_seeds(ctx, o, case["model"])
        found = [(f.signature, f.what) for f in o.findings]
    elif case["kind"] == "compress-history":
        h = History(env.model(case["model"]), env.reqif)
        for op in case["ops"]:
            safe_apply(h, op, None)
        found, _ = monitor_compress(h.mod, ctx.scratch)
    else:
        found = run_history(env, case["model"], case["ops"], None, None, every=False)
    if found:
        return "; ".join(f"{s}: {w}" for s, w in found[:3])
    return None
