"""C12 — declarative modelling resolves promises independently of declaration order.

implementation: decl.apply (through YDMDumper with sort_keys=False -> YAML -> decl.load) on freshly loaded test models
correspondence: the Lean machine `Capella.Decl.apply` (Model/Decl.lean) on the same document in the same
                order; compared: UUID-free canonical view (lists in order), promise map, error kind
monitor:        (a) all permutations of a document give the same canonical view (exact, lists in order)
                    unless two instructions extend the same list;
                (b) every permutation agrees, up to sibling order, with an order-free denotation computed
                    by this file (every `!promise p` replaced by the object whose description carries
                    `promise_id: p`); the returned mapping sends p to that object;
                (c) a dangling `!promise` / a duplicated `promise_id` makes every permutation raise.
"""

from __future__ import annotations

import collections
import copy
import random
import itertools
import json
import math
import os

import common
from common import Ctx, Outcome

from . import decl_lib as L

DRIVERS = ["Decl"]
TABLES = True
LEVEL = "proof"
RULE = ("seeded random create/extend documents over a slice of the LA metamodel (components, functions, ports, "
        "exchanges, data packages, classes, properties): 2-9 creation sites, nested or attached through "
        "`parent: !promise`, reference attributes (super/type/source/target) and reference-list entries "
        "(allocated_functions) pointing at other sites via !promise (forward, backward, chained), at base objects "
        "via !uuid / !find, `!find` with a promise inside; fault variants (dangling promise, duplicated promise_id); "
        "plus set/sync/delete documents for the model correspondence. Every document is applied in ALL orders of its "
        "instructions when it has <= 5 (quick: <= 4, sampled above), random orders beyond. A case = (model, document, "
        "order); distinct = distinct (model, canonical document JSON, order); non-trivial = the document uses at least "
        "one promise and the order is one in which some reference precedes its declaration or the document has a fault")
ASSUMPTIONS = [
    "the metamodel slice is a parameter of the model: default class per list attribute, containment vs reference lists "
    "(harness/props/decl_lib.py SCHEMA); attribute-existence TypeErrors, create_singleattr, dict-valued `set` and "
    "nested `!find` are not modelled and not generated",
    "generated creation sites carry distinct names; objects are identified across runs by their name path below the "
    "three roots (la.root_component, la.root_function, la.data_package)",
    "PyYAML dump/load of the generated documents is faithful (sampled by C13)",
]
TRUSTED = ["C12: rendering of the implementation state through the public attribute API (getattr on model objects)"]
MANIFEST = dict(
    text=("Lean small-step model of decl.apply (instruction queue, promises, deferred entries, the lazily consumed "
          "operator generators as an explicit agenda) over an abstract object graph. Proved for all documents and "
          "graphs: the loop terminates within an explicit measure; a successful run fulfilled every declared "
          "promise_id exactly once (a duplicated id raises) and resolved every referenced promise (a dangling "
          "reference raises); promise bindings never change and are created by the declaring site. Order "
          "independence is proved in the form the code has (equality up to the order of siblings, create/extend "
          "documents); the full statement is refuted by a kernel-checked witness that is replayed on the "
          "implementation (known finding). Tie: differential runs over all instruction orders of generated documents."),
    design_ref="§6 C12",
    note=("Trusted: Lean kernel; the metamodel slice and rendering in harness/props/decl_lib.py; PyYAML. The model "
          "covers apply/_resolve/_resolve_findby/_operate_*/_create_complex_object(s) over an abstract graph, not "
          "the accessor layer underneath (create/append/setattr on real model objects are compared, not proved)."),
    technique="Lean 4 proof (small-step machine, measure + conservation invariants) + exhaustive-permutation differential correspondence",
)

# lists the generator creates into (typed views such as `unions` are only read, never extended directly)
CONT_OPTS = {c: [(a, mc) for a, (mc, cont) in ls.items() if cont and a not in L.VIEW.values()]
             for c, (_, _, ls) in L.SCHEMA.items()}


# ------------------------------------------------------------------ generator


def gen_sites(rng, base: L.Base, n: int, p_nested=0.55, p_ref=0.7):
    """abstract sites: dict(nid, cls, name, cont=('root', r)|('site', nid), attr, nested, refs{attr: val}, alloc[val])"""
    sites = []
    for k in range(n):
        nid = 10000 + k
        hosts = [s for s in sites if CONT_OPTS[s["cls"]]]
        if hosts and rng.random() < 0.6:
            h = rng.choice(hosts)
            attr, cls = rng.choice(CONT_OPTS[h["cls"]])
            cont = ("site", h["nid"])
            nested = rng.random() < p_nested
        else:
            r = rng.choice(["rc", "rf", "dp"])
            attr, cls = rng.choice(CONT_OPTS[base.root_cls[r]])
            cont = ("root", r)
            nested = False
        force_hint = False
        if attr == "classes" and rng.random() < 0.3:
            # one of the other classes the list can create: only the `_type` hint selects it
            cls, force_hint = "Union", True
        sites.append(dict(nid=nid, cls=cls, name=f"n{nid}", cont=cont, attr=attr, nested=nested, refs={}, alloc=[],
                          descr=(f"d{nid}" if "description" in L.SCHEMA[cls][0] and rng.random() < 0.3 else None),
                          hint=force_hint or rng.random() < 0.5, pid=None))
    by_cls: dict[str, list] = {}
    for s in sites:
        by_cls.setdefault(s["cls"], []).append(s)
    for s in sites:
        for attr, tcls in L.SCHEMA[s["cls"]][1].items():
            if rng.random() > p_ref:
                continue
            cands = [t for t in by_cls.get(tcls, []) if t is not s]
            bases = base.findable.get(tcls, [])
            if cands and (not bases or rng.random() < 0.85):
                t = rng.choice(cands)
                t["pid"] = t["pid"] or f"p{t['nid']}"
                s["refs"][attr] = {"p": t["pid"]}
            elif bases:
                b = rng.choice(bases)
                s["refs"][attr] = ({"u": b} if rng.random() < 0.5 else
                                   {"f": {"ty": tcls, "keys": [["name", {"s": base.name_of[b]}]]}})
    funcs = by_cls.get("LogicalFunction", [])
    bfuncs = list(base.free_funcs)
    used: list = []
    for s in [x for x in sites if x["cls"] == "LogicalComponent"] + [None]:
        if rng.random() < 0.6:
            for _ in range(rng.randint(1, 3)):
                if funcs and rng.random() < 0.8:
                    t = rng.choice(funcs)
                    t["pid"] = t["pid"] or f"p{t['nid']}"
                    v = {"p": t["pid"]}
                elif bfuncs:
                    v = {"u": rng.choice(bfuncs)}
                else:
                    continue
                if v in used:  # a function is allocated at most once per document
                    continue
                used.append(v)
                if s is None:
                    sites.append(dict(rootalloc=v))
                else:
                    s["alloc"].append(v)
    for s in sites:
        if "nid" in s and s["cont"][0] == "site" and not s["nested"]:
            h = next(x for x in sites if x.get("nid") == s["cont"][1])
            h["pid"] = h["pid"] or f"p{h['nid']}"
        if "nid" in s and s["pid"] is None and rng.random() < 0.15:
            s["pid"] = f"p{s['nid']}"
    return sites


def build_doc(rng, base: L.Base, sites, shared=False):
    real = [s for s in sites if "nid" in s]
    by_id = {s["nid"]: s for s in real}

    def item(s):
        scal = [["name", {"s": s["name"]}]]
        if s["descr"]:
            scal.append(["description", {"s": s["descr"]}])
        for a, v in s["refs"].items():
            scal.append([a, v])
        rng.shuffle(scal)
        kids: dict[str, list] = {}
        for c in real:
            if c["cont"] == ("site", s["nid"]) and c["nested"]:
                kids.setdefault(c["attr"], []).append(item(c))
        if s["alloc"]:
            kids["allocated_functions"] = [{"ref": v} for v in s["alloc"]]
        kl = [[k, l] for k, l in kids.items()]
        rng.shuffle(kl)
        x = {"nid": s["nid"], "scal": scal, "kids": kl}
        if s["pid"]:
            x["pid"] = s["pid"]
        if s["hint"]:
            x["ty"] = s["cls"]
        return x

    entries: dict[tuple, list] = {}
    for s in real:
        if s["cont"][0] == "site" and s["nested"]:
            continue
        if s["cont"][0] == "root":
            pkey = ("u", base.root_id(s["cont"][1]))
        else:
            pkey = ("p", by_id[s["cont"][1]]["pid"])
        entries.setdefault((pkey, s["attr"]), []).append(item(s))
    for s in sites:
        if "rootalloc" in s:
            entries.setdefault((("u", base.root_id("rc")), "allocated_functions"), [])
            if {"ref": s["rootalloc"]} not in entries[(("u", base.root_id("rc")), "allocated_functions")]:
                entries[(("u", base.root_id("rc")), "allocated_functions")].append({"ref": s["rootalloc"]})
    elist = []
    for (pkey, attr), items in entries.items():
        if shared and len(items) >= 2 and rng.random() < 0.7:
            cut = rng.randint(1, len(items) - 1)
            elist.append((pkey, attr, items[:cut]))
            elist.append((pkey, attr, items[cut:]))
        else:
            elist.append((pkey, attr, items))
    rng.shuffle(elist)
    instrs: list[dict] = []
    for pkey, attr, items in elist:
        placed = False
        if rng.random() < 0.5:
            for ins in instrs:
                if ins["_pkey"] == pkey and attr not in {k for k, _ in ins["create"] + ins["ext"]}:
                    ins[rng.choice(["create", "ext"])].append([attr, items])
                    placed = True
                    break
        if not placed:
            ins = {"parent": {pkey[0]: pkey[1]}, "create": [], "ext": [], "_pkey": pkey}
            ins[rng.choice(["create", "ext"])].append([attr, items])
            instrs.append(ins)
    for ins in instrs:
        del ins["_pkey"]
        for k in ("create", "ext"):
            if not ins[k]:
                del ins[k]
    return instrs


def inject_findp(rng, base: L.Base, doc, nid0=10900, all_uses=False):
    """forward `!promise` references inside find-directives: as attribute value, as instruction parent and
    in a sync `find`. One instruction declares K, C (super: !promise K) — in this order, in one list — and the
    host classes D1, D3; the using instructions go anywhere in the document."""
    dp = base.root_id("dp")
    n = itertools.count(nid0)
    pk, k, c, d1, d3 = (next(n) for _ in range(5))
    nm = lambda i: {"s": f"n{i}"}  # noqa: E731
    decl_ins = {"parent": {"u": dp}, "ext": [["packages", [{"nid": pk, "scal": [["name", nm(pk)]], "kids": [["classes", [
        {"nid": k, "pid": f"p{k}", "scal": [["name", nm(k)]]},
        {"nid": c, "scal": [["name", nm(c)], ["super", {"p": f"p{k}"}]]},
        {"nid": d1, "pid": f"p{d1}", "scal": [["name", nm(d1)]]},
        {"nid": d3, "pid": f"p{d3}", "scal": [["name", nm(d3)]]}]]]}]]]}
    find_c = {"f": {"ty": "Class", "keys": [["super", {"p": f"p{k}"}]]}}
    uses = []
    a, b, e = next(n), next(n), next(n)
    # (1) as attribute value
    uses.append({"parent": {"p": f"p{d1}"}, "ext": [["owned_properties", [
        {"nid": a, "scal": [["name", nm(a)], ["type", find_c]]}]]]})
    # (2) as parent of an instruction
    keys2 = [["name", nm(c)], ["super", {"p": f"p{k}"}]]
    rng.shuffle(keys2)
    uses.append({"parent": {"f": {"ty": "Class", "keys": keys2}},
                 "ext": [["owned_properties", [{"nid": b, "scal": [["name", nm(b)]]}]]],
                 "set": [["description", {"v": {"s": "touched"}}]]})
    # (3) in the find of a sync entry
    uses.append({"parent": {"p": f"p{d3}"}, "sync": [["owned_properties", [
        {"nid": e, "nid2": e + 50, "keys": [["name", nm(e)], ["type", {"p": f"p{k}"}]]}]]]})
    rng.shuffle(uses)
    doc = doc + [decl_ins] + (uses if all_uses else uses[: rng.randint(1, 3)])
    rng.shuffle(doc)
    return doc


def all_pids(doc):
    return [x["pid"] for x, _, _ in L.sites(doc) if x.get("pid")]


def all_refs(doc):
    out = []
    for ins in doc:
        out += L.promise_refs_val(ins["parent"])

    def rec(x):
        if "ref" in x:
            out.extend(L.promise_refs_val(x["ref"]))
            return
        for _, v in x.get("scal", []):
            out.extend(L.promise_refs_val(v))
        for _, l in x.get("kids", []):
            for y in l:
                rec(y)

    for ins in doc:
        for key in ("create", "ext"):
            for _, l in ins.get(key, []):
                for y in l:
                    rec(y)
    return out


def inject_fault(rng, doc, kind, rf):
    doc = copy.deepcopy(doc)
    objs = [x for x, _, _ in L.sites(doc)]
    if kind == "ghost":
        x = rng.choice(objs)
        cls_attr = {"classes": "super", "owned_properties": "type", "exchanges": "source"}
        # a dangling reference: as extra list entry where the class has a reference list, else as parent of a new instruction
        if rng.random() < 0.5:
            doc.append({"parent": {"p": "ghost"}, "ext": [["functions", [{"nid": 10990, "scal": [["name", {"s": "n1990"}]]}]]]})
        else:
            tgt = None
            for y, _, attr in L.sites(doc):
                if attr in cls_attr and not any(k == cls_attr[attr] for k, _ in y["scal"]):
                    tgt = (y, cls_attr[attr])
                    break
            if tgt:
                tgt[0]["scal"].append([tgt[1], {"p": "ghost"}])
            else:
                doc.append({"parent": {"p": "ghost"}, "ext": [["functions", [{"nid": 10990, "scal": [["name", {"s": "n1990"}]]}]]]})
        del x
    elif kind == "dup":
        dflt = dict((a, c) for a, c in L.DFLT)
        cls = {id(x): (x.get("ty") or dflt.get(attr)) for x, _, attr in L.sites(doc)}
        pairs = [(a, b) for a in objs if a.get("pid") for b in objs if b is not a and cls[id(a)] == cls[id(b)]]
        if pairs:  # same class, so that a misdirected promise cannot surface as an attribute TypeError first
            a, b = rng.choice(pairs)
            b["pid"] = a["pid"]
        else:
            objs[0]["pid"] = "pdup"
            doc.append({"parent": {"u": rf},
                        "ext": [["functions", [{"nid": 10991, "pid": "pdup", "scal": [["name", {"s": "n1991"}]]}]]]})
    return doc


def gen_ops_doc(rng, base: L.Base):
    """set / sync / delete documents (model correspondence only)"""
    rc, rf, dp = base.root_id("rc"), base.root_id("rf"), base.root_id("dp")
    t = rng.randint(0, 5)
    if t == 5:  # the same promise id declared by an object description and by a sync entry (found or created)
        return [{"parent": {"u": dp}, "ext": [["classes", [{"nid": 10000, "pid": "k", "scal": [["name", {"s": "n1000"}]]}]]]},
                {"parent": {"u": dp}, "sync": [["classes", [{"nid": 10001, "nid2": 10501, "keys": [["name", {"s": "n1000"}]],
                                                             "pid": "k"}]]]}]
    if t == 0:  # set list + scalar on a promised component
        k = rng.randint(1, 3)
        fs = [{"nid": 10000 + i, "pid": f"f{i}", "scal": [["name", {"s": f"n{10000 + i}"}]]} for i in range(k)]
        refs = [{"ref": {"p": f"f{i}"}} for i in range(k)]
        rng.shuffle(refs)
        doc = [{"parent": {"u": rf}, "ext": [["functions", fs]]},
               {"parent": {"u": rc}, "ext": [["components", [{"nid": 10100, "pid": "c", "scal": [["name", {"s": "n1100"}]],
                                                               "kids": []}]]]},
               {"parent": {"p": "c"}, "set": [["allocated_functions", {"l": refs}], ["description", {"v": {"s": "dx"}}]]}]
    elif t == 1:  # set a reference attribute through promises, in its own instruction
        doc = [{"parent": {"u": dp}, "ext": [["classes", [{"nid": 10000, "pid": "a", "scal": [["name", {"s": "n1000"}]]},
                                                          {"nid": 10001, "pid": "b", "scal": [["name", {"s": "n1001"}]]}]]]},
               {"parent": {"p": "a"}, "set": [["super", {"v": {"p": "b"}}]]},
               {"parent": {"p": "b"}, "set": [["description", {"v": {"s": "hello"}}], ["name", {"v": {"s": "n1001"}}]]}]
    elif t == 2:  # sync with nested sync, set with a promise, promise ids on found and created objects
        setp = rng.random() < 0.5
        doc = [{"parent": {"u": dp}, "sync": [["classes", [
            {"nid": 10000, "nid2": 10500, "keys": [["name", {"s": "n1000"}]], "pid": "k",
             "set": [["description", {"v": {"s": "dd"}}]],
             "sync": [["owned_properties", [{"nid": 10001, "nid2": 10501, "keys": [["name", {"s": "n1001"}]],
                                      "set": ([["type", {"v": {"p": "k2"}}]] if setp else [])}]]]},
            {"nid": 10002, "nid2": 10502, "keys": [["name", {"s": "n1002"}]], "pid": "k2",
             "set": ([["super", {"v": {"p": "k"}}]] if rng.random() < 0.6 else [])}]]]},
            {"parent": {"u": dp}, "sync": [["classes", [
                {"nid": 10003, "nid2": 10503, "keys": [["name", {"s": "n1000"}]], "pid": "again"}]]]}]
    elif t == 3:  # sync below a promised parent + extend inside sync
        doc = [{"parent": {"u": rf}, "sync": [["functions", [
            {"nid": 10000, "nid2": 10500, "ty": "LogicalFunction", "keys": [["name", {"s": "n1000"}]], "pid": "f",
             "ext": [["inputs", [{"nid": 10001, "pid": "i", "scal": [["name", {"s": "n1001"}]]}]]]}]]]},
            {"parent": {"p": "f"}, "sync": [["outputs", [{"nid": 10002, "nid2": 10502, "keys": [["name", {"s": "n1002"}]], "pid": "o"}]]]},
            {"parent": {"u": rf}, "ext": [["exchanges", [{"nid": 10003, "scal": [["name", {"s": "n1003"}], ["source", {"p": "o"}],
                                                                              ["target", {"p": "i"}]]}]]]}]
    else:  # delete through !find / !uuid
        doc = [{"parent": {"u": dp}, "ext": [["classes", [{"nid": 10000, "scal": [["name", {"s": "n1000"}]]},
                                                          {"nid": 10001, "scal": [["name", {"s": "n1001"}]]}]]]},
               {"parent": {"u": dp}, "del": [["classes", [{"f": {"ty": "Class", "keys": [["name", {"s": "n1000"}]]}}]]]}]
        if rng.random() < 0.3:
            doc[1]["del"][0][1].append({"p": "nope"})
    return doc


# ------------------------------------------------------------------ documents over the real metamodel


_META = None


def meta_rows():
    """(class, attr) -> kind, straight from the reflective dump that also writes Capella/Gen/DeclMeta*.lean"""
    global _META
    if _META is None:
        import gen_declmeta

        rows, hints = gen_declmeta.collect()
        by_cls: dict[str, list] = {}
        for c, a, k in rows:
            by_cls.setdefault(c, []).append((a, k))
        _META = (by_cls, hints)
    return _META


def kind_tag(k):
    if k is None:
        return "absent"
    if k[0] == "uncoupled":
        return "uncoupled"
    return "coupled:" + k[1][0] + (":nodefault" if k[1][0] == "xtype" and k[1][1] is None else "")


def gen_meta_doc(rng, base: L.Base):
    """creations below arbitrary objects of the model, in arbitrary attributes of their classes: coupled lists of
    every creator kind, uncoupled lists, attributes that are not lists / do not exist; with and without `_type`
    hints (class names, qualified and short xsi:types, unknown names), plain-string children, promise ids on
    every object description (they carry the created class back)."""
    by_cls, hints = meta_rows()
    good_hints = [h for h, c in hints if c is not None]
    objs = base.graph["objs"]
    doc, tags = [], []
    nid = itertools.count(10000)
    # mostly one creation site per document, so that the first exception is the one the model predicts (the
    # object layer below `create` may refuse an earlier site for reasons of its own)
    single = rng.random() < 0.8
    for _ in range(1 if single else rng.randint(2, 3)):
        o = rng.choice(objs)
        rows = by_cls.get(o["cls"], [])
        r = rng.random()
        pool = None
        if r < 0.5:
            pool = [(a, k) for a, k in rows if k[0] == "coupled" and k[1][0] == "xtype"]
        elif r < 0.62:
            pool = [(a, k) for a, k in rows if k[0] == "coupled" and k[1][0] == "cannot"]
        elif r < 0.72:
            pool = [(a, k) for a, k in rows if k[0] == "uncoupled"]
        elif r < 0.8:
            pool = [(a, k) for a, k in rows if k[0] == "coupled" and k[1][0] == "other"]
        if pool:
            attr, k = rng.choice(pool)
        elif r < 0.9 or not rows:
            attr, k = rng.choice(["name", "uuid", "parent", "no_such_attribute", "xtype", "description", "Functions"]), None
            if any(a == attr for a, _ in rows):
                k = next(kk for a, kk in rows if a == attr)
        else:
            attr, k = rng.choice(rows)
        items = []
        for _ in range((rng.randint(0, 1) if single else rng.randint(0, 2)) if rng.random() < 0.9 else 0):
            i = next(nid)
            h = rng.random()
            if h < 0.12:
                items.append({"str": f"s{i}", "nid": i})
                continue
            x = {"nid": i, "pid": f"p{i}", "scal": [["name", {"s": f"n{i}"}]] if rng.random() < 0.7 else []}
            if h < 0.45:
                x["ty"] = rng.choice(good_hints)
            elif h < 0.55 and k is not None and k[0] == "coupled" and k[1][0] == "xtype" and k[1][1]:
                x["ty"] = k[1][1]
            elif h < 0.75:
                # near misses of real hints (wrong case, clipped, padded, wrong namespace) and plain nonsense
                gh = rng.choice(good_hints)
                x["ty"] = rng.choice([gh.lower(), gh.upper(), gh + " ", gh[:-1], "x" + gh, gh.split(":")[-1] + ":" + gh.split(":")[-1],
                                      "Bogus", "la:NoSuch", ""])
                if x["ty"] in good_hints:
                    x["ty"] = "Bogus"
            items.append(x)
        doc.append({"parent": {"u": o["id"]}, rng.choice(["create", "ext"]): [[attr, items]]})
        tags.append(kind_tag(k) + (":empty" if not items else ""))
    return doc, tags


def run_meta(ctx, out, bases, req, pending):
    rng = ctx.rng
    dist: dict[str, int] = {}
    for n in range(pick(ctx, 70, 600)):
        base = bases[rng.choice(["melody52", "melody52", "write", "empty52"])]
        doc, tags = gen_meta_doc(rng, base)
        for t in tags:
            dist[t] = dist.get(t, 0) + 1
        m = L.load_model(base.key)
        st, res = L.apply_impl(m, copy.deepcopy(doc), base)
        iv = ({"classes": {p: type(o).__name__ for p, o in sorted(res.items())}} if st == "ok" else res)
        out.case((base.key, common.sha(doc), "meta"), {"model": base.key, "flavour": "meta", "doc": doc, "impl": iv}
                 if len([x for x in out.samples if x.get("flavour") == "meta"]) < 1 else None, True)
        out.hit("meta.impl:" + (st if st == "ok" else res["error"]))
        out.traces_validated += 1
        req.append({"op": "apply", "mm": "gen", "graph": base.graph, "doc": doc})
        pending.append((base, doc, list(range(len(doc))), "meta", iv))
    out.extra["meta_documents_by_target_kind"] = dict(sorted(dist.items()))


# ------------------------------------------------------------------ order-free denotation (the monitor's oracle)


def denote(doc, base: L.Base):
    """Expected outcome of a create/extend document, independent of instruction order.
    Returns ("ok", view-with-sorted-lists) | ("err", reason) | ("skip", why)"""
    objs = list(L.sites(doc))
    pids = [x["pid"] for x, _, _ in objs if x.get("pid")]
    if len(set(pids)) != len(pids):
        return "err", "dup"
    pm = {x["pid"]: x["nid"] for x, _, _ in objs if x.get("pid")}
    by_id = {x["nid"]: (x, cont, attr) for x, cont, attr in objs}
    for x, _, _ in objs:
        for _, v in x.get("scal", []):
            if "f" in v and any("p" in a for _, a in v["f"]["keys"]):
                return "skip", "find-with-promise is evaluated against the state of its moment"
    created: set[int] = set()

    def avail_val(v):  # -> id | None (not yet) ; raises KeyError if never
        if "u" in v:
            return v["u"]
        if "p" in v:
            t = pm.get(v["p"])
            return t if t in created else None
        if "f" in v:
            nm = v["f"]["keys"][0][1]["s"]
            return next(i for i, n in base.name_of.items() if n == nm)
        raise KeyError(v)

    changed = True
    while changed:
        changed = False
        for x, cont, _ in objs:
            if x["nid"] in created:
                continue
            if cont[0] == "site":
                if cont[1] not in created:
                    continue
            elif avail_val(cont[1]) is None:
                continue
            if all(("s" in v) or avail_val(v) is not None for _, v in x.get("scal", [])):
                created.add(x["nid"])
                changed = True
    if len(created) != len(objs):
        return "err", "unfulfilled"
    tok: dict[int, str] = {}
    dflt0 = dict((a, c) for a, c in L.DFLT)

    def view_attr(x, attr):
        return L.VIEW.get((attr, x.get("ty") or dflt0[attr]), attr)

    def token(i):
        if i < 10000:
            for r in base.roots:
                if base.root_id(r) == i:
                    return r
            return f"b{i}"
        if i not in tok:
            x, cont, attr = by_id[i]
            pt = token(cont[1]) if cont[0] == "site" else token(avail_val(cont[1]))
            nm = next(v["s"] for k, v in x["scal"] if k == "name")
            tok[i] = f"{pt}/{view_attr(x, attr)}:{nm}"
        return tok[i]

    def reft(i):
        return token(i) if i >= 10000 or i in [base.root_id(r) for r in base.roots] else f"b{i}"

    view: dict[str, dict] = {}
    for r in base.roots:
        o = base.graph["objs"][base.root_id(r) - 1]
        view[r] = {"cls": o["cls"], "scal": {k: v["s"] for k, v in o["scal"]},
                   "lists": {k: [f"b{m}" for m in l] for k, l in o["lists"]}}
    dflt = dict((a, c) for a, c in L.DFLT)
    for x, cont, attr in objs:
        sc = {}
        for k, v in x["scal"]:
            if "s" in v:
                if v["s"] != "":
                    sc[k] = v["s"]
            else:
                sc[k] = "@" + reft(avail_val(v))
        view[token(x["nid"])] = {"cls": x.get("ty") or dflt[attr], "scal": sc, "lists": {}}
    for x, cont, attr in objs:
        pt = token(cont[1]) if cont[0] == "site" else token(avail_val(cont[1]))
        view[pt]["lists"].setdefault(view_attr(x, attr), []).append(token(x["nid"]))

    # reference entries
    def refs_of(lists, owner_tok):
        for k, l in lists:
            for y in l:
                if "ref" in y:
                    t = avail_val(y["ref"])
                    if t is None:
                        raise LookupError
                    view[owner_tok]["lists"].setdefault(k, []).append(reft(t))

    try:
        for ins in doc:
            p = avail_val(ins["parent"])
            if p is None:
                return "err", "unfulfilled"
            for key in ("create", "ext"):
                refs_of(ins.get(key, []), token(p))
        for x, _, _ in objs:
            refs_of(x.get("kids", []), token(x["nid"]))
    except LookupError:
        return "err", "unfulfilled"
    for o in view.values():
        o["lists"] = {k: sorted(l) for k, l in o["lists"].items() if l}
    return "ok", {"objs": view, "promises": {p: token(i) for p, i in pm.items()}}


def extends_shared_list(doc) -> bool:
    """two instructions extend the same list (same resolved parent, same attribute), or an instruction
    extends a list that the declaring object description also fills"""
    seen = set()
    pid_kids = {x["pid"]: {k for k, _ in x.get("kids", [])} for x, _, _ in L.sites(doc) if x.get("pid")}
    for ins in doc:
        pk = json.dumps(ins["parent"], sort_keys=True)
        mine = set()
        for key in ("create", "ext"):
            for k, _ in ins.get(key, []):
                if (pk, k) in seen or k in mine:
                    return True
                mine.add(k)
                if "p" in ins["parent"] and k in pid_kids.get(ins["parent"]["p"], ()):
                    return True
        seen |= {(pk, k) for k in mine}
    return False


def use_before_decl(doc) -> bool:
    declared = set()
    for ins in doc:
        refs = L.promise_refs_val(ins["parent"])
        one = [ins]
        refs += all_refs(one)
        # within an instruction the generator order counts too; approximate on instruction level
        if any(r not in declared and r not in all_pids(one) for r in refs):
            return True
        declared |= set(all_pids(one))
    return False


# ------------------------------------------------------------------ run


def classify_order_diff(doc, views):
    """name the class of an order dependence between two ordered views that agree up to sibling order"""
    a, b = views
    for t, o in a["objs"].items():
        for k, l in o["lists"].items():
            l2 = b["objs"][t]["lists"].get(k, [])
            if l != l2:
                moved = [x for x, y in zip(l, l2) if x != y]
                scalar_p = {next(v["s"] for k, v in x["scal"] if k == "name") for x, _, _ in L.sites(doc)
                            if any(L.promise_refs_val(v) for _, v in x.get("scal", []))}
                if L.SCHEMA[o["cls"]][2].get(k, (None, True))[1] is False:
                    return "list-entry-promise"
                if any(m.rsplit(":", 1)[-1] in scalar_p for m in moved):
                    return "scalar-promise"
                return "other"
    return "other"


def gen_setlist_doc(rng, base: L.Base):
    """a reference list assigned with `set` from promises (declared elsewhere) and base objects"""
    rc, rf = base.root_id("rc"), base.root_id("rf")
    k = rng.randint(1, 3)
    fs = [{"nid": 10000 + i, "pid": f"f{i}", "scal": [["name", {"s": f"n{10000 + i}"}]]} for i in range(k)]
    entries = [{"ref": {"p": f"f{i}"}} for i in range(k)]
    for b in rng.sample(base.free_funcs, min(len(base.free_funcs), rng.randint(0, 2))):
        entries.append({"ref": {"u": b}})
    rng.shuffle(entries)
    doc = []
    cut = rng.randint(0, k)
    for part in (fs[:cut], fs[cut:]):
        if part:
            doc.append({"parent": {"u": rf}, "ext": [["functions", part]]})
    if len(doc) == 2:  # two instructions must not extend the same list: nest the second group below the first function
        doc[1] = {"parent": {"p": fs[0]["pid"]}, "ext": [["functions", fs[cut:]]]}
    if rng.random() < 0.5:
        doc.append({"parent": {"u": rc}, "set": [["allocated_functions", {"l": entries}]]})
    else:
        doc.append({"parent": {"u": rc}, "ext": [["components", [{"nid": 10100, "pid": "c", "scal": [["name", {"s": "n10100"}]]}]]]})
        doc.append({"parent": {"p": "c"}, "set": [["allocated_functions", {"l": entries}]]})
    rng.shuffle(doc)
    return doc


def check_set_lists(out, base, doc, d, perm, promises, flavour, model=None):
    """a list assigned with `set` holds exactly the listed references, in the listed order (when nothing else
    touches that list) — read directly from the objects `apply` returned"""
    def obj_of(v):
        if "p" in v:
            return promises.get(v["p"])
        if "u" in v and model is not None and 1 <= v["u"] <= base.n:
            return model.by_uuid(base.uuids[v["u"] - 1])
        return None

    for ins in d:
        par = obj_of(ins["parent"])
        if par is None:
            continue
        for attr, v in ins.get("set", []):
            if "l" not in v or not all("ref" in y and obj_of(y["ref"]) is not None for y in v["l"]):
                continue
            touched = sum(1 for j in d for k, _ in j.get("set", []) + j.get("ext", []) + j.get("create", [])
                          if k == attr and j["parent"] == ins["parent"])
            if touched != 1:
                continue
            want = [obj_of(y["ref"]).uuid for y in v["l"]]
            got = [x.uuid for x in getattr(par, attr)]
            if got != want:
                out.find("apply|set-list-differs-from-assignment|promise-entries",
                         f"{base.key}: `set: {{{attr}: [...]}}` with promise entries leaves {len(got)} members in another "
                         f"order/content than assigned (order {perm})",
                         {"model": base.key, "doc": doc, "order": perm, "flavour": flavour})


def run_doc(ctx, out, base: L.Base, doc, flavour, perms, req, pending):
    """apply `doc` in each order on the implementation; queue the model requests; run the monitor"""
    results = []
    den = denote(doc, base) if flavour in ("plain", "shared", "ghost", "dup") else ("skip", flavour)
    shared = extends_shared_list(doc)
    dockey = common.sha(doc)
    for perm in perms:
        d = [doc[i] for i in perm]
        m = L.load_model(base.key)
        st, res = L.apply_impl(m, copy.deepcopy(d), base)
        if st == "ok":
            view = L.render_impl(m, base, res)
            iv = {"view": view}
            check_set_lists(out, base, doc, d, list(perm), res, flavour, m)
        else:
            view = None
            iv = res
        results.append((perm, st, view, iv))
        nontriv = bool(all_pids(d)) and (use_before_decl(d) or flavour in ("ghost", "dup"))
        out.case((base.key, dockey, tuple(perm)),
                 {"model": base.key, "flavour": flavour, "order": list(perm), "doc": d, "impl": iv if st != "ok" else
                  {"objects": len(view["objs"]), "promises": view["promises"]}} if len(out.samples) < 4 and nontriv else None,
                 nontriv)
        out.hit("impl:" + (st if st == "ok" else res["error"]))
        out.traces_validated += 1
        req.append({"op": "apply", "mm": "gen", "graph": base.graph, "doc": d})
        pending.append((base, doc, list(perm), flavour, iv))
        # (b) against the order-free denotation
        case = {"model": base.key, "doc": doc, "order": list(perm), "flavour": flavour}
        if den[0] == "ok":
            if st != "ok":
                out.find(f"apply|raises-on-valid-document|{res['error']}",
                         f"{base.key}: document valid by denotation raises {res} in order {list(perm)}", case)
            else:
                un = L.unordered(view)
                if un["promises"] != den[1]["promises"]:
                    out.find("apply|promise-misdirected|mapping",
                             f"{base.key}: returned promise map {un['promises']} != declarers {den[1]['promises']}", case)
                elif un["objs"] != den[1]["objs"]:
                    bad = [t for t in set(un["objs"]) | set(den[1]["objs"]) if un["objs"].get(t) != den[1]["objs"].get(t)]
                    out.find("apply|result-differs-from-denotation|content",
                             f"{base.key}: order {list(perm)}: objects {sorted(bad)[:3]} differ from the order-free meaning "
                             f"(impl {[un['objs'].get(t) for t in sorted(bad)[:1]]}, expected {[den[1]['objs'].get(t) for t in sorted(bad)[:1]]})", case)
        elif den[0] == "err":
            if st == "ok":
                out.find(f"apply|silently-accepts|{den[1]}",
                         f"{base.key}: document with a {den[1]} promise fault is applied without error in order {list(perm)}", case)
            elif den[1] == "unfulfilled" and res["error"] != "unfulfilled":
                out.hit("fault-other-error:" + res["error"])
    if flavour == "ops":
        sync_pids = [so.get("pid") for ins in doc for _, l in ins.get("sync", []) for so in l if so.get("pid")]
        if set(sync_pids) & set(all_pids(doc)):
            for perm, st, _, _ in results:
                if st == "ok":
                    out.find("apply|silently-accepts|dup-via-sync",
                             f"{base.key}: a promise id declared by an object description and by a sync entry is accepted "
                             f"in order {list(perm)}", {"model": base.key, "doc": doc, "order": list(perm), "flavour": flavour})
                    break
    # (a) all orders agree exactly
    oks = [(p, v) for p, st, v, _ in results if st == "ok"]
    errs = [(p, iv) for p, st, _, iv in results if st != "ok"]
    if flavour == "ops":
        return results
    if oks and errs:  # an order that raises where another succeeds is a violation whatever the lists
        out.find("apply|order-dependent|error",
                 f"{base.key}: order {list(oks[0][0])} succeeds, order {list(errs[0][0])} raises {errs[0][1]}",
                 {"model": base.key, "doc": doc, "order": list(errs[0][0]), "order_ok": list(oks[0][0]), "flavour": flavour,
                  "kind": "order-pair"})
    if len(oks) >= 2 and not shared:
        p0, v0 = oks[0]
        for p, v in oks[1:]:
            if v != v0:
                if L.unordered(v) == L.unordered(v0):
                    cls = classify_order_diff(doc, (v0, v))
                    out.find(f"apply|sibling-order-depends-on-declaration-order|{cls}",
                             f"{base.key}: orders {list(p0)} and {list(p)} of the same document (no list extended twice) give "
                             f"different sibling orders ({cls} deferred and appended after its later siblings)",
                             {"model": base.key, "doc": doc, "order": list(p0), "order2": list(p), "flavour": flavour,
                              "kind": "order-pair"})
                else:
                    out.find("apply|order-dependent|content",
                             f"{base.key}: orders {list(p0)} and {list(p)} give different models",
                             {"model": base.key, "doc": doc, "order": list(p0), "order2": list(p), "flavour": flavour,
                              "kind": "order-pair"})
                break
    return results


def judge_meta(out, base, doc, iv, a, objlayer):
    """documents over the real metamodel: the error kind where the model predicts one (target checks of
    `_create_complex_objects`, `create` / `create_singleattr` / `_match_xtype` / `_guess_xtype`), the class of
    every created object where both sides succeed"""
    by_cls, _ = meta_rows()
    cls_of = {o["id"]: o["cls"] for o in base.graph["objs"]}
    other = any(k[0] == "coupled" and k[1][0] == "other"
                for ins in doc for key in ("create", "ext") for attr, _ in ins.get(key, [])
                for a2, k in by_cls.get(cls_of[ins["parent"]["u"]], []) if a2 == attr)
    case = {"model": base.key, "doc": doc, "order": list(range(len(doc)))}
    if "error" in a:
        mv = L.norm_model_err(a)
        out.hit("meta.model:" + a["error"])
        if other:
            out.hit("meta.not-compared:other-creator")
            return
        nsites = sum(len(l) for ins in doc for key in ("create", "ext") for _, l in ins.get(key, []))
        if mv != iv and nsites > 1 and "error" in iv:
            objlayer["earlier-site:" + iv["error"]] = objlayer.get("earlier-site:" + iv["error"], 0) + 1
            return  # several sites: the object layer may have refused an earlier one
        if mv != iv:
            out.disagree("apply.meta", case, iv, mv)
        return
    g = {o["id"]: o["cls"] for o in a["graph"]["objs"]}
    mv = {"classes": {p: g.get(i) for p, i in sorted(a["promises"])}}
    out.hit("meta.model:ok")
    if "error" in iv:
        # the model has no object layer below `create`: constructors and `insert` may refuse what decl hands them
        k = iv["error"]
        objlayer[k] = objlayer.get(k, 0) + 1
        return
    if mv != iv:
        out.disagree("apply.meta", case, iv, mv)


# ------------------------------------------------------------------ the deferral machine on every operator
# (set / sync found+create / delete / extend below promised parents), with instructions that can never be resolved


def gen_stuck_doc(rng, base: L.Base):
    """units with known promise dependencies; returns (doc, pieces) where `pieces` is the order-free meaning:
    piece = {"deps": [ids in evaluation order], "binds": [ids], "then": [pieces]}"""
    dp = base.root_id("dp")
    n = rng.randint(2, 5)
    pool = [f"q{i}" for i in range(n)]
    ghosts = ["ghost", "nobody"]
    doc, pieces = [], []
    nid = [10000]

    def fresh():
        nid[0] += 1
        return nid[0]

    def dep(i):
        r = rng.random()
        if r < 0.45:
            return None
        if r < 0.56:
            return rng.choice(ghosts)
        return rng.choice([q for q in pool if q != pool[i]] or ghosts)

    for i, x in enumerate(pool):
        k = rng.choice(["E", "E", "SY", "SF"])
        y = dep(i)
        a = fresh()
        if k == "E":
            sc = [["name", {"s": f"n{a}"}]] + ([["super", {"p": y}]] if y else [])
            doc.append({"parent": {"u": dp}, "ext": [["classes", [{"nid": a, "pid": x, "scal": sc}]]]})
            pieces.append({"deps": [y] if y else [], "binds": [x], "then": []})
        elif k == "SY":  # nothing found: create branch; an unresolved scalar `set` value parks the whole entry
            so = {"nid": a, "nid2": a + 500, "keys": [["name", {"s": f"n{a}"}]], "pid": x,
                  "set": [["super", {"v": {"p": y}}]] if y else []}
            doc.append({"parent": {"u": dp}, "sync": [["classes", [so]]]})
            pieces.append({"deps": [y] if y else [], "binds": [x], "then": []})
        else:  # found branch: the same instruction creates the object first (`extend` runs before `sync`)
            b = fresh()
            so = {"nid": b, "nid2": b + 500, "keys": [["name", {"s": f"n{a}"}]], "pid": x,
                  "set": [["super", {"v": {"p": y}}]] if y else []}
            doc.append({"parent": {"u": dp}, "ext": [["classes", [{"nid": a, "scal": [["name", {"s": f"n{a}"}]]}]]],
                        "sync": [["classes", [so]]]})
            pieces.append({"deps": [], "binds": [x], "then": [{"deps": [y] if y else [], "binds": [], "then": []}]})
    for _ in range(rng.randint(1, 3)):  # instructions below promised parents
        x = rng.choice(pool + pool + ghosts[:1])
        y = dep(0) if rng.random() < 0.7 else None
        a = fresh()
        if rng.random() < 0.5:
            st = [["description", {"v": {"s": "d"}}]] + ([["super", {"v": {"p": y}}]] if y else [])
            doc.append({"parent": {"p": x}, "set": st})
            pieces.append({"deps": [x], "binds": [], "then": [{"deps": [y] if y else [], "binds": [], "then": []}]})
        else:
            z = f"z{a}"
            sc = [["name", {"s": f"n{a}"}]] + ([["type", {"p": y}]] if y else [])
            doc.append({"parent": {"p": x}, "set": [["owned_properties", {"l": [{"nid": a, "pid": z, "scal": sc}]}]]})
            pieces.append({"deps": [x], "binds": [], "then": [{"deps": [y] if y else [], "binds": [z], "then": []}]})
    fault = None
    if rng.random() < 0.12:  # `!promise` below `delete:` is refused, never parked
        doc.append({"parent": {"u": dp}, "del": [["classes", [{"p": rng.choice(pool)}]]]})
        fault = "valueError"
    order = list(range(len(doc)))
    rng.shuffle(order)
    return [doc[i] for i in order], pieces, fault


def denote_stuck(pieces):
    """least fixpoint: (bound ids, ids under which something stays parked)"""
    bound: set[str] = set()
    changed = True
    while changed:
        changed = False

        def walk(ps):
            nonlocal changed
            for pc in ps:
                if all(d in bound for d in pc["deps"]):
                    for b in pc["binds"]:
                        if b not in bound:
                            bound.add(b)
                            changed = True
                    walk(pc["then"])
        walk(pieces)
    keys: set[str] = set()

    def walk2(ps):
        for pc in ps:
            miss = [d for d in pc["deps"] if d not in bound]
            if miss:
                keys.add(miss[0])
            else:
                walk2(pc["then"])
    walk2(pieces)
    return bound, keys


class _SpyDict(collections.defaultdict):
    last = None

    def __init__(self, *a, **kw):
        super().__init__(*a, **kw)
        _SpyDict.last = self


def apply_spy(model, d, base):
    """decl.apply with the `deferred` dict of the loop observed: returns (status, result, parked [[id, kind]…])"""
    import types

    _, decl = L.cap()
    real = decl.collections
    decl.collections = types.SimpleNamespace(deque=real.deque, OrderedDict=real.OrderedDict, defaultdict=_SpyDict)
    _SpyDict.last = None
    try:
        st, res = L.apply_impl(model, d, base)
    finally:
        decl.collections = real
    parked = []
    for p, lst in (_SpyDict.last or {}).items():
        for e in lst:
            unresolved_parent = isinstance(e.get("parent"), (decl.Promise, decl.FindBy, decl.UUIDReference))
            kind = "whole" if unresolved_parent else next((k for k in ("extend", "set", "sync") if k in e), "?")
            parked.append([p.identifier, kind])
    return st, res, sorted(parked)


def run_stuck(ctx, out, base: L.Base, doc, pieces, fault, perms, req, pending):
    """every operator through the deferral machine, in every order: (monitor) success / failure and the ids named by
    UnfulfilledPromisesError are those of the order-free meaning, in every order; (tie) error, ids and the parked
    entries (id, shape) at the end of the loop agree with the Lean machine's final state"""
    bound, keys = denote_stuck(pieces)
    dockey = common.sha(doc)
    for perm in perms:
        d = [doc[i] for i in perm]
        m = L.load_model(base.key)
        st, res, parked = apply_spy(m, copy.deepcopy(d), base)
        case = {"model": base.key, "doc": doc, "order": list(perm), "flavour": "stuck", "pieces": pieces, "fault": fault}
        if st == "ok":
            iv = {"view": L.render_impl(m, base, res)}
            got_keys = None
        else:
            iv = dict(res)
            got_keys = set(res.get("promises", [])) if res["error"] == "unfulfilled" else None
            if res["error"] == "unfulfilled":
                iv["parked"] = parked
        out.case((base.key, dockey, tuple(perm)),
                 {"model": base.key, "flavour": "stuck", "order": list(perm), "doc": d,
                  "impl": iv if st != "ok" else {"promises": sorted(res)}} if len(out.samples) < 6 and keys else None,
                 bool(keys) or fault is not None)
        out.hit("stuck.impl:" + (st if st == "ok" else res["error"]))
        for _, k in parked:
            out.hit("stuck.parked:" + k)
        out.traces_validated += 1
        req.append({"op": "apply", "mm": "gen", "graph": base.graph, "doc": d})
        pending.append((base, doc, list(perm), "stuck", iv))
        if fault is not None:
            if st == "ok" or res["error"] != fault:
                out.find("apply|promise-below-delete-not-refused|delete",
                         f"{base.key}: `delete: {{classes: [!promise …]}}` gives {st if st == 'ok' else res} in order {list(perm)}", case)
            continue
        if not keys:
            if st != "ok":
                out.find(f"apply|raises-on-valid-document|{res['error']}-ops",
                         f"{base.key}: set/sync document in which every promise can be resolved raises {res} in order {list(perm)}", case)
            elif set(res) != bound:
                out.find("apply|promise-misdirected|mapping-ops",
                         f"{base.key}: returned ids {sorted(res)} != declared and reachable ids {sorted(bound)}", case)
        else:
            if st == "ok":
                out.find("apply|silently-accepts|unfulfilled-ops",
                         f"{base.key}: set/sync document with entries that can never be resolved (waiting for {sorted(keys)}) "
                         f"is applied without error in order {list(perm)}", case)
            elif res["error"] != "unfulfilled":
                out.find(f"apply|raises-on-valid-document|{res['error']}-ops",
                         f"{base.key}: expected UnfulfilledPromisesError{sorted(keys)}, got {res} in order {list(perm)}", case)
            elif got_keys != keys:
                out.find("apply|unfulfilled-names-wrong-ids|ops",
                         f"{base.key}: UnfulfilledPromisesError names {sorted(got_keys)}, the entries that cannot be resolved "
                         f"wait for {sorted(keys)} (order {list(perm)})", case)


DROP_WITNESS = [  # Props/C12.lean `dropWitness`: `set: {classes: [...]}` overridden by `extend: {classes: []}` in the create branch
    {"parent": {"u": "dp"}, "sync": [["packages", [{"nid": 10020, "nid2": 10021, "keys": [["name", {"s": "n10020"}]],
                                                    "set": [["classes", {"l": [{"nid": 10022, "pid": "K",
                                                                                "scal": [["name", {"s": "n10022"}]]}]}]],
                                                    "ext": [["classes", []]]}]]]},
    {"parent": {"u": "dp"}, "ext": [["classes", [{"nid": 10023, "pid": "K", "scal": [["name", {"s": "n10023"}]]}]]]},
]
DROP_WITNESS2 = [  # the same merge swallows a reference to a promise nobody declares
    {"parent": {"u": "dp"}, "sync": [["packages", [{"nid": 10020, "nid2": 10021, "keys": [["name", {"s": "n10020"}]],
                                                    "set": [["classes", {"l": [{"nid": 10022, "scal": [
                                                        ["name", {"s": "n10022"}], ["super", {"p": "ghost"}]]}]}]],
                                                    "ext": [["classes", []]]}]]]},
]


def run_drop_witness(ctx, out, base, req, pending):
    """replay of `duplicate_all_full_fails` on the implementation (and the model, through the ordinary tie)"""
    for doc, sig, what in ((subst_roots(DROP_WITNESS, base), "apply|silently-accepts|dup-in-overridden-set-list",
                            "a promise id declared twice is accepted: the create branch of sync builds the object from "
                            "`find | set | extend`, and the `set` list overridden by an `extend` list of the same name "
                            "disappears with the declaration inside it"),
                           (subst_roots(DROP_WITNESS2, base), "apply|silently-accepts|unfulfilled-in-overridden-set-list",
                            "a reference to a promise nobody declares is dropped silently: it sits in a `set` list that the "
                            "create branch of sync overrides with the `extend` list of the same name")):
        for perm in itertools.permutations(range(len(doc))):
            d = [doc[i] for i in perm]
            m = L.load_model(base.key)
            st, res = L.apply_impl(m, copy.deepcopy(d), base)
            iv = {"view": L.render_impl(m, base, res)} if st == "ok" else res
            out.case((base.key, common.sha(doc), tuple(perm)), None, True)
            out.hit("dropwitness.impl:" + (st if st == "ok" else res["error"]))
            req.append({"op": "apply", "mm": "gen", "graph": base.graph, "doc": d})
            pending.append((base, doc, list(perm), "dropwitness", iv))
            if st == "ok":
                out.find(sig, f"{base.key}: {what} (order {list(perm)})",
                         {"model": base.key, "doc": doc, "order": list(perm), "flavour": "dropwitness", "sig": sig})



WITNESS = [  # the document of Props/C12.lean `witness` (dp is substituted)
    {"parent": {"u": "dp"}, "ext": [["classes", [{"nid": 10000, "scal": [["name", {"s": "n1000"}], ["super", {"p": "K"}]]},
                                                  {"nid": 10001, "scal": [["name", {"s": "n1001"}]]}]]]},
    {"parent": {"u": "dp"}, "ext": [["packages", [{"nid": 10002, "scal": [["name", {"s": "n1002"}]], "kids": [["classes", [
        {"nid": 10003, "pid": "K", "scal": [["name", {"s": "n1003"}]]}]]]}]]]},
]
WITNESS2 = [  # list-entry variant: the deferred entry `!promise F1` lands after its later sibling
    {"parent": {"u": "rf"}, "ext": [["functions", [{"nid": 10000, "pid": "F0", "scal": [["name", {"s": "n1000"}]]}]]]},
    {"parent": {"u": "rc"}, "ext": [["allocated_functions", [{"ref": {"p": "F1"}}, {"ref": {"p": "F0"}}]]]},
    {"parent": {"p": "F0"}, "ext": [["functions", [{"nid": 10001, "pid": "F1", "scal": [["name", {"s": "n1001"}]]}]]]},
]


WITNESS3 = [  # a non-default `_type` hint on an object description that is deferred on a scalar promise
    {"parent": {"u": "dp"}, "ext": [["classes", [{"nid": 10000, "ty": "Union", "pid": "derived",
                                                  "scal": [["name", {"s": "n1000"}], ["super", {"p": "base"}]]}]]]},
    {"parent": {"u": "dp"}, "ext": [["packages", [{"nid": 10001, "scal": [["name", {"s": "n1001"}]], "kids": [["classes", [
        {"nid": 10002, "pid": "base", "scal": [["name", {"s": "n1002"}]]}]]]}]]]},
]


def subst_roots(doc, base):
    s = json.dumps(doc)
    for r in base.roots:
        s = s.replace(json.dumps({"u": r}), json.dumps({"u": base.root_id(r)}))
    return json.loads(s)


def pick(ctx, quick, thorough):
    """budget; the widened re-run of a quick check (VERIF_WIDEN) stays within about twice the quick budget"""
    if os.environ.get("VERIF_WIDEN") == "1":
        return min(thorough, 2 * quick)
    return ctx.pick(quick, thorough)


def perms_for(ctx, n, cap_all):
    if n <= cap_all:
        return [list(p) for p in itertools.permutations(range(n))], True
    k = pick(ctx, 12, 60)
    seen = {tuple(range(n)), tuple(reversed(range(n)))}
    while len(seen) < min(k, math.factorial(n)):
        p = list(range(n))
        ctx.rng.shuffle(p)
        seen.add(tuple(p))
    return [list(p) for p in sorted(seen)], False


def run(ctx: Ctx) -> Outcome:
    L.cap()
    out = Outcome(rule=RULE)
    rng = ctx.rng
    bases = {k: L.Base(k) for k in (["empty52", "melody52", "write"] +
                                    (["melody50", "melody60"] if ctx.thorough and os.environ.get("VERIF_WIDEN") != "1" else []))}
    req: list[dict] = []
    pending: list = []
    cap_all = 4 if os.environ.get("VERIF_WIDEN") == "1" else ctx.pick(4, 5)
    sizes = {}
    flav = {}
    exhaustive_docs = 0

    def do(base, doc, flavour):
        nonlocal exhaustive_docs
        perms, ex = perms_for(ctx, len(doc), cap_all)
        exhaustive_docs += ex
        sizes[len(doc)] = sizes.get(len(doc), 0) + 1
        flav[flavour] = flav.get(flavour, 0) + 1
        run_doc(ctx, out, base, doc, flavour, perms, req, pending)

    # the recorded witnesses first, on every model
    for base in bases.values():
        do(base, subst_roots(WITNESS, base), "plain")
        do(base, subst_roots(WITNESS2, base), "plain")
        do(base, subst_roots(WITNESS3, base), "plain")
        do(base, inject_findp(random.Random(7), base, [], all_uses=True), "findp")
    # past disagreements (corpus), in their recorded orders
    for f in sorted((common.VERIF / "corpus" / "C12").glob("*.json")):
        c = json.loads(f.read_text())
        base = bases[c["model"]]
        d = subst_roots(c["doc"], base)
        flav["corpus"] = flav.get("corpus", 0) + 1
        run_doc(ctx, out, base, d, "plain", c["orders"], req, pending)
    ndocs = pick(ctx, 110, 500)
    for n in range(ndocs):
        r = rng.random()
        key = "empty52" if r < 0.75 else rng.choice([k for k in bases if k != "empty52"])
        base = bases[key]
        size = rng.randint(2, 6 if key == "empty52" else 4) if rng.random() < 0.85 else rng.randint(6, 9)
        f = rng.random()
        sites = gen_sites(rng, base, size)
        if f < 0.55:
            doc, flavour = build_doc(rng, base, sites), "plain"
        elif f < 0.65:
            doc, flavour = build_doc(rng, base, sites, shared=True), "shared"
        elif f < 0.74:
            doc, flavour = inject_fault(rng, build_doc(rng, base, sites), "ghost", base.root_id("rf")), "ghost"
        elif f < 0.83:
            doc, flavour = inject_fault(rng, build_doc(rng, base, sites), "dup", base.root_id("rf")), "dup"
        elif f < 0.90:
            doc, flavour = gen_setlist_doc(rng, base), "ops"
        elif f < 0.95:
            doc, flavour = inject_findp(rng, base, build_doc(rng, base, gen_sites(rng, base, rng.randint(0, 1)))), "findp"
        else:
            doc, flavour = gen_ops_doc(rng, base), "ops"
        if len(doc) > 5 and key != "empty52":
            doc = doc[:5] if flavour == "plain" else doc
        do(base, doc, flavour)
    run_meta(ctx, out, bases, req, pending)
    # every operator through the deferral machine, with instructions that can never be resolved, in every order
    nstuck = pick(ctx, 40, 250)
    stuck_dist = {"stuck": 0, "resolvable": 0, "delete-promise": 0}
    for n in range(nstuck):
        base = bases["empty52"] if rng.random() < 0.8 else bases[rng.choice(["melody52", "write"])]
        doc, pieces, fault = gen_stuck_doc(rng, base)
        perms, ex = perms_for(ctx, len(doc), 3)
        if not ex:
            perms = perms[:pick(ctx, 6, 24)]
        exhaustive_docs += ex
        flav["stuck"] = flav.get("stuck", 0) + 1
        stuck_dist["delete-promise" if fault else "stuck" if denote_stuck(pieces)[1] else "resolvable"] += 1
        run_stuck(ctx, out, base, doc, pieces, fault, perms, req, pending)
    out.extra["stuck_documents"] = stuck_dist
    for base in bases.values():
        run_drop_witness(ctx, out, base, req, pending)

    # ---- correspondence with the Lean machine
    if os.environ.get("VERIF_NO_MODEL") != "1":
        answers = []
        CH = 400
        for i in range(0, len(req), CH):
            answers += common.model(req[i:i + CH], driver="Decl")
        steps = []
        objlayer: dict[str, int] = {}
        out.extra["meta_model_ok_impl_raises_below_decl"] = objlayer
        for (base, doc, perm, flavour, iv), ans in zip(pending, answers):
            if "err" in ans:
                out.disagree("driver", {"doc": doc, "order": perm}, iv, ans)
                continue
            a = ans["ok"]
            if flavour == "meta":
                judge_meta(out, base, doc, iv, a, objlayer)
                continue
            if "error" in a:
                mv = L.norm_model_err(a)
                out.hit("model:" + a["error"])
                if flavour == "stuck" and a["error"] == "unfulfilled":  # the loop's final state: what is parked, under which id
                    mv["parked"] = sorted(a.get("parked", []))
                    for _, k in a.get("parked", []):
                        out.hit("stuck.model.parked:" + k)
            else:
                mv = {"view": L.render_model(a, base)}
                out.hit("model:ok")
                steps.append((a["steps"], a["bound"]))
            if a.get("error") == "outOfFuel":
                out.disagree("apply.terminates", {"model": base.key, "doc": doc, "order": perm}, iv, mv)
            elif mv != iv:
                out.disagree(f"apply.{flavour}", {"model": base.key, "doc": doc, "order": perm}, iv, mv)
        if steps:
            out.extra["model_steps_max"] = max(s for s, _ in steps)
            out.extra["model_steps_over_bound_max"] = round(max(s / max(b, 1) for s, b in steps), 3)
    out.extra["documents_by_instruction_count"] = dict(sorted(sizes.items()))
    out.extra["documents_by_flavour"] = flav
    out.extra["documents_with_all_orders"] = exhaustive_docs
    out.extra["models"] = {k: b.n for k, b in bases.items()}
    out.exhaustive = False
    return out


def replay(ctx: Ctx, case: dict):
    """re-run one recorded failing case on the implementation"""
    L.cap()
    base = L.Base(case["model"])
    doc = case["doc"]

    def once(order):
        m = L.load_model(base.key)
        st, res = L.apply_impl(m, copy.deepcopy([doc[i] for i in order]), base)
        return st, (L.render_impl(m, base, res) if st == "ok" else res)

    if case.get("kind") == "order-pair":
        a = once(case["order"])
        b = once(case.get("order2") or case.get("order_ok"))
        if a != b:
            la = {t: o["lists"] for t, o in a[1]["objs"].items() if o["lists"]} if a[0] == "ok" else a[1]
            lb = {t: o["lists"] for t, o in b[1]["objs"].items() if o["lists"]} if b[0] == "ok" else b[1]
            diff = {t: (la.get(t), lb.get(t)) for t in la if isinstance(la, dict) and isinstance(lb, dict) and la.get(t) != lb.get(t)}
            return f"orders {case['order']} and {case.get('order2') or case.get('order_ok')} still differ: {diff or (a[1], b[1])}"
        return None
    out = Outcome()
    if case.get("flavour") == "stuck":
        run_stuck(ctx, out, base, doc, case["pieces"], case.get("fault"), [case["order"]], [], [])
        return out.findings[0].what if out.findings else None
    if case.get("flavour") == "dropwitness":
        m = L.load_model(base.key)
        st, res = L.apply_impl(m, copy.deepcopy([doc[i] for i in case["order"]]), base)
        return f"still applied without error (order {case['order']}): {case.get('sig')}" if st == "ok" else None
    run_doc(ctx, out, base, doc, case.get("flavour", "plain"), [case["order"]], [], [])
    if out.findings:
        return out.findings[0].what
    return None
