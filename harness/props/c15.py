"""C15 — a failed save leaves the files on disk exactly as they were.

Implementation: the real `MelodyLoader.save` / `LocalFileHandler` on scratch copies of models with one,
three and five files (one of them with fragments in a sub-directory), with a fault injected at EVERY
effectful call of a save (temp-file open, serialisation, write, close, rename, unlink) until no
further fault point is reached, for every fault kind, single faults and fault sequences, each followed
by a fault-free retry on the same object.  Plus synthetic transactions driven directly on the handler
(duplicate names, missing directories = natural ENOENT, user exceptions, nested transaction).
Correspondence: Lean `Capella.Txn` (driver `Txn`) gets the same fragments / schedule / observed set order
and must produce the same call trace, error, transaction state and directory contents.
Monitor: directory listing + hashes before/after, the exception object the caller sees (identity with
the injected one), the private transaction set, the retry.
Round 5: scenarios whose written files (or whose sub-directory) are symbolic links; the listing (`area`) covers the root
and every directory a link leads into and enters a link as a link (text, kind of target) - a stray file beside a link's
target, a link that stops being one after a failed save, a changed target are all seen.
"""

from __future__ import annotations

import contextlib
import errno
import hashlib
import logging
import os
import pathlib
import shutil
import sys

import common
from common import Ctx, Outcome

RULE = ("scenarios: models and direct transactions on regular files, and (round 5) with one / several written files that are symbolic links "
        "(leading beside the root: same name, other name, deeper, nowhere; leading inside the root through a second link) and with a "
        "sub-directory that is a link to a directory beside the root; the disk snapshot covers the root and every directory a link leads into; "
        "histories of several saves on the same model object (edits of some files, dry runs, failed saves, then a real save); "
        "every fault point of every scenario is enumerated (index 0,1,2,... over the effectful calls of one save until "
        "the call count of the fault-free run is exceeded) x fault kinds x {normal, dry_run} x side-effect-before-error flag; "
        "fault sequences = every pair (first fault, later fault reached after it) in thorough, seeded sample in quick; "
        "distinct = distinct (scenario, dry_run, schedule); non-trivial = at least one fault fired or files were replaced")
ASSUMPTIONS = [
    "an injected fault at open/rename/unlink means the operation did not take place (open: optionally 'file was created, then the error'); "
    "a fault at write optionally leaves a partial temp file; a fault at close happens after the descriptor is released",
    "temp names: the handler refuses a write whose temp name clashes with another file of the transaction (modelled: `clash`; proved: a successful save has usable temp names, a clashing one is refused before the file is touched; for the real _tmpname usable names follow from 'last component <= 250 bytes and not shaped .*.tmp'). A file that exists beforehand under the temp name of a written file is treated as a stale temp file (known finding tmp-named-file-lost)",
    "nobody else touches the directory during the transaction (documented precondition of write_transaction)",
    "power loss / fsync durability is not part of the property and not modelled",
    "symbolic links: rename(2) and unlink(2) act on the directory entry itself, open(2) follows a link at the last component (POSIX); the "
    "directory map of the model holds entries as lstat sees them, a link being one entry and what it leads to another; whether a SUCCESSFUL "
    "save replaces a link by a regular file (as coded) or writes what it leads to is observed, not judged by the monitor",
]
TRUSTED = ["C15: fault-injection shims around pathlib.Path.open/replace/unlink and exs.serialize in harness/props/c15.py"]
DRIVERS = ["Txn"]
MANIFEST = dict(
    text=("Lean theorems over a model of LocalFileHandler.open/write_transaction and MelodyLoader.save with the "
          "try/except/else/finally bracket and an explicit fault schedule: for every fault index up to and including the "
          "first rename and every fault kind the directory is restored, no temp file is left, the transaction is reset and "
          "the injected error is the one seen; retry succeeds after any fault sequence; dry-run is a no-op; commit installs "
          "complete contents only; under arbitrary fault sequences every file is old or complete-new and the transaction is "
          "always reset; the temp-name check of open() is exact, a successful save implies usable temp names, a save with "
          "after any history of earlier saves (failed, dry, successful, edited in between) a fault-free save installs every file; "
          "a failed or dry-run save leaves every symbolic link a link, what it leads to unchanged and no new entry anywhere (the map covers the "
          "directories links lead into); "
          "clashing temp names (long names sharing a 250-byte prefix, a name that is another file's temp name) is refused "
          "before the clashing file is touched; _tmpname is byte-bounded (<= 255 bytes) and injective on names <= 250 bytes. Tied to /repo by running the real save with a fault at every effectful call (trace, error, "
          "directory hashes, transaction state compared with the model) and an independent before/after monitor."),
    design_ref="§6 C15",
    note=("Trusted: Lean kernel; the injection shims; POSIX rename/unlink/open semantics as modelled (atomic replace, "
          "open(wb) truncates); temp-name usability is enforced by the modelled clash check of open() and proved for _tmpname on UTF-8 byte lengths; durability (fsync/power loss) not covered."),
    technique="Lean 4 proof (bracket invariant, induction over fragments and over the commit/cleanup loops, ∀ fault index) + exhaustive fault-point differential run against the real handler",
)

TXN_PRED = lambda v: v is None or isinstance(v, (set, dict, list))  # noqa: E731 - the handler's private transaction set
TXN_HINTS = ("trans", "tx", "txn")
DECL = b'<?xml version="1.0" encoding="UTF-8"?>\n'
KINDS = ["ENOSPC", "EACCES", "EIO", "ValueError", "KeyboardInterrupt"]
BODY_EVENTS = ("open", "serialize", "write", "close")


# ------------------------------------------------------------------ fault injection


class Injected:
    """Marker mix-in so the monitor can recognise its own exceptions by identity."""


def make_exc(kind: str) -> BaseException:
    if kind == "ValueError":
        return ValueError("injected: cannot serialise")
    if kind == "KeyboardInterrupt":
        return KeyboardInterrupt()
    if kind == "UserError":
        return LookupError("injected: user code failed")
    return OSError(getattr(errno, kind), f"injected {kind}")


class Injector:
    """Counts the effectful calls of one save and raises at the scheduled indices.

    schedule: {index: (kind, eff)}; eff=True lets the side effect happen before the error where that is
    meaningful (open: file created; write: half of the data written)."""

    def __init__(self, root: pathlib.Path, schedule: dict[int, tuple[str, bool]], targets=()):
        self.root = root
        self.schedule = schedule
        self.tmpmap: dict[str, str] = {}  # temp name -> target it belongs to (first writer wins, as in the code)
        for t in targets:
            self.tmpmap.setdefault(tmpname(t), t)
        self.n = 0
        self.trace: list[tuple[str, str]] = []
        self.fired: list[tuple[int, str, str, BaseException]] = []  # (index, event, path, exception)

    def rel(self, p) -> str:
        try:
            return pathlib.PurePosixPath(os.path.relpath(str(p), str(self.root))).as_posix()
        except ValueError:
            return str(p)

    def point(self, ev: str, path: str) -> tuple[BaseException, bool] | None:
        i = self.n
        self.n += 1
        self.trace.append((ev, path))
        if i in self.schedule:
            kind, eff = self.schedule[i]
            exc = make_exc(kind)
            self.fired.append((i, ev, path, exc))
            return exc, eff
        return None


class FaultyFile:
    """Proxy around the real temp file: write/close are fault points."""

    def __init__(self, inj: Injector, real, path: str):
        self._inj, self._real, self._path = inj, real, path
        self._closed = False

    def write(self, data):
        # Copy at the shim boundary: the caller may hand in a view of a buffer it still owns (`BytesIO.getbuffer()`).
        # A view kept alive by THIS frame - which the injected exception's traceback keeps alive, in a reference cycle
        # with the frame that stores the exception - ends up in the cyclic garbage collector together with the BytesIO it
        # exports from, and CPython 3.12.1 dies with SIGSEGV collecting that (see `release_frames`).
        if not isinstance(data, (bytes, str)):
            data = bytes(data)
        hit = self._inj.point("write", self._path)
        if hit:
            exc, eff = hit
            if eff:
                self._real.write(data[: len(data) // 2])
            del data, hit
            raise exc
        return self._real.write(data)

    def close(self):
        if self._closed:
            return
        self._closed = True
        hit = self._inj.point("close", self._path)
        self._real.close()
        if hit:
            raise hit[0]

    def __enter__(self):
        return self

    def __exit__(self, *exc):
        self.close()

    def __getattr__(self, name):
        return getattr(self._real, name)


def release_frames(*excs: BaseException | None) -> None:
    """Drop the frames the observed exceptions hold (the monitor judges identity, type and the `__context__` chain,
    never a traceback).  An exception stored in a local of a frame that is part of its own traceback is a reference
    cycle; everything the unwound frames of the implementation and of the shims still reference (arguments, buffers with
    exported views) would wait in it for the cyclic collector.  Called only after save() has returned to the harness."""
    import traceback

    seen: list[BaseException] = []
    todo = [e for e in excs if e is not None]
    while todo:
        e = todo.pop()
        if any(e is x for x in seen):
            continue
        seen.append(e)
        todo += [x for x in (e.__context__, e.__cause__) if x is not None]
    for e in seen:
        tb = e.__traceback__
        if tb is not None:
            traceback.clear_frames(tb)   # frames still running (the harness's own) are skipped
            e.__traceback__ = None


def untmp(name: str, tmpmap: dict[str, str] | None = None) -> str:
    """'.x.tmp' -> 'x' on the last component (harness-side inverse of _tmpname; truncated names through the
    scenario's own temp->target map)."""
    if tmpmap and name in tmpmap:
        return tmpmap[name]
    p = pathlib.PurePosixPath(name)
    n = p.name
    if n.startswith(".") and n.endswith(".tmp"):
        n = n[1:-4]
    return p.with_name(n).as_posix()


@contextlib.contextmanager
def injecting(inj: Injector):
    from capellambse.loader import exs

    P = pathlib.Path
    saved = (P.open, P.replace, P.unlink, exs.serialize)
    o_open, o_replace, o_unlink, o_ser = saved

    def p_open(self, mode="r", *a, **k):
        if "w" not in mode:
            return o_open(self, mode, *a, **k)
        tgt = untmp(inj.rel(self), inj.tmpmap)
        hit = inj.point("open", tgt)
        if hit:
            exc, eff = hit
            if eff:
                with contextlib.suppress(OSError):
                    o_open(self, mode, *a, **k).close()
            raise exc
        return FaultyFile(inj, o_open(self, mode, *a, **k), tgt)

    def p_replace(self, target):
        hit = inj.point("rename", inj.rel(target))
        if hit:
            raise hit[0]
        return o_replace(self, target)

    def p_unlink(self, *a, **k):
        hit = inj.point("unlink", untmp(inj.rel(self), inj.tmpmap))
        if hit:
            raise hit[0]
        return o_unlink(self, *a, **k)

    def p_ser(*a, **k):
        hit = inj.point("serialize", "")
        if hit:
            raise hit[0]
        return o_ser(*a, **k)

    P.open, P.replace, P.unlink, exs.serialize = p_open, p_replace, p_unlink, p_ser
    try:
        yield
    finally:
        P.open, P.replace, P.unlink, exs.serialize = saved


# ------------------------------------------------------------------ scenarios


LINK = b"\0symlink\0"   # a directory entry that is a symbolic link: LINK + link text + b"\0" + what it leads to


def area(root: pathlib.Path, outer: pathlib.Path | None = None) -> tuple[dict[str, bytes], set[str]]:
    """Every directory entry of the scenario's area as `lstat` sees it: ({name: entry}, {directory names}).

    The area is the handler's root plus - when the scenario has symbolic links - the enclosing directory `outer`
    that holds every directory a link leads into (checked when the scenario is built).  Names are relative to the
    root (`../shared/x` for an entry outside).  A regular file is entered with its bytes; a symbolic link is entered
    AS A LINK (its text and whether it leads to a file, a directory or nowhere) - the content behind it is entered
    under the target's own name.  A link to a directory is walked through under the name the handler uses
    (`sub/x`); a directory reached a second time (its real path was seen already) is not listed twice."""
    files: dict[str, bytes] = {}
    dirs: set[str] = set()
    seen: set[str] = set()

    def walk(d: str, shown: str):
        real = os.path.realpath(d)
        if real in seen:
            return
        seen.add(real)
        with os.scandir(d) as it:
            ents = sorted(it, key=lambda e: e.name)
        for e in ents:
            name = shown + e.name
            if e.is_symlink():
                isdir = os.path.isdir(e.path)
                state = b"dir" if isdir else b"file" if os.path.exists(e.path) else b"dangling"
                files[name] = LINK + os.fsencode(os.readlink(e.path)) + b"\0" + state
                if isdir:
                    dirs.add(name)
                    walk(e.path, name + "/")
            elif e.is_dir(follow_symlinks=False):
                dirs.add(name)
                walk(e.path, name + "/")
            else:
                files[name] = pathlib.Path(e.path).read_bytes()

    walk(str(root), "")
    if outer is not None and outer != root:
        walk(str(outer), pathlib.PurePosixPath(os.path.relpath(str(outer), str(root))).as_posix() + "/")
    return files, dirs


def snapshot(root: pathlib.Path, outer: pathlib.Path | None = None) -> dict[str, bytes]:
    return area(root, outer)[0]


def dirs_of(root: pathlib.Path, outer: pathlib.Path | None = None) -> set[str]:
    """every directory of the area (empty ones and links to directories included), relative to the root"""
    return area(root, outer)[1]


def chain_of(snap: dict[str, bytes], rel: str) -> list[str]:
    """the names visited when `rel` is opened for reading in the directory `snap` describes: rel itself, then - while the
    entry is a symbolic link - the name its text leads to (resolved against the link's folder, lexically; the scenarios
    have no link text that climbs out of a linked folder)"""
    out = [rel]
    while len(out) < 10:
        e = snap.get(out[-1])
        if e is None or not e.startswith(LINK):
            break
        text = os.fsdecode(e[len(LINK):].rsplit(b"\0", 1)[0])
        out.append(pathlib.PurePosixPath(os.path.normpath(os.path.join(os.path.dirname(out[-1]), text))).as_posix())
    return out


def through(snap: dict[str, bytes], rel: str) -> bytes | None:
    """what reading `rel` gives (links followed); None: nothing there, or a link that leads nowhere"""
    e = snap.get(chain_of(snap, rel)[-1])
    return None if e is None or e.startswith(LINK) else e


def put_back(root: pathlib.Path, rel: str, entry: bytes) -> None:
    """harness housekeeping between cases: make `rel` the entry it was in an earlier snapshot"""
    p = root / rel
    if entry.startswith(LINK):
        text = os.fsdecode(entry[len(LINK):].rsplit(b"\0", 1)[0])
        if p.is_symlink() and os.readlink(p) == text:
            return
        if p.is_symlink() or p.is_file():
            p.unlink()
        p.symlink_to(text)
    else:
        if p.is_symlink():
            p.unlink()
        p.write_bytes(entry)


def parent_missing(rel: str, dirs: set[str]) -> bool:
    par = pathlib.PurePosixPath(rel).parent.as_posix()
    return par not in (".", "") and par not in dirs


class Scenario:
    """One saveable thing in a scratch directory.

    save(**kw) runs the real code; expected() gives {relpath: bytes} the save is about to write
    (computed with the real serializer outside any injection); bump() makes the next content differ."""

    label: str
    root: pathlib.Path
    handler: object
    outer: pathlib.Path | None = None     # scenarios with symbolic links: the directory that holds the root AND every link target
    layout: dict[str, bytes] | None = None  # their entries (links and what they lead to) as built; re-established before a case
    light = False                          # fewer fault sequences / histories in quick (single faults stay exhaustive)

    def snap(self) -> dict[str, bytes]:
        return snapshot(self.root, self.outer)

    def dirs(self) -> set[str]:
        return dirs_of(self.root, self.outer)

    def seal(self, outer: pathlib.Path) -> None:
        """called when a scenario with links has been built: remember the layout; every link must lead into `outer`"""
        self.outer = outer
        snap = self.snap()
        self.layout = {rel: e for rel, e in snap.items() if e.startswith(LINK)}
        assert self.layout, "a link scenario without links"
        for rel in list(self.layout):
            real = os.path.realpath(self.root / rel)
            assert os.path.commonpath([real, os.path.realpath(outer)]) == os.path.realpath(outer), (rel, real)
            # the file a link leads to (the snapshot has it under its own name)
            name = pathlib.PurePosixPath(os.path.relpath(real, os.path.realpath(self.root))).as_posix()
            if name in snap and not snap[name].startswith(LINK):
                self.layout[name] = snap[name]

    def prepare(self) -> None:
        """A successful save replaces a link by a regular file (see design/C15.md, round 5); the next CASE starts from the
        layout as built: links are links again and lead to what they led to."""
        if self.layout:
            for rel, e in self.layout.items():
                if self.snap_entry(rel) != e:
                    put_back(self.root, rel, e)

    def snap_entry(self, rel: str) -> bytes | None:
        p = self.root / rel
        if p.is_symlink():
            isdir = os.path.isdir(p)
            return LINK + os.fsencode(os.readlink(p)) + b"\0" + (b"dir" if isdir else b"file" if os.path.exists(p) else b"dangling")
        return p.read_bytes() if p.is_file() else None

    def txn(self):
        return common.get_private(self.handler, "_LocalFileHandler__transaction", TXN_PRED, TXN_HINTS)


class ModelScenario(Scenario):
    def __init__(self, label: str, root: pathlib.Path, loader, skip_bump=()):
        self.label, self.root, self.loader = label, root, loader
        self.handler = loader.filehandler
        self.counter = 0
        self.skip_bump = skip_bump

    def bump(self, only=None):
        """change what the next save writes: every file, or only the files named in `only` (the others are then written
        with the content they already have on disk after a successful save)"""
        self.counter += 1
        for name, tree in self.loader.trees.items():
            if name.parts[0] != "\0" or name.name in self.skip_bump:
                continue
            if only is not None and name.name not in only:
                continue
            tree.root.set("verifcase", str(self.counter))

    def bumpable(self) -> list[str]:
        return [name.name for name in self.loader.trees if name.parts[0] == "\0" and name.name not in self.skip_bump]

    def frags(self) -> list[tuple[str, bytes]]:
        """(relative path, payload without declaration) in the order save() will write them."""
        import io

        self.loader.update_namespaces()
        out = []
        for name, tree in self.loader.trees.items():
            if name.parts[0] != "\0":
                continue
            buf = io.BytesIO()
            tree.write_xml(buf)
            data = buf.getvalue()
            assert data.startswith(DECL)
            out.append((pathlib.PurePosixPath(*name.parts[1:]).as_posix(), data[len(DECL):]))
        return out

    def save(self, dry_run: bool):
        if dry_run:
            self.loader.save(dry_run=True)
        else:
            self.loader.save()


class DirectScenario(Scenario):
    """A transaction driven directly on a LocalFileHandler: ops = [("w", path, text) | ("raise",) | ("nested",)]."""

    def __init__(self, label: str, root: pathlib.Path, handler, ops):
        self.label, self.root, self.handler, self.ops = label, root, handler, ops
        self.counter = 0

    def bump(self, only=None):
        self.counter += 1

    def _tree(self, text: str):
        from lxml import etree

        e = etree.Element("doc")
        e.set("n", str(self.counter))
        e.text = text
        return e

    def frags(self):
        from capellambse.loader import exs

        return [(pathlib.PurePosixPath(os.path.normpath(o[1])).as_posix(), exs.serialize(self._tree(o[2]), siblings=True))
                for o in self.ops if o[0] == "w"]

    def save(self, dry_run: bool):
        from capellambse.loader import exs

        with self.handler.write_transaction(dry_run=dry_run, unknown_option=1) as unused:
            assert "unknown_option" in unused and "dry_run" not in unused
            for o in self.ops:
                if o[0] == "w":
                    with self.handler.open(o[1], "wb") as f:
                        exs.write(self._tree(o[2]), f, siblings=True)
                elif o[0] == "raise":
                    raise self.user_exc
                elif o[0] == "nested":
                    with self.handler.write_transaction():
                        pass


def make_link(root: pathlib.Path, rel: str, text: str) -> None:
    """replace root/rel (a file or a directory) by a symbolic link with the given text; what was there moves to where the
    link leads"""
    p = root / rel
    tgt = pathlib.Path(os.path.normpath(p.parent / text))
    tgt.parent.mkdir(parents=True, exist_ok=True)
    shutil.move(str(p), str(tgt))
    p.symlink_to(text)


def add_fragments(root: pathlib.Path, aird: str, n: int) -> None:
    """Capella-style fragmentation, as far as save() is concerned: extra semantic fragments in a
    sub-directory, referenced from the .aird (loaded as separate trees, written as separate files)."""
    fr = root / "fragments"
    fr.mkdir()
    refs = ""
    for i in range(n):
        name = f"Part {i}.capellafragment"
        (fr / name).write_bytes(
            DECL + (f'<org.polarsys.capella.core.data.la:LogicalFunctionPkg xmlns:org.polarsys.capella.core.data.la='
                    f'"http://www.polarsys.org/capella/core/la/5.0.0" id="00000000-0000-4000-8000-00000000000{i}" '
                    f'name="fragment {i}"/>\n').encode())
        refs += f"  <semanticResources>fragments/{name.replace(' ', '%20')}</semanticResources>\n"
    p = root / aird
    txt = p.read_text(encoding="utf-8")
    k = txt.index("  <semanticResources>")
    p.write_text(txt[:k] + refs + txt[k:], encoding="utf-8")


def build_scenarios(ctx: Ctx) -> list[Scenario]:
    import capellambse
    from capellambse.filehandler import local
    from capellambse.loader import core

    data = common.REPO / "tests" / "data"
    if not data.exists():
        data = pathlib.Path("/repo/tests/data")
    scs: list[Scenario] = []
    base = ctx.scratch / "c15"
    base.mkdir(exist_ok=True)

    # the smallest model save() accepts: an .aird plus the .afm that update_namespaces() insists on
    d = base / "minimal"
    d.mkdir()
    (d / "Solo.aird").write_bytes(
        DECL + b'<viewpoint:DAnalysis xmlns:viewpoint="http://www.eclipse.org/sirius/1.1.0" uid="_solo" version="14.6.0">\n'
        b'  <semanticResources>Solo.afm</semanticResources>\n</viewpoint:DAnalysis>\n')
    shutil.copy(data / "writemodel" / "WriteTestModel.afm", d / "Solo.afm")
    scs.append(ModelScenario("model:minimal", d, core.MelodyLoader(d / "Solo.aird")))

    # three files
    d = base / "writemodel"
    shutil.copytree(data / "writemodel", d)
    m = capellambse.MelodyModel(d / "WriteTestModel.aird")
    scs.append(ModelScenario("model:writemodel", d, m._loader))
    scs[-1].keep = m

    # five files, two of them in a sub-directory
    d = base / "fragmented"
    shutil.copytree(data / "writemodel", d)
    add_fragments(d, "WriteTestModel.aird", 2)
    m = capellambse.MelodyModel(d / "WriteTestModel.aird")
    assert len(m._loader.trees) == 5, list(m._loader.trees)
    scs.append(ModelScenario("model:fragmented", d, m._loader, skip_bump=("WriteTestModel.afm",)))
    scs[-1].keep = m

    # the same model, but the folder of its fragments does not exist on disk: save() must fail and leave nothing
    d = base / "fragmented-nofolder"
    shutil.copytree(data / "writemodel", d)
    add_fragments(d, "WriteTestModel.aird", 2)
    m = capellambse.MelodyModel(d / "WriteTestModel.aird")
    shutil.rmtree(d / "fragments")
    scs.append(ModelScenario("model:fragment-folder-missing", d, m._loader, skip_bump=("WriteTestModel.afm",)))
    scs[-1].keep = m
    scs[-1].natural = True

    # ---- models some of whose files (or whose fragment folder) are symbolic links.  Layout: <label>/project is the
    # handler's root, the links lead into sibling directories of it (and, in one scenario, to a place inside the root).
    def linked_model(label, src_build, links, n_trees, light=True, loader_only=False, **kw):
        outer = base / label.replace(":", "_")
        d = outer / "project"
        outer.mkdir()
        aird = src_build(d)
        for rel, text in links:
            make_link(d, rel, text)
        if loader_only:
            ld = core.MelodyLoader(d / aird)
            keep = None
        else:
            keep = capellambse.MelodyModel(d / aird)
            ld = keep._loader
        assert len(ld.trees) == n_trees, list(ld.trees)
        sc = ModelScenario(label, d, ld, **kw)
        sc.keep = keep
        sc.light = light
        sc.seal(outer)
        scs.append(sc)

    def wm(d):
        shutil.copytree(data / "writemodel", d)
        return "WriteTestModel.aird"

    def wm_frag(d):
        add_fragments(d, wm(d), 1)
        return "WriteTestModel.aird"

    def solo(d):
        shutil.copytree(base / "minimal", d)
        return "Solo.aird"

    names3 = ["WriteTestModel.aird", "WriteTestModel.capella", "WriteTestModel.afm"]
    one = ctx.rng.choice(names3)
    # one link (which file: seeded) that leads outside the root
    linked_model("model:one-link-outside", wm, [(one, f"../shared/{one}")], 3)
    # several links; one target has another name than the link, one lies deeper
    linked_model("model:links-outside", wm, [("WriteTestModel.aird", "../shared/WriteTestModel.aird"),
                                              ("WriteTestModel.capella", "../shared/deep/Semantic model.capella")], 3)
    # a link that leads to a place inside the root
    linked_model("model:link-minimal-inside", solo, [("Solo.afm", "store/real name.afm")], 2, light=False, loader_only=True)
    # the folder of the fragments is a link to a directory beside the root
    linked_model("model:fragment-folder-linked", wm_frag, [("fragments", "../shared fragments")], 4, skip_bump=("WriteTestModel.afm",))

    if ctx.thorough:
        for sub, aird in (("Library Test", "Library Test.aird"), ("filtering", "Filtered Project.aird"),
                          ("melodymodel/5_2", "Melody Model Test.aird")):
            d = base / sub.replace("/", "_").replace(" ", "_")
            shutil.copytree(data / sub, d)
            kw = {}
            if sub == "Library Test":
                lib = base / "Library_Project_res"
                shutil.copytree(data / "Library Project", lib)
                kw = {"resources": {"Library Project": str(lib)}}
            try:
                m = capellambse.MelodyModel(d / aird, **kw)
            except Exception:  # a corpus model that does not load is not this property's business
                continue
            scs.append(ModelScenario(f"model:{sub}", d, m._loader))
            scs[-1].keep = m

    # direct transactions on the handler
    def direct(label, ops, files, links=None, outside=None):
        outer = base / label.replace(":", "_")
        outer.mkdir()
        d = outer / "project" if links else outer
        d.mkdir(exist_ok=True)
        for rel, content in (outside or {}).items():     # what the links lead to (names relative to the root: ../x/y)
            (d / rel).parent.mkdir(parents=True, exist_ok=True)
            (d / rel).write_bytes(content)
        for rel, text in (links or {}).items():
            (d / rel).symlink_to(text)
        for rel, content in files.items():
            (d / rel).parent.mkdir(parents=True, exist_ok=True)
            (d / rel).write_bytes(content)
        sc = DirectScenario(label, d, local.LocalFileHandler(d), ops)
        sc.natural = label in ("direct:dup", "direct:missing-dir", "direct:user-exc", "direct:nested", "direct:links-user-exc")
        sc.user_exc = make_exc("UserError")
        if links:
            sc.seal(outer)
        scs.append(sc)

    direct("direct:one-file", [("w", "only.xml", "1")], {"only.xml": DECL + b"<old/>\n"})
    direct("direct:new+old", [("w", "a.xml", "A"), ("w", "sub/b.xml", "B"), ("w", "new.xml", "N")],
           {"a.xml": DECL + b"<old/>\n", "sub/b.xml": b"no declaration", "other.txt": b"bystander"})
    direct("direct:dup", [("w", "a.xml", "A"), ("w", "./x/../a.xml", "again")], {"a.xml": DECL + b"<old/>\n"})
    direct("direct:missing-dir", [("w", "a.xml", "A"), ("w", "nodir/b.xml", "B"), ("w", "c.xml", "C")], {"a.xml": b"old a", "c.xml": b"old c"})
    direct("direct:user-exc", [("w", "a.xml", "A"), ("w", "b.xml", "B"), ("raise",)], {"a.xml": b"old a"})
    direct("direct:nested", [("w", "a.xml", "A"), ("nested",), ("w", "b.xml", "B")], {"a.xml": b"old a", "b.xml": b"old b"})
    direct("direct:empty", [], {"a.xml": b"old a"})
    # files that are symbolic links: into directories beside the root (same name, another name and deeper, leading nowhere)
    direct("direct:links-outside", [("w", "a.xml", "A"), ("w", "b.xml", "B"), ("w", "c.xml", "C"), ("w", "d.xml", "D")],
           {"b.xml": b"old b", "other.txt": b"bystander"},
           links={"a.xml": "../shared/a.xml", "c.xml": "../shared/deep/another name.xml", "d.xml": "../shared/not-there.xml"},
           outside={"../shared/a.xml": DECL + b"<old/>\n", "../shared/deep/another name.xml": b"old c", "../shared/bystander.txt": b"x"})
    direct("direct:one-link-outside", [("w", "a.xml", "A"), ("w", "b.xml", "B")], {"a.xml": b"old a"},
           links={"b.xml": "../elsewhere/b.xml"}, outside={"../elsewhere/b.xml": b"old b"})
    # ... to a place inside the root, through a second link
    direct("direct:link-inside", [("w", "a.xml", "A"), ("w", "b.xml", "B")], {"store/a-real.xml": b"old a", "b.xml": b"old b"},
           links={"a.xml": "alias.xml", "alias.xml": "store/a-real.xml"})
    # a sub-directory of the root is a link to a directory beside it
    direct("direct:dir-linked", [("w", "a.xml", "A"), ("w", "sub/b.xml", "B"), ("w", "sub/new.xml", "N")],
           {"a.xml": b"old a", "sub/b.xml": b"old b"}, links={"sub": "../shared sub"}, outside={"../shared sub/keep.txt": b"bystander"})
    # the caller's own code fails after files behind links went to their temporary files
    direct("direct:links-user-exc", [("w", "a.xml", "A"), ("w", "sub/b.xml", "B"), ("raise",)], {"sub/b.xml": b"old b"},
           links={"a.xml": "../shared/a.xml", "sub": "../shared sub"}, outside={"../shared/a.xml": b"old a", "../shared sub/keep.txt": b"k"})

    # temp-name boundary cases: `_tmpname` cuts long names, so two targets can share a temp name, a temp name can be
    # a target, and (counted in characters) a temp name can exceed the 255-BYTE limit of the file system.
    # Such a save must either succeed completely or be refused leaving everything as it was.
    L = "a" * 250
    direct("direct:long-name", [("w", "n" * 255, "N"), ("w", "m.xml", "M")], {"n" * 255: b"old n", "m.xml": b"old m"})
    direct("direct:long-nonascii", [("w", "ok.xml", "K"), ("w", "\u00e9" * 126, "E"), ("w", "sub/" + "\u20ac" * 84 + "abc", "F")],
           {"ok.xml": b"old k", "\u00e9" * 126: b"old e", "sub/" + "\u20ac" * 84 + "abc": b"old f"})
    direct("direct:long-siblings", [("w", L + "1.x", "1"), ("w", "mid.xml", "M"), ("w", L + "2.x", "2")],
           {L + "1.x": b"old 1", L + "2.x": b"old 2", "mid.xml": b"old m", "other.txt": b"bystander"})
    direct("direct:long-siblings-nonascii", [("w", "\u00e9" * 125 + "ab", "1"), ("w", "\u00e9" * 125 + "cd", "2")],
           {"\u00e9" * 125 + "ab": b"old 1", "\u00e9" * 125 + "cd": b"old 2"})
    direct("direct:tmp-shaped-first", [("w", ".x.xml.tmp", "T"), ("w", "x.xml", "X")], {".x.xml.tmp": b"old t", "x.xml": b"old x"})
    direct("direct:tmp-shaped-second", [("w", "x.xml", "X"), ("w", "y.xml", "Y"), ("w", ".x.xml.tmp", "T")],
           {".x.xml.tmp": b"old t", "x.xml": b"old x"})
    direct("direct:self-tmp", [("w", "a.xml", "A"), ("w", "." * 251 + ".tmp", "S")], {"." * 251 + ".tmp": b"old s", "a.xml": b"old a"})
    for sc in scs:
        if sc.label in ("direct:long-siblings", "direct:long-siblings-nonascii", "direct:tmp-shaped-first",
                        "direct:tmp-shaped-second", "direct:self-tmp"):
            sc.may_refuse = True
    return scs


# ------------------------------------------------------------------ one case


def run_case(sc: Scenario, schedule: dict[int, tuple[str, bool]], dry_run: bool, bump=True, retry: bool = True,
             history_tag: str | None = None) -> dict:
    """One save with the given fault schedule, then (retry=True) a fault-free retry on the same object.
    bump: True = every file gets new content first, a list = only those files, None/False = the model is left as it is
    (a step of a longer history on the same object)."""
    if bump is True:
        sc.bump()
    elif bump:
        sc.bump(only=bump)
    if retry:          # a case of its own (not a step of a history): links are links again
        sc.prepare()
    frags = sc.frags()
    before, dirs_before = area(sc.root, sc.outer)
    inj = Injector(sc.root, schedule, [p for p, _ in frags])
    seen: BaseException | None = None
    warnings: list[str] = []

    class H(logging.Handler):
        def emit(self, record):
            if record.levelno >= logging.WARNING:
                warnings.append(record.getMessage())

    h = H()
    lg = logging.getLogger("capellambse.filehandler.local")
    lg.addHandler(h)
    propagate, lg.propagate = lg.propagate, False  # the warnings are observed here, not printed
    try:
        with injecting(inj):
            try:
                sc.save(dry_run)
            except BaseException as e:  # noqa: BLE001 - KeyboardInterrupt is one of the injected kinds
                seen = e
    finally:
        lg.removeHandler(h)
        lg.propagate = propagate
    release_frames(seen, *[f[3] for f in inj.fired])
    after, dirs_after = area(sc.root, sc.outer)
    txn_after = sc.txn()
    # retry on the same object, no faults
    retry_exc: BaseException | None = None
    inj2 = Injector(sc.root, {}, [p for p, _ in frags])
    if retry:
        with injecting(inj2):
            try:
                sc.save(False)
            except BaseException as e:  # noqa: BLE001
                retry_exc = e
    release_frames(retry_exc)
    final, dirs_final = area(sc.root, sc.outer)
    # what the in-memory model serialises to NOW (after the save and the retry), outside any injection
    frags_post = sc.frags()
    txn_final = sc.txn()
    if txn_final is not None:  # never let one case poison the next
        common.set_private(sc.handler, "_LocalFileHandler__transaction", None, TXN_PRED, TXN_HINTS)
    if retry:
        for rel in set(final) - set(before) - {p for p, _ in frags}:
            with contextlib.suppress(OSError):
                (sc.root / rel).unlink()
    if retry and (getattr(sc, "natural", False) or getattr(sc, "may_refuse", False)):  # a scenario that (may) keep failing by itself: put its directory back as it was
        for d in sorted(dirs_final - dirs_before, reverse=True):
            shutil.rmtree(sc.root / d, ignore_errors=True)
        for rel in set(final) - set(before):
            with contextlib.suppress(OSError):
                (sc.root / rel).unlink()
        for rel, data in before.items():
            if final.get(rel) != data:
                put_back(sc.root, rel, data)
    return dict(frags=frags, before=before, after=after, final=final, inj=inj, seen=seen, warnings=warnings,
                dirs_before=dirs_before, dirs_after=dirs_after, dirs_final=dirs_final,
                txn_after=txn_after, txn_final=txn_final, retry_exc=retry_exc, retry_trace=inj2.trace,
                frags_post=frags_post, retried=retry, history_tag=history_tag)


def chain(exc: BaseException | None) -> list[BaseException]:
    out = []
    while exc is not None and exc not in out:
        out.append(exc)
        exc = exc.__context__
    return out


def exc_name(e: BaseException | None) -> str | None:
    if e is None:
        return None
    if isinstance(e, OSError) and e.errno is not None and not isinstance(e, FileNotFoundError):
        return f"OSError:{errno.errorcode.get(e.errno, e.errno)}"
    return type(e).__name__


def is_tmp_of(rel: str, targets) -> bool:
    return any(rel == tmpname(t) for t in targets)


def tmpname(rel: str) -> str:
    """the temp name the handler uses for `rel`: '.' + longest character prefix of at most 250 BYTES + '.tmp'
    (file-name limits count bytes; for ASCII names this is the 250-character cut of the pinned code)"""
    p = pathlib.PurePosixPath(rel)
    n = p.name
    while len(n.encode("utf-8", "surrogateescape")) > 250:
        n = n[:-1]
    return p.with_name("." + n + ".tmp").as_posix()


def monitor(sc: Scenario, schedule, dry_run: bool, r: dict) -> tuple[str, str] | None:
    """Direct encoding of the property on what was observed. Returns (class-of-failure, description) or None."""
    inj: Injector = r["inj"]
    before, after, final = r["before"], r["after"], r["final"]
    seen = r["seen"]
    new = {p: DECL + pay for p, pay in r["frags"]}
    fired = inj.fired
    natural = getattr(sc, "natural", False)
    may_refuse = getattr(sc, "may_refuse", False)

    def is_refusal(e) -> bool:
        # the handler's own refusal of a file name (never one of the injected kinds)
        return may_refuse and type(e) is RuntimeError and all(e is not f[3] for f in fired)

    if is_refusal(seen):
        natural = True
    renamed = []  # targets whose rename call completed
    for i, (ev, p) in enumerate(inj.trace):
        if ev == "rename" and not any(f[0] == i for f in fired):
            renamed.append(p)
    first_ev = fired[0][1] if fired else None
    temps = {tmpname(p) for p in new}
    behind_new = {q for p in new for q in chain_of(before, p)}   # the written names and, for links, what they led to
    where = f"{sc.label} dry_run={dry_run} schedule={ {k: v for k, v in sorted(schedule.items())} } fired={[(f[0], f[1], f[2]) for f in fired]}"
    cls_point = first_ev or r.get("history_tag") or ("natural" if natural else "nofault")
    # the bytes the in-memory model stands for, serialised afresh AFTER the save (and the retry) returned
    post = {p: DECL + pay for p, pay in r.get("frags_post", r["frags"])}

    def bad(kind, msg):
        return (f"{kind}|{cls_point}", f"{msg}; {where}")

    def lost_tmp_named(paths):
        """a file that existed before and carries the temp name of ANOTHER file of this save: the handler opens
        (truncates) it as that file's temp file and removes it on roll-back; reported under one signature,
        whatever the fault point"""
        hit = [p for p in paths if p in before and p in temps and tmpname(p) != p]
        if hit and len(hit) == len(paths):
            return ("tmp-named-file-lost", f"{hit} existed before the save and was used as a temporary file (truncated, then "
                    f"removed or replaced) because it is named like the temp file of another written file; {where}")
        return None

    # --- transaction state: reset in every case
    if r["txn_after"] is not None:
        return bad("txn-stuck", f"transaction set still {sorted(map(str, r['txn_after']))} after save() returned")
    changed = sorted(p for p in set(before) | set(after) if before.get(p) != after.get(p))
    leftover = sorted(p for p in after if p not in before and p not in new)
    unlink_faults = [f for f in fired if f[1] == "unlink"]
    # --- nothing but the written files and their temporary files (beside them) ever appears, in any outcome - neither
    # in the root nor in a directory a symbolic link leads into
    strays = [p for p in leftover if p not in temps]
    if strays:
        return bad("stray-file" + ("@outside-root" if any(p.startswith("../") for p in strays) else ""),
                   f"files appeared that are neither files of the save nor their temporary files: {strays}")

    def at_links(kind, paths):
        """names the class of a change that hits a symbolic link or the file a link leads to"""
        if any(before.get(p, b"").startswith(LINK) for p in paths):
            return kind + "@link"
        if sc.layout and any(p in sc.layout for p in paths):
            return kind + "@link-target"
        return kind

    failed = seen is not None
    if not fired and not natural:
        if failed:
            return bad("spurious-error", f"fault-free save raised {seen!r}")
    if not failed and not dry_run:
        # successful real save: complete new content, nothing else touched
        # (read THROUGH a symbolic link: whether a successful save replaces the link by a regular file - as the code does
        # today - or writes the file the link leads to is not judged here; either way the name must give the new content)
        for p, want in new.items():
            if through(after, p) != want:
                return bad("commit-incomplete", f"{p} does not hold its complete new content after a successful save")
        if not r.get("retried", True):
            for p, want in post.items():
                if through(after, p) != want:
                    return bad("commit-differs-from-model", f"{p} on disk is not what the model object serialises to after a successful save")
        other = [p for p in changed if p not in behind_new]
        if other:
            return bad(at_links("commit-touches-others", other), f"files not written were changed: {other}")
        if leftover and not unlink_faults:
            return bad("temp-left", f"temporary files remain after a successful save: {leftover}")
    elif not failed and dry_run:
        dchanged = [p for p in changed if p not in temps or p in new or p in before]
        if dchanged and lost_tmp_named(dchanged):
            return lost_tmp_named(dchanged)
        if dchanged:
            return bad(at_links("dry-run-changes", dchanged), f"dry-run changed {changed}")
        if leftover and not unlink_faults:
            return bad("temp-left", f"temporary files remain after dry-run: {leftover}")
    else:
        # failed save
        inj_excs = [f[3] for f in fired]
        raising = [f[3] for f in fired if not (f[1] == "unlink" and isinstance(f[3], OSError))]
        ch = chain(seen)
        if natural:
            # the scenario fails by itself (duplicate name, missing directory, user exception, nested transaction):
            # the caller must see that error or an injected one, never something else (e.g. a clean-up FileNotFoundError)
            nat_ok = (isinstance(seen, RuntimeError) and "already" in str(seen)) or is_refusal(seen) or seen is getattr(sc, "user_exc", None) \
                or (isinstance(seen, FileNotFoundError) and seen.filename is not None
                    and parent_missing(inj.rel(seen.filename), r["dirs_before"]))
            if not (nat_ok or seen in raising):
                return bad("error-masked", f"caller saw {seen!r}, neither the scenario's own error nor an injected one")
            if raising and not nat_ok and raising[0] not in ch:
                return bad("error-lost", f"the first injected error {raising[0]!r} is not in the context chain of {seen!r}")
        elif fired:
            if len(fired) == 1 and seen is not inj_excs[0]:
                return bad("error-masked", f"caller saw {seen!r} instead of the injected {inj_excs[0]!r} (context: {seen.__context__!r})")
            if len(raising) == 1 and seen is not raising[0]:
                return bad("error-masked", f"clean-up trouble masked the original error: saw {seen!r}, original {raising[0]!r}")
            if seen not in raising:
                return bad("error-masked", f"caller saw {seen!r}, none of the injected errors")
            if raising[0] not in ch:
                return bad("error-lost", f"the original error {raising[0]!r} is not in the context chain of {seen!r}")
        if not renamed:
            # nothing was committed: every model file byte-identical
            real_changed = [p for p in changed if p not in temps or p in new or p in before]
            if real_changed and lost_tmp_named(real_changed):
                return lost_tmp_named(real_changed)
            if real_changed:
                return bad(at_links("files-changed", real_changed), f"failed save (nothing committed) changed {real_changed}")
        else:
            # partially committed (fault after the first rename): outside "before the transaction commits";
            # still: no torn file
            for p in changed:
                if p in temps and p not in new and p not in before:
                    continue
                owners = [n for n in new if p in chain_of(before, n)]   # p itself, or the link that led to p
                if not owners or any(through(after, n) != new[n] for n in owners):
                    return bad("torn-file", f"{p} is neither its old nor its complete new content after a late fault")
        if leftover:
            # a temp file may only survive if its own unlink was refused, or clean-up was interrupted by a non-OSError
            interrupted = any(f[1] == "unlink" and not isinstance(f[3], OSError) for f in fired)
            refused = {tmpname(f[2]) for f in unlink_faults}
            if not interrupted and not set(leftover) <= refused:
                return bad("temp-left", f"temporary files remain after a failed save: {leftover}")
    if not failed and unlink_faults and any(not isinstance(f[3], OSError) for f in unlink_faults):
        return bad("error-swallowed", "a non-OSError raised during clean-up was swallowed")
    if leftover and unlink_faults and not failed:
        refused = {tmpname(f[2]) for f in unlink_faults}
        if not set(leftover) <= refused:
            return bad("temp-left", f"temporary files remain: {leftover}")
        if not r["warnings"]:
            return bad("silent-leftover", f"temp files {leftover} left without error or warning")

    # --- directories: a failed or dry-run save leaves none behind; a successful one creates at most the folders of its files
    new_dirs = sorted(r["dirs_after"] - r["dirs_before"])
    gone_dirs = sorted(r["dirs_before"] - r["dirs_after"])
    if gone_dirs:
        return bad("dir-removed", f"directories disappeared: {gone_dirs}")
    if new_dirs and (failed or dry_run):
        return bad("dir-left", f"directories left behind by a {'failed' if failed else 'dry-run'} save: {new_dirs}")
    if new_dirs:
        needed = {pp.as_posix() for p in new for pp in pathlib.PurePosixPath(p).parents}
        if not set(new_dirs) <= needed:
            return bad("dir-left", f"directories created that hold none of the written files: {new_dirs}")

    # --- retry on the same object must succeed (unless the scenario fails by itself)
    if not r.get("retried", True):
        return None
    if is_refusal(r["retry_exc"]):
        # the file names themselves are refused: the retry must leave everything as the first attempt left it
        if r["txn_final"] is not None:
            return bad("txn-stuck", "transaction set not reset after a refused retry")
        diff = sorted(p for p in set(after) | set(final) if after.get(p) != final.get(p) and not (p in temps and p not in new and p not in before))
        if diff and lost_tmp_named(diff):
            return lost_tmp_named(diff)
        if diff:
            return bad("files-changed", f"a refused retry changed {diff}")
    elif not natural:
        if r["retry_exc"] is not None:
            return bad("retry-fails", f"second save() raised {r['retry_exc']!r}")
        if r["txn_final"] is not None:
            return bad("txn-stuck", "transaction set not reset after retry")
        for p, want in new.items():
            if through(final, p) != want:
                return bad("retry-incomplete", f"{p} wrong after retry")
        for p, want in post.items():
            if through(final, p) != want:
                return bad("retry-differs-from-model", f"{p} on disk is not what the model object serialises to after the retry")
        extra = sorted(p for p in final if p not in before and p not in new)
        if extra:
            return bad("temp-left" if set(extra) <= temps else "stray-file" + ("@outside-root" if any(p.startswith("../") for p in extra) else ""),
                       f"temporary files remain after retry: {extra}")
        other = sorted(p for p in before if p not in behind_new and final.get(p) != before[p])
        if other:
            return bad("retry-touches-others", f"retry changed {other}")
    return None


# ------------------------------------------------------------------ model side


def canon_content(b: bytes | None, table: dict[bytes, int]):
    """bytes -> list of symbols: [] empty, [1, id(rest)] with XML declaration, [id(all)] otherwise."""
    if b is None:
        return None
    if b == b"":
        return []
    if b.startswith(DECL):
        rest = b[len(DECL):]
        return [1] + ([table.setdefault(rest, len(table) + 2)] if rest else [])
    return [table.setdefault(b, len(table) + 2)]


ERRMAP = {"OSError:ENOSPC": "os:28", "OSError:EACCES": "os:13", "OSError:EIO": "os:5", "ValueError": "value",
          "KeyboardInterrupt": "interrupt", "LookupError": "user", "FileNotFoundError": "os:2"}
KIND2MODEL = {"ENOSPC": "os:28", "EACCES": "os:13", "EIO": "os:5", "ValueError": "value", "KeyboardInterrupt": "interrupt"}


def model_request(sc: Scenario, schedule, dry_run: bool, r: dict) -> tuple[dict, dict]:
    """(request for the Lean driver, canonical observation of the implementation)."""
    table: dict[bytes, int] = {}
    inj: Injector = r["inj"]
    new_paths = [p for p, _ in r["frags"]]
    universe = sorted(set(r["before"]) | set(r["after"]) | set(r["final"]) | set(new_paths) | {tmpname(p) for p in new_paths})
    files = [[p, canon_content(r["before"][p], table)] for p in sorted(r["before"])]
    if isinstance(sc, DirectScenario):
        ops, k = [], 0
        for o in sc.ops:
            if o[0] == "w":
                p, pay = r["frags"][k]
                k += 1
                ops.append({"k": "frag", "path": p, "payload": [table.setdefault(pay, len(table) + 2)],
                            "nodir": parent_missing(p, r["dirs_before"])})
            elif o[0] == "raise":
                ops.append({"k": "raise", "err": "user"})
            else:
                ops.append({"k": "nested"})
    else:
        ops = [{"k": "frag", "path": p, "payload": [table.setdefault(pay, len(table) + 2)],
                "nodir": parent_missing(p, r["dirs_before"])} for p, pay in r["frags"]]
    # the order in which the implementation's set was iterated, as far as it was observed
    prio = []
    for ev, p in inj.trace:
        if ev in ("rename", "unlink") and p not in prio:
            prio.append(p)
    retry_prio = []
    for ev, p in r["retry_trace"]:
        if ev in ("rename", "unlink") and p not in retry_prio:
            retry_prio.append(p)
    req = {"op": "txn.run", "files": files, "ops": ops, "dry": dry_run, "prio": prio, "retry_prio": retry_prio,
           "faults": [[i, KIND2MODEL[k], eff] for i, (k, eff) in sorted(schedule.items())], "universe": universe}

    def listing(snap, temps_by_existence=True):
        out = []
        for p in universe:
            if p not in snap:
                continue
            if temps_by_existence and is_tmp_of(p, new_paths):
                out.append([p, "tmp"])
            else:
                out.append([p, canon_content(snap[p], table)])
        return out

    def errn(e):
        n = exc_name(e)
        if n == "RuntimeError":
            return ("alreadyWritten" if "already written" in str(e) else "alreadyOpen" if "already open" in str(e)
                    else "tmpClash" if "emporary" in str(e) else n)
        return ERRMAP.get(n, n)

    obs = {
        "trace": [[ev, p] for ev, p in inj.trace],
        "err": errn(r["seen"]),
        "txn": None if r["txn_after"] is None else sorted(map(str, r["txn_after"])),
        "files": listing(r["after"]),
        "retry_err": errn(r["retry_exc"]),
        "retry_txn": None if r["txn_final"] is None else sorted(map(str, r["txn_final"])),
        "retry_files": listing(r["final"]),
    }
    return req, obs


# ------------------------------------------------------------------ the run


def schedules_for(ctx: Ctx, sc: Scenario, dry_run: bool, n_points: int, n_body: int):
    """Single faults at every index (one past the end included), every kind; then fault sequences."""
    rng = ctx.rng
    out: list[dict[int, tuple[str, bool]]] = [{}]
    big = isinstance(sc, ModelScenario) and sc.label.endswith("5_2")
    for i in range(n_points + 1):
        if ctx.thorough and not big:
            kinds = KINDS
        else:
            # every point gets an OSError and one of the two non-OSError kinds; rotate so all pairs occur across points
            kinds = [KINDS[i % 3], KINDS[3 + i % 2]]
            if i >= n_body:
                kinds = ["EIO", "KeyboardInterrupt", "ValueError"]
        for k in kinds:
            out.append({i: (k, False)})
        out.append({i: (rng.choice(KINDS), True)})
    # sequences: a fault, then another at a later call of the (now different) continuation
    pairs = []
    for i in range(n_points + 1):
        for j in range(i + 1, min(i + 9, n_points + 3)):
            pairs.append((i, j))
    if not ctx.thorough or big:
        rng.shuffle(pairs)
        pairs = pairs[: 12 if big or (sc.light and not ctx.thorough) else 40]
    for i, j in pairs:
        out.append({i: (rng.choice(KINDS), rng.random() < 0.3), j: (rng.choice(KINDS), False)})
    for _ in range(ctx.pick(3 if sc.light else 6, 40)):
        idx = rng.sample(range(n_points + 2), k=min(3, n_points + 2))
        out.append({i: (rng.choice(KINDS), rng.random() < 0.3) for i in idx})
    return out


def histories_for(ctx: Ctx, sc: "ModelScenario", n_points: dict[bool, int], n_body: dict[bool, int]) -> list[list[dict]]:
    """Histories of several saves on the SAME model object: steps {edit, kind, schedule}; edit = True (every file),
    a list of file names (only those), None (the model is left as it is); kind = save | dry | fail.  Every history
    ends with a fault-free real save, after which every file must hold what the model serialises to."""
    rng = ctx.rng
    names = sc.bumpable()

    def some():
        return sorted(rng.sample(names, rng.randint(1, len(names))))

    def fail(dry=False, lo=0, hi=None, edit=None):
        hi = n_points[dry] if hi is None else hi
        i = rng.randrange(lo, max(lo + 1, hi))
        return dict(edit=edit, kind="fail", dry=dry, schedule=[[i, rng.choice(KINDS), rng.random() < 0.3]])

    save = dict(edit=None, kind="save", dry=False, schedule=[])
    dry = dict(edit=None, kind="dry", dry=True, schedule=[])
    nb = n_body[False]
    per = max(1, nb // max(1, len(sc.frags())))   # body events per file
    hs = [
        [dict(dry, edit=True), save],                                  # a dry run, then the real save
        [dict(dry, edit=some()), dry, save],
        [fail(edit=True, lo=per, hi=nb), save],                        # fault in the 2nd or a later file
        [fail(edit=True, lo=per, hi=nb), fail(lo=0, hi=nb), save],     # two failed saves in a row
        [fail(edit=True, lo=per, hi=nb), dry, save],
        [fail(edit=True, dry=True, lo=per, hi=n_body[True]), save],    # a failing dry run
        [dict(save, edit=True), save],                                 # nothing edited in between: unchanged writes
        [dict(save, edit=True), fail(edit=some(), lo=per, hi=nb), save],
        [fail(edit=some(), lo=per, hi=nb), dict(save, edit=some())],   # an edit between the failed save and the retry
        [fail(edit=True, lo=nb, hi=n_points[False]), save],            # fault while committing / cleaning up
    ]
    for _ in range(ctx.pick(2 if sc.light else 6, 60)):
        h = []
        for _ in range(rng.randint(1, 4)):
            k = rng.choice(["save", "dry", "fail", "fail", "faildry"])
            e = rng.choice([None, None, True, "some"])
            e = some() if e == "some" else e
            h.append(dict(save, edit=e) if k == "save" else dict(dry, edit=e) if k == "dry" else fail(dry=k == "faildry", edit=e))
        h.append(dict(save, edit=rng.choice([None, None, "some"]) and some()))
        hs.append(h)
    return hs


def run_history(ctx: Ctx, out: Outcome, sc: "ModelScenario", hist: list[dict], reqs, obss, metas) -> None:
    sc.prepare()
    start = sc.snap()
    prev = "first"
    done = []
    for st in hist:
        schedule = {int(i): (k, bool(e)) for i, k, e in st["schedule"]}
        r = run_case(sc, schedule, st["dry"], bump=st["edit"], retry=False, history_tag="after-" + prev)
        done.append(st)
        fired = r["inj"].fired
        out.case((sc.label, "history", repr(done)), None, True)
        out.traces_validated += 1
        out.hit(f"history:{st['kind']}-after-{prev}")
        meta = {"scenario": sc.label, "history": list(done)}
        verdict = monitor(sc, schedule, st["dry"], r)
        if verdict:
            sig, what = verdict
            out.find(f"LocalFileHandler.save|{sig}", f"{what}; step {len(done)} of history {[(s_['kind'], s_['edit'], s_['schedule']) for s_ in done]}", meta)
        req, obs = model_request(sc, schedule, st["dry"], r)
        for k in ("retry_err", "retry_txn", "retry_files"):
            obs.pop(k)
        reqs.append(req)
        obss.append(obs)
        metas.append(meta)
        prev = "failed" if r["seen"] is not None else "dry" if st["dry"] else "ok"
        if sc.txn() is not None:
            common.set_private(sc.handler, "_LocalFileHandler__transaction", None, TXN_PRED, TXN_HINTS)
        # a temp file whose unlink was refused (reported by the handler, judged above): not the next step's business
        for rel in set(r["after"]) - set(start) - {p for p, _ in r["frags"]}:
            with contextlib.suppress(OSError):
                (sc.root / rel).unlink()


def note_links(out: Outcome, sc: Scenario, dry_run: bool, r: dict) -> None:
    """Coverage of the scenarios with symbolic links, and the OBSERVATION (not judged, see design/C15.md round 5) of what a
    successful save does to a written file that was a link."""
    before, after = r["before"], r["after"]
    written_links = [p for p, _ in r["frags"] if before.get(p, b"").startswith(LINK)]
    folder_links = [p for p, _ in r["frags"] if any(before.get(pp.as_posix(), b"").startswith(LINK)
                                                    for pp in pathlib.PurePosixPath(p).parents)]
    kind = "failed" if r["seen"] is not None else "dry" if dry_run else "ok"
    if written_links:
        out.hit(f"links:file-link:{kind}")
    if folder_links:
        out.hit(f"links:folder-link:{kind}")
    if any(not c[-1].startswith("../") for p in written_links if len(c := chain_of(before, p)) > 1):
        out.hit(f"links:leads-inside-root:{kind}")
    if kind == "ok":
        obs = out.extra.setdefault("successful_save_of_a_link", {})
        for p in written_links:
            k = "link replaced by a regular file, target untouched" if not after.get(p, b"").startswith(LINK) \
                and all(after.get(q) == before.get(q) for q in chain_of(before, p)[1:]) else "other"
            obs[k] = obs.get(k, 0) + 1


def run(ctx: Ctx) -> Outcome:
    sys.path.insert(0, str(common.REPO))
    out = Outcome(rule=RULE)
    scs = build_scenarios(ctx)
    reqs, obss, metas = [], [], []
    dist: dict[str, int] = {}
    for sc in scs:
        npts: dict[bool, int] = {}
        nbody: dict[bool, int] = {}
        for dry_run in (False, True):
            r0 = run_case(sc, {}, dry_run)
            n_points = len(r0["inj"].trace)
            npts[dry_run] = n_points
            nbody[dry_run] = sum(1 for ev, _ in r0["inj"].trace if ev in BODY_EVENTS)
            n_body = sum(1 for ev, _ in r0["inj"].trace if ev in BODY_EVENTS)
            for schedule in schedules_for(ctx, sc, dry_run, n_points, n_body):
                r = run_case(sc, schedule, dry_run)
                inj: Injector = r["inj"]
                key = (sc.label, dry_run, tuple(sorted((i, k, e) for i, (k, e) in schedule.items())))
                fired = [(f[0], f[1]) for f in inj.fired]
                nontrivial = bool(fired) or any(ev == "rename" for ev, _ in inj.trace)
                sample = None
                if len(fired) == 1 and fired[0][1] == "open" and len(out.samples) < 3:
                    sample = {"scenario": sc.label, "schedule": {str(k): v for k, v in schedule.items()}, "dry_run": dry_run,
                              "seen": exc_name(r["seen"]), "trace": inj.trace[:12], "retry": exc_name(r["retry_exc"]) or "ok"}
                out.case(key, sample, nontrivial)
                out.traces_validated += 1
                for f in inj.fired:
                    out.hit(f"fault@{f[1]}")
                    dist[f"{f[1]}:{exc_name(f[3])}"] = dist.get(f"{f[1]}:{exc_name(f[3])}", 0) + 1
                out.hit("outcome:" + ("ok" if r["seen"] is None else "failed") + (":dry" if dry_run else ""))
                if len(inj.fired) > 1:
                    out.hit("fault-sequence")
                if type(r["seen"]) is RuntimeError and "emporary" in str(r["seen"]):
                    out.hit("open:temp-name-clash-refused")
                if any(len(pathlib.PurePosixPath(p_).name.encode()) > 250 for p_, _ in r["frags"]) and any(ev == "rename" for ev, _ in inj.trace):
                    out.hit("tmpname:cut-name-committed")
                if sc.layout:
                    note_links(out, sc, dry_run, r)
                verdict = monitor(sc, schedule, dry_run, r)
                if verdict:
                    sig, what = verdict
                    out.find(f"LocalFileHandler.save|{sig}", what,
                             {"scenario": sc.label, "dry_run": dry_run,
                              "schedule": [[i, k, e] for i, (k, e) in sorted(schedule.items())]})
                req, obs = model_request(sc, schedule, dry_run, r)
                reqs.append(req)
                obss.append(obs)
                metas.append({"scenario": sc.label, "dry_run": dry_run,
                              "schedule": [[i, k, e] for i, (k, e) in sorted(schedule.items())]})
        # several saves on the same model object: edits of some files only, dry runs, failed saves, then a real save
        if isinstance(sc, ModelScenario) and not getattr(sc, "natural", False) and not sc.label.endswith("5_2"):
            hs = histories_for(ctx, sc, npts, nbody)
            for hist in hs:
                run_history(ctx, out, sc, hist, reqs, obss, metas)
            out.extra["histories"] = out.extra.get("histories", 0) + len(hs)
    out.extra["fault_distribution"] = dict(sorted(dist.items()))
    out.extra["scenarios"] = [s.label for s in scs]
    out.exhaustive = True  # every fault index of every scenario, single faults
    if os.environ.get("VERIF_NO_MODEL") != "1":
        answers = common.model(reqs, driver="Txn")
        for meta, obs, ans in zip(metas, obss, answers):
            mv = ans.get("ok", {"err!": ans.get("err")})
            if "history" in meta and isinstance(mv, dict) and "err!" not in mv:   # a step of a history: no retry was run
                mv = {k: v for k, v in mv.items() if not k.startswith("retry_")}
            if mv != obs:
                diff = {k: {"impl": obs.get(k), "model": mv.get(k) if isinstance(mv, dict) else mv}
                        for k in obs if not isinstance(mv, dict) or mv.get(k) != obs.get(k)}
                out.disagree("txn.run", meta, diff, "see impl/model per key")
            else:
                out.hit("corr:agree")
    return out


def replay(ctx: Ctx, case: dict):
    sys.path.insert(0, str(common.REPO))
    scs = build_scenarios(ctx)
    for sc in scs:
        if sc.label == case["scenario"] and "history" in case:
            o = Outcome()
            run_history(ctx, o, sc, case["history"], [], [], [])
            return "; ".join(f"{f.signature}: {f.what[:300]}" for f in o.findings[:3]) or None
        if sc.label == case["scenario"]:
            schedule = {int(i): (k, bool(e)) for i, k, e in case["schedule"]}
            r = run_case(sc, schedule, case["dry_run"])
            v = monitor(sc, schedule, case["dry_run"], r)
            return None if v is None else f"{v[0]}: {v[1]}"
    return f"scenario {case['scenario']} not available"
