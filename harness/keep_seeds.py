"""Copy confirmed seeded changes from the seeders' output directories into /verif/seeded/<id>/.

usage: keep_seeds.py <resdir with Cnn-m<i>.json from seedtest.py>   (seed files are /tmp/seed-Cnn-out/m<i>.*)
A change is kept only if the demo passed on the clean tree, failed on the mutated tree and the pinned suite passed.
"""
import json, pathlib, shutil, sys

VERIF = pathlib.Path(__file__).resolve().parent.parent

def main(resdir, srcpat="/tmp/seed-{prop}-out", tag=""):
    kept = []
    for rf in sorted(pathlib.Path(resdir).glob("C*-m*.json")):
        try:
            r = json.loads(rf.read_text())
        except ValueError:
            continue
        name = rf.stem            # Cnn-mi
        prop, mi = name.split("-")
        src = pathlib.Path(srcpat.format(prop=prop))
        ok = r.get("demo_clean", {}).get("rc") == 0 and r.get("demo_mutated", {}).get("rc") == 1 and r.get("suite", {}).get("rc", 0) == 0 and not r.get("error")
        if not ok or not (src / f"{mi}.diff").exists():
            print("skip", name, r.get("error"))
            continue
        name = f"{prop}-{tag}{mi}" if tag else name
        dst = VERIF / "seeded" / name
        dst.mkdir(parents=True, exist_ok=True)
        shutil.copy(src / f"{mi}.diff", dst / "patch.diff")
        shutil.copy(src / f"{mi}_demo.py", dst / "demo.py")
        try:
            seeder = json.loads((src / f"{mi}.json").read_text())
        except Exception:
            seeder = {}
        checks = {}
        for k, v in r.get("checks", {}).items():
            checks[k] = {"exit": v["rc"], "wall_s": v["wall_s"],
                         "signatures": [x.get("signature") or ("no-failing-input-found: " + str(x.get("broken_correspondence_streams") or x.get("broken_proof_obligations"))) for x in v.get("replays", [])][:3]}
        caught = [k for k, v in r.get("checks", {}).items() if v["rc"] == 1]
        meta = {
            "id": name, "property": prop,
            "title": seeder.get("title"), "files": seeder.get("files"),
            "what_it_breaks": seeder.get("what_it_breaks"),
            "needs_to_manifest": seeder.get("needs_to_manifest"),
            "why_tests_miss_it": seeder.get("why_tests_miss_it"),
            "confirmed": {"demo_on_clean_tree": "PASS (exit 0)", "demo_on_mutated_tree": "FAIL (exit 1)",
                          "pinned_suite_on_mutated_tree": "818/818 stable tests pass" if "suite" in r else "run by the seeder (3 known network/markup failures only)"},
            "what_i_ran": f"harness/seedtest.py {prop} patch.diff demo.py [--thorough] (scratch worktree of /repo HEAD, VERIF_REPO/VERIF_LEAN/VERIF_OUT)",
            "checks": checks,
            "caught_by": caught[0] if caught else None,
        }
        (dst / "meta.json").write_text(json.dumps(meta, indent=1) + "\n")
        kept.append((name, meta["caught_by"]))
    for k in kept:
        print(*k)

if __name__ == "__main__":
    main(sys.argv[1], *(sys.argv[2:4]))
