"""Translator: dumps the table-driven parts of /repo as Lean literals under lean/Capella/Gen/.

Purely reflective: imports capellambse from /repo and prints what the live objects say.
Files are only rewritten when their content changes (keeps `lake build` incremental).
"""

from __future__ import annotations

import pathlib
import sys

HERE = pathlib.Path(__file__).resolve().parent
import os

GEN = pathlib.Path(os.environ.get("VERIF_LEAN") or (HERE.parent / "lean")) / "Capella" / "Gen"

GENERATORS: list = []  # filled by gen_* modules: callables returning {filename: content}


def write_if_changed(path: pathlib.Path, content: str) -> bool:
    if path.exists() and path.read_text() == content:
        return False
    path.parent.mkdir(parents=True, exist_ok=True)
    path.write_text(content)
    return True


def lean_str(s: str) -> str:
    out = ['"']
    for ch in s:
        o = ord(ch)
        if ch == '"':
            out.append('\\"')
        elif ch == "\\":
            out.append("\\\\")
        elif ch == "\n":
            out.append("\\n")
        elif ch == "\t":
            out.append("\\t")
        elif o < 32 or o == 127:
            out.append("\\x%02x" % o)
        else:
            out.append(ch)
    out.append('"')
    return "".join(out)


def main() -> dict:
    sys.path.insert(0, str(HERE))
    summary = {}
    import importlib

    for name in sorted(p.stem for p in HERE.glob("gen_*.py") if p.stem != "gen_tables"):
        mod = importlib.import_module(name)
        for fname, content, info in mod.generate():
            changed = write_if_changed(GEN / fname, content)
            summary[fname] = dict(info, rewritten=changed)
    return summary


if __name__ == "__main__":
    import json

    print(json.dumps(main(), indent=1))
