"""Translator for the typed attribute descriptors (property C07).

Purely reflective: imports capellambse from `common.REPO`, loads the model extensions, walks every
class registered in `capellambse.model._xtype.XTYPE_HANDLERS` plus every (transitive) subclass of
`ModelElement`, and dumps EVERY `BasePOD` instance reachable as a class attribute (inherited slots
included) as one `Row`: class, Python name, declaring class, kind, XML attribute, writable, default,
and for enums the members with their values and whether the enum class has `_StringyEnumMixin`
semantics (member == its name). Unknown POD classes become kind `.other "<type>"` and unknown
defaults `.other "<repr>"` — never dropped — so that the kernel-checked obligation `Row.wf` fails
for them.

Output: lean/Capella/Gen/Pods<k>.lean (≤ 100 rows per `def`, one `decide +kernel` obligation pair
per chunk; chunks never split a class) and lean/Capella/Gen/Pods.lean (recombination).
"""

from __future__ import annotations

import enum
import sys

import common
from gen_tables import lean_str

CHUNK = 100
FILES = 4  # chunk files (Lake builds them in parallel)


def ls(s: str) -> str:
    """Lean `List Char` via a string literal."""
    return f"{lean_str(s)}.toList"


def qual(c: type) -> str:
    return f"{c.__module__}.{c.__qualname__}"


def load():
    if str(common.REPO) not in sys.path:
        sys.path.insert(0, str(common.REPO))
    import capellambse
    from capellambse import model as m
    from capellambse.model import _pods, _xtype

    capellambse.load_model_extensions()
    import capellambse.metamodel  # noqa: F401

    return capellambse, m, _pods, _xtype


def model_classes() -> list[type]:
    _, m, _, _xtype = load()
    seen: dict[type, None] = {}
    todo = [m.ModelElement]
    while todo:
        c = todo.pop()
        if c in seen:
            continue
        seen[c] = None
        todo.extend(c.__subclasses__())
    for handlers in _xtype.XTYPE_HANDLERS.values():
        for c in handlers.values():
            seen.setdefault(c, None)
    return sorted(seen, key=qual)


def is_stringy(enumcls: type) -> bool:
    """Behavioural test of `_StringyEnumMixin.__eq__`: every member compares equal to its own name
    (both operand orders, `==` and `!=`) and unequal to every other member's name."""
    names = list(enumcls.__members__)
    for n, mem in enumcls.__members__.items():
        if not (mem == n and n == mem and not (mem != n) and not (n != mem)):
            return False
        for o in names:
            if o != n and (mem == o or not (mem != o)):
                return False
    return True


def collect() -> dict:
    """rows: list of dicts; enums: {qualname: dict}"""
    _, m, _pods, _ = load()
    from capellambse.extensions.pvmt import _config as pvmt_config
    import markupsafe

    exact = {
        _pods.StringPOD: "string",
        _pods.HTMLStringPOD: "html",
        _pods.BoolPOD: "bool",
        _pods.IntPOD: "int",
        _pods.FloatPOD: "float",
        _pods.DatetimePOD: "datetime",
        _pods.EnumPOD: "enum",
        pvmt_config.PVMTDescriptionProperty: "selector",
    }
    rows, enums = [], {}
    unique = set()
    for cls in model_classes():
        for name in sorted(dir(cls)):
            try:
                d = getattr(cls, name)
            except Exception:
                continue
            if not isinstance(d, _pods.BasePOD):
                continue
            unique.add(id(d))
            kind = exact.get(type(d), None)
            default = d.default
            row = {
                "cls": qual(cls),
                "pyname": name,
                "owner": getattr(d.__objclass__, "__name__", "?"),
                "podclass": type(d).__name__,
                "attr": d.attribute,
                "writable": bool(d.writable),
                "kind": kind or "other",
                "enum": None,
            }
            # the default, as found
            if type(default) is str and default == "":
                row["default"] = ("emptyStr",)
            elif type(default) is markupsafe.Markup and default == "":
                row["default"] = ("emptyMarkup",)
            elif default is False:
                row["default"] = ("false",)
            elif type(default) is int and default == 0:
                row["default"] = ("zeroInt",)
            elif type(default) is float and default == 0.0 and str(default) == "0.0":
                row["default"] = ("zeroFloat",)
            elif default is None:
                row["default"] = ("none",)
            elif isinstance(default, enum.Enum):
                row["default"] = ("member", default.name)
            elif type(default) is pvmt_config.SelectorRules and default.raw == "":
                row["default"] = ("selectorEmpty",)
            else:
                row["default"] = ("other", repr(default))
            if kind == "enum":
                ec = d.enumcls
                q = qual(ec)
                row["enum"] = q
                if q not in enums:
                    members = []
                    ok = True
                    for n, mem in ec.__members__.items():
                        if mem.name != n or not isinstance(mem.value, str):
                            ok = False  # alias or non-string value: not representable -> kind other
                        members.append((n, str(mem.value)))
                    enums[q] = {"members": members, "stringy": is_stringy(ec), "ok": ok}
                if not enums[q]["ok"]:
                    row["kind"] = "other"
                    row["podclass"] = f"EnumPOD[{q}: alias or non-str value]"
                if not isinstance(default, ec):
                    row["default"] = ("other", repr(default))
            rows.append(row)
    return {"rows": rows, "enums": enums, "unique": len(unique)}


def spec_slots() -> list[tuple[str, str, str]]:
    """every `SpecificationAccessor` slot of every registered model class: (class, Python name, declaring class)"""
    load()
    from capellambse.model import _descriptors

    rows = []
    for cls in model_classes():
        for name in sorted(dir(cls)):
            try:
                d = getattr(cls, name)
            except Exception:
                continue
            if isinstance(d, _descriptors.SpecificationAccessor):
                owner = next((k for k in cls.__mro__ if name in k.__dict__), cls)
                rows.append((qual(cls), name, owner.__name__))
    return rows


def enum_ident(q: str, taken: dict) -> str:
    if q not in taken:
        base = "e_" + "".join(ch if ch.isalnum() else "_" for ch in q.rsplit(".", 1)[-1])
        name, k = base, 1
        while name in taken.values():
            k += 1
            name = f"{base}_{k}"
        taken[q] = name
    return taken[q]


def row_lean(r: dict, enum_names: dict) -> str:
    k = r["kind"]
    if k == "enum":
        dn = r["default"][1] if r["default"][0] == "member" else ""
        kind = f"(.enum {enum_names[r['enum']]} {ls(dn)})"
    elif k == "other":
        kind = f"(.other {ls(r['podclass'])})"
    else:
        kind = f".{k}"
    d = r["default"]
    if d[0] == "member":
        dflt = f"(.member {ls(d[1])})"
    elif d[0] == "other":
        dflt = f"(.other {lean_str(d[1])})"
    else:
        dflt = f".{d[0]}"
    w = "true" if r["writable"] else "false"
    return (f"  ⟨{lean_str(r['cls'])}, {lean_str(r['pyname'])}, {lean_str(r['owner'])}, "
            f"⟨{kind}, {ls(r['attr'])}, {w}⟩, {dflt}⟩")


def generate():
    data = collect()
    rows, enums = data["rows"], data["enums"]
    enum_names: dict = {}
    for q in sorted(enums):
        enum_ident(q, enum_names)

    # chunks of ≤ CHUNK rows that never split a class
    chunks: list[list[dict]] = [[]]
    i = 0
    while i < len(rows):
        j = i
        while j < len(rows) and rows[j]["cls"] == rows[i]["cls"]:
            j += 1
        group = rows[i:j]
        if chunks[-1] and len(chunks[-1]) + len(group) > CHUNK:
            chunks.append([])
        chunks[-1].extend(group)
        i = j
    if not chunks[-1]:
        chunks.pop()

    nfiles = min(FILES, max(1, len(chunks)))
    per = -(-len(chunks) // nfiles)
    out = []
    header = ("-- GENERATED by harness/gen_pods.py from the live descriptor objects of /repo. Do not edit.\n")

    # enum classes
    e_src = [header, "import Capella.Model.PodsTable\n", "namespace Capella.Gen.Pods\nopen Capella.Pods\n\n"]
    for q in sorted(enums):
        e = enums[q]
        mem = ", ".join(f"({ls(n)}, {ls(v)})" for n, v in e["members"])
        e_src.append(f"/-- `{q}` -/\n")
        e_src.append(f"def {enum_names[q]} : EnumCls := ⟨{ls(q)}, {'true' if e['stringy'] else 'false'}, [{mem}]⟩\n")
    e_src.append("\nend Capella.Gen.Pods\n")
    out.append(("PodsEnums.lean", "".join(e_src), {"enum_classes": len(enums)}))

    chunk_names: list[str] = []
    for f in range(nfiles):
        mine = chunks[f * per:(f + 1) * per]
        if not mine:
            continue
        src = [header, "import Capella.Gen.PodsEnums\n", "namespace Capella.Gen.Pods\nopen Capella.Pods\n\n"]
        for k, ch in enumerate(mine):
            cn = f"rows{f}_{k}"
            chunk_names.append(cn)
            src.append(f"def {cn} : List Row := [\n" + ",\n".join(row_lean(r, enum_names) for r in ch) + "\n]\n")
            src.append(f"theorem {cn}_wf : {cn}.all Row.wf = true := by decide +kernel\n")
            src.append(f"theorem {cn}_distinct : slotsDistinct {cn} = true := by decide +kernel\n\n")
        src.append("end Capella.Gen.Pods\n")
        out.append((f"Pods{f}.lean", "".join(src), {"rows": sum(len(c) for c in mine), "chunks": len(mine)}))

    top = [header] + [f"import Capella.Gen.Pods{f}\n" for f in range(nfiles) if chunks[f * per:(f + 1) * per]]
    top.append("namespace Capella.Gen.Pods\nopen Capella.Pods\n\n")
    top.append("/-- the chunks; each holds whole classes -/\n")
    top.append("def chunks : List (List Row) := [" + ", ".join(chunk_names) + "]\n\n")
    top.append("/-- every POD descriptor slot of every registered model class -/\n")
    top.append("def podTable : List Row := chunks.flatten\n\n")
    top.append("theorem chunks_wf : ∀ c ∈ chunks, c.all Row.wf = true := by\n  intro c hc\n"
               "  simp only [chunks, List.mem_cons, List.not_mem_nil, or_false] at hc\n"
               "  rcases hc with " + " | ".join(["rfl"] * len(chunk_names)) + "\n"
               + "".join(f"  · exact {cn}_wf\n" for cn in chunk_names) + "\n")
    top.append("theorem chunks_distinct : ∀ c ∈ chunks, slotsDistinct c = true := by\n  intro c hc\n"
               "  simp only [chunks, List.mem_cons, List.not_mem_nil, or_false] at hc\n"
               "  rcases hc with " + " | ".join(["rfl"] * len(chunk_names)) + "\n"
               + "".join(f"  · exact {cn}_distinct\n" for cn in chunk_names) + "\n")
    top.append("/-- every row of the table satisfies the model's well-formedness assumptions -/\n")
    top.append("theorem podTable_wf : ∀ r ∈ podTable, r.wf = true := by\n  intro r hr\n"
               "  obtain ⟨c, hc, hrc⟩ := List.mem_flatten.mp hr\n"
               "  exact (List.all_eq_true.mp (chunks_wf c hc)) r hrc\n\n")
    specs = spec_slots()
    top.append("/-- every `SpecificationAccessor` slot of every registered model class: (class, Python name, declaring class).\n"
               "The mapping behind each of them is `_Specification` (`Model/Pods.lean`, `Model/PodsSpecMap.lean`). -/\n")
    top.append("def specSlots : List (String × String × String) := [\n"
               + ",\n".join(f"  ({lean_str(c)}, {lean_str(n)}, {lean_str(o)})" for c, n, o in specs) + "\n]\n\n")
    top.append("/-- a class has at most one specification slot per name, and none of them collides with a POD slot's Python name -/\n")
    top.append("theorem specSlots_ok : (specSlots.map (fun r => (r.1, r.2.1))).Nodup ∧\n"
               "    specSlots.all (fun r => !podTable.any (fun p => p.cls == r.1 && p.pyname == r.2.1)) = true := by decide +kernel\n\n")
    top.append(f"/-- sizes, for the evidence file -/\ndef nRows : Nat := {len(rows)}\n")
    top.append("theorem nRows_ok : podTable.length = nRows := by decide +kernel\n")
    top.append("\nend Capella.Gen.Pods\n")
    kinds: dict = {}
    for r in rows:
        kinds[r["kind"]] = kinds.get(r["kind"], 0) + 1
    out.append(("Pods.lean", "".join(top), {
        "rows": len(rows), "unique_descriptors": data["unique"], "classes": len({r["cls"] for r in rows}),
        "chunks": len(chunk_names), "kinds": kinds, "obligations": 2 * len(chunk_names) + 2, "spec_slots": len(specs),
        "readonly": sorted({f"{r['owner']}.{r['pyname']}" for r in rows if not r["writable"]}),
    }))
    return out


if __name__ == "__main__":
    import json

    for fname, content, info in generate():
        print(fname, len(content), json.dumps(info))
