"""Run the repository's pinned test suite (command from /root/.vp/BASELINE.json) and compare with
its stable_pass list. Exit 0 iff every stable_pass test passes. Guard CAPELLAMBSE_VERIF is left unset."""
import json, os, subprocess, sys, tempfile, xml.etree.ElementTree as ET

def main() -> int:
    base = json.load(open("/root/.vp/BASELINE.json"))
    env = dict(os.environ)
    env.pop("CAPELLAMBSE_VERIF", None)
    with tempfile.TemporaryDirectory() as d:
        junit = os.path.join(d, "junit.xml")
        cmd = base["cmd"].replace("<file>", junit)
        repo = os.environ.get("VERIF_REPO")
        if repo:  # run the same suite in a scratch worktree (used while developing a fix)
            cmd = cmd.replace("cd /repo", f"cd {repo}")
            env["PYTHONPATH"] = repo
        p = subprocess.run(cmd, shell=True, env=env, capture_output=True, text=True)
        passed = set()
        for tc in ET.parse(junit).getroot().iter("testcase"):
            if not any(ch.tag in ("failure", "error", "skipped") for ch in tc):
                passed.add(f"{tc.get('classname')}::{tc.get('name')}")
    want = set(base["stable_pass"])
    missing = sorted(want - passed)
    print(f"baseline: {len(want & passed)}/{len(want)} stable tests pass; {len(passed)} passed in total")
    for m in missing[:20]:
        print("  MISSING", m)
    if missing:
        print(p.stdout[-3000:])
    return 0 if not missing else 1

if __name__ == "__main__":
    sys.exit(main())
