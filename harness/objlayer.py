"""Engine shared by the object-layer checks (C03, C04, C08, C09): loads corpus models from a scratch
copy, enumerates coupled list relations, generates seeded API operations, and takes raw observations
(lxml scans, private index dumps, relation views) that do not go through the code under test."""

from __future__ import annotations

import collections
import hashlib
import io
import logging
import pathlib
import shutil
import sys
import typing as t

import common

DATA = common.REPO / "tests" / "data"

MODELS = {
    "write": ("writemodel", "WriteTestModel.aird"),
    "empty52": ("decl/empty_project_52", "empty_project_52.aird"),
    "filtering": ("filtering", "Filtered Project.aird"),
    "pvmt": ("pvmt", "PVMTTest.aird"),
    "parser": ("parser", "TestItems.aird"),
    "libtest": ("Library Test", "Library Test.aird"),
    "libproj": ("Library Project", "Library Project.aird"),
    "t50": ("melodymodel/5_0", "Melody Model Test.aird"),
    "t52": ("melodymodel/5_2", "Melody Model Test.aird"),
    "t60": ("melodymodel/6_0", "Melody Model Test.aird"),
}
SMALL = ["write", "filtering", "libproj"]

ID_ATTRS_SEM = ("id",)
XMI_ID = "{http://www.omg.org/XMI}id"
XSI_TYPE = "{http://www.w3.org/2001/XMLSchema-instance}type"


def import_capellambse():
    if str(common.REPO) not in sys.path:
        sys.path.insert(0, str(common.REPO))
    logging.disable(logging.CRITICAL)
    import capellambse

    return capellambse


def copy_model(ctx, key: str) -> pathlib.Path:
    """Scratch copy of a corpus model directory (library project needs its sibling)."""
    sub, entry = MODELS[key]
    dst = ctx.scratch / f"m-{key}-{ctx.rng.randrange(10**9)}"
    src = DATA / sub
    if key in ("libproj", "libtest"):
        dst.mkdir(parents=True)
        for name in ("Library Project", "Library Test"):
            shutil.copytree(DATA / name, dst / name, ignore=shutil.ignore_patterns("*.license"))
        return dst / sub / entry
    shutil.copytree(src, dst, ignore=shutil.ignore_patterns("*.license"))
    return dst / entry


def load_fragmented(ctx, key: str, ncuts: int, rng, **kw):
    """the same corpus model, cut into `ncuts` (possibly nested) fragment files by the independent fragmenter"""
    import fragmenter

    capellambse = import_capellambse()
    base = key.split("+")[0]
    src = copy_model(ctx, base)
    capella = next(p for p in src.parent.glob("*.capella"))
    cands = [c for c in fragmenter.candidate_cut_points(capella) if 3 <= c[2] <= 400]
    cuts = []
    for n, (cid, _d, _s) in enumerate(rng.sample(cands, min(ncuts, len(cands)))):
        sub = rng.choice(["fragments", "fragments/deep dir", "."])
        cuts.append((cid, f"{sub}/F{n} x.capellafragment" if sub != "." else f"F{n}.capellafragment"))
    dst = ctx.scratch / f"frag-{base}-{rng.randrange(10**9)}"
    layout = fragmenter.fragment(src, dst, cuts)
    return capellambse.MelodyModel(str(layout.aird), **kw)


def load(ctx, key: str, **kw):
    if "+frag" in key:
        import random

        return load_fragmented(ctx, key, 4, random.Random(f"frag:{key}:{ctx.seed}"), **kw)
    capellambse = import_capellambse()
    path = copy_model(ctx, key)
    if key == "libproj":
        kw.setdefault("resources", {"Library Test": str(path.parent.parent / "Library Test")})
    return capellambse.MelodyModel(str(path), **kw)


# ------------------------------------------------------------------ raw observations


def frag_idattrs(fname) -> tuple[str, ...]:
    suf = pathlib.PurePosixPath(str(fname)).suffix
    if suf in (".aird", ".airdfragment"):
        return ("uid", XMI_ID)
    if suf == ".afm":
        return ()
    return ("id",)


XMI_TYPE = "{http://www.omg.org/XMI}type"


def xtype_of(elem) -> str | None:
    """re-implementation of helpers.xtype_of: xsi:type, else xmi:type, else <namespace key>:<localname>.
    (The URI -> namespace-key table is the library's own `_namespaces`; it is data, not logic.)"""
    xt = elem.get(XSI_TYPE) or elem.get(XMI_TYPE)
    if xt:
        return xt
    tag = elem.tag
    if not isinstance(tag, str) or not tag.startswith("{"):
        return None
    uri, local = tag[1:].split("}", 1)
    import capellambse._namespaces as _n

    try:
        return f"{_n.get_namespace_prefix(uri)}:{local}"
    except Exception:  # unknown plugin: the loader would have refused the file
        return None


_KEEP: list = []  # keeps every lxml proxy alive so that python id() stays a stable element identity


def raw_scan(loader) -> dict[str, list[dict]]:
    """fragment name -> pre-order list of {nid, ids, xt, href, depth}"""
    out = {}
    _KEEP.append(out)
    for fname, tree in loader.trees.items():
        idattrs = frag_idattrs(fname)
        rows = []
        for e in tree.root.iter():
            if not isinstance(e.tag, str):
                continue
            ids = [e.get(a) for a in idattrs if e.get(a) is not None]
            href = e.get("href")
            # a placeholder of a fragmented element (semantic file, has href) is not an element of its type:
            # type searches must return the fragment root it stands for, not the placeholder
            placeholder = href is not None and idattrs == ("id",)
            rows.append({"nid": id(e), "ids": ids, "xt": None if placeholder else xtype_of(e),
                         "href": href.split("#")[-1] if href is not None else None, "el": e})
        out[str(fname)] = rows
    return out


class PrivateState(t.NamedTuple):
    idcache: dict
    xtypecache: dict
    hrefsources: dict
    ignore_uuid_dups: bool


_PRIV_NAMES: dict = {}   # role -> attribute name found on ModelFile instances (resolved once per process, re-validated per call)


def private_state(tree) -> PrivateState:
    """The three private dictionaries of a `ModelFile` and its duplicate-tolerance flag.

    The name-mangled names as of the pinned commit are tried first; when the code was refactored (a private attribute
    renamed) the dictionaries are recognised by their SHAPE, so that a harmless rename does not break the tie:
    the type index is the dict whose values are dicts (element-id -> element); of the two str -> element dicts the href
    index is the one whose elements carry an `href` ending in their key, the id index the other one. Raises
    `common.BindingBroken` when the layout cannot be recognised (check.py turns that into a broken-correspondence
    verdict, never a crash)."""
    known = {"idcache": "_ModelFile__idcache", "xtypecache": "_ModelFile__xtypecache",
             "hrefsources": "_ModelFile__hrefsources", "ignore_uuid_dups": "_ModelFile__ignore_uuid_dups"}
    d = vars(tree)
    if all(n in d for n in known.values()):
        return PrivateState(*(d[known[r]] for r in PrivateState._fields))
    names = dict(_PRIV_NAMES)
    if not all(names.get(r) in d for r in PrivateState._fields):
        dicts = {k: v for k, v in d.items() if isinstance(v, dict)}
        xt = [k for k, v in dicts.items() if isinstance(v, collections.defaultdict) or (v and all(isinstance(x, dict) for x in v.values()))]
        flat = [k for k in dicts if k not in xt]

        def looks_href(v):
            items = [(k, e) for k, e in v.items() if e is not None][:20]
            return bool(items) and all(hasattr(e, "get") and str(e.get("href") or "").endswith(str(k)) for k, e in items)

        def looks_ids(v):
            items = [(k, e) for k, e in v.items() if e is not None][:20]
            return bool(items) and all(hasattr(e, "get") and str(k) in (e.get(a) for a in (XMI_ID, "id", "uid")) for k, e in items)

        hr = [k for k in flat if looks_href(dicts[k])]
        if len(hr) != 1:   # no placeholder in this file: the id index is recognisable, the other one is the href index
            ic0 = [k for k in flat if looks_ids(dicts[k])]
            hr = [k for k in flat if k not in ic0] if len(ic0) == 1 and len(flat) == 2 else [k for k in flat if "href" in k.lower() or "placeholder" in k.lower()]
        if len(hr) != 1 and len(flat) == 2:   # both empty: declaration order of `idcache_rebuild` (id index first)
            hr = [flat[1]]
        ic = [k for k in flat if k not in hr]
        flags = [k for k, v in d.items() if isinstance(v, bool) and "dup" in k.lower()] or [k for k, v in d.items() if isinstance(v, bool)]
        if len(xt) != 1 or len(hr) != 1 or len(ic) != 1 or len(flags) < 1:
            raise common.BindingBroken(
                "private state of ModelFile not recognised (id index / type index / href index / duplicate flag): "
                f"dict attributes {sorted(dicts)}, bool attributes {sorted(k for k, v in d.items() if isinstance(v, bool))}")
        names = {"idcache": ic[0], "xtypecache": xt[0], "hrefsources": hr[0], "ignore_uuid_dups": flags[0]}
        _PRIV_NAMES.update(names)
    return PrivateState(*(d[names[r]] for r in PrivateState._fields))


def index_dump(loader) -> dict[str, dict]:
    """private indexes of every fragment, canonicalised (python ids of elements)"""
    out = {}
    for fname, tree in loader.trees.items():
        idc, xtc, hrefs, _ = private_state(tree)
        sem = frag_idattrs(fname) == ("id",)
        xt_clean = {xt: sorted(k for k, el in d.items() if not (sem and el.get("href") is not None)) for xt, d in xtc.items()}
        out[str(fname)] = {
            "idc": {k: (None if v is None else id(v)) for k, v in idc.items()},
            "xtc": {xt: ks for xt, ks in xt_clean.items() if ks},
            "hrefs": {k: id(v) for k, v in hrefs.items()},
        }
    return out


def frag_bytes(loader) -> dict[str, bytes]:
    from capellambse.loader import exs

    out = {}
    for fname, tree in loader.trees.items():
        out[str(fname)] = exs.to_bytes(tree.root) if hasattr(exs, "to_bytes") else _ser(tree)
    return out


def _ser(tree) -> bytes:
    b = io.BytesIO()
    tree.write_xml(b)
    return b.getvalue()


def frag_hashes(loader) -> dict[str, str]:
    return {k: hashlib.sha256(v).hexdigest()[:16] for k, v in frag_bytes(loader).items()}


def elem_sig(e) -> tuple:
    """shallow signature of an element: tag, attributes, text (children by identity elsewhere)"""
    return (e.tag, tuple(sorted(e.attrib.items())), (e.text or "").strip())


def tree_snapshot(loader) -> dict[int, tuple]:
    """python id of element -> (fragment, parent nid, position, shallow signature); the whole model"""
    snap = {}
    for fname, tree in loader.trees.items():
        for e in tree.root.iter():
            if not isinstance(e.tag, str):
                continue
            p = e.getparent()
            snap[id(e)] = (str(fname), id(p) if p is not None else None, p.index(e) if p is not None else 0, elem_sig(e))
    return snap


# ------------------------------------------------------------------ relations


def accessor_kind(acc) -> str:
    return type(acc).__name__


def coupled_relations(model, objs, limit: int | None = None):
    """Yield (obj, attrname, accessor, list) for list-valued writable relations of the given objects."""
    from capellambse.model import _descriptors as D
    from capellambse.model import _obj as O

    n = 0
    for obj in objs:
        cls = type(obj)
        for attr in dir(cls):
            if attr.startswith("_"):
                continue
            try:
                acc = getattr(cls, attr)
            except Exception:
                continue
            if not isinstance(acc, D.WritableAccessor) or getattr(acc, "aslist", None) is None:
                continue
            try:
                lst = getattr(obj, attr)
            except Exception:
                continue
            if not isinstance(lst, O.ElementListCouplingMixin):
                continue
            yield obj, attr, acc, lst
            n += 1
            if limit and n >= limit:
                return


def all_objects(model, only_semantic: bool = True):
    """every element with an id, wrapped (raw scan, not via the type index)"""
    from capellambse.model import _obj as O

    out = []
    for fname, tree in model._loader.trees.items():
        if only_semantic and tree.fragment_type.name != "SEMANTIC":
            continue
        for e in tree.root.iter():
            if isinstance(e.tag, str) and e.get("id"):
                try:
                    out.append(O.ModelElement.from_model(model, e))
                except Exception:
                    pass
    return out


def uuids(lst) -> list[str]:
    return [getattr(x, "uuid", None) for x in lst]


def exc_enum(e: BaseException) -> str:
    n = type(e).__name__
    return n
