"""Translator: what `capellambse.decl` asks of the object layer -> Lean tables (C12/C13).

Purely reflective dump of the live classes in /repo:

* for every registered model class and every public attribute that is a *list-valued* relation descriptor
  (`aslist is not None`; `Alias` / `DeprecatedAccessor` followed to their target): whether `getattr(obj, attr)`
  is a model-coupled list (`WritableAccessor`), how its accessor creates members (`WritableAccessor.create`
  not overridden -> cannot; `DirectProxyAccessor.create` -> through `_create`, with the class `_guess_xtype()`
  yields or none when it raises; any other override -> `.other "<accessor type>"`), its `single_attr` and its
  `fixed_length`.  Attributes that are absent or not lists have no row (`MM.ofTable` answers `.absent`).
* the `_type` hints `WritableAccessor._match_xtype` accepts: every xsi:type, its part after the colon and the
  class name, each mapped to the class it selects or to `none` when ambiguous.

<= 100 rows per `def`, one `decide +kernel` obligation per chunk (`rowsOK`: the class a list creates without
hint is creatable by name; hint targets are their own hints).
"""

from __future__ import annotations

import inspect
import sys

import common
from gen_tables import lean_str

CHUNK = 100


def collect():
    if str(common.REPO) not in sys.path:
        sys.path.insert(0, str(common.REPO))
    import capellambse
    import capellambse.extensions.filtering  # noqa: F401
    import capellambse.extensions.pvmt  # noqa: F401
    import capellambse.extensions.reqif  # noqa: F401
    import capellambse.extensions.validation  # noqa: F401
    import capellambse.metamodel  # noqa: F401

    capellambse.load_model_extensions()  # what loading a model does: the extensions attach their relations
    from capellambse.model import _descriptors as D
    from capellambse.model import _xtype

    handlers = _xtype.XTYPE_HANDLERS[None]
    hints: dict[str, set] = {}
    for xt, cls in handlers.items():
        for h in {xt, xt.split(":")[-1], cls.__name__}:
            hints.setdefault(h, set()).add(cls)
    hint_rows = sorted((h, (next(iter(cs)).__name__ if len(cs) == 1 else None)) for h, cs in hints.items())

    def resolve(cls, attr, depth=0):
        try:
            acc = inspect.getattr_static(cls, attr)
        except AttributeError:
            return None
        if isinstance(acc, D.Alias) and depth < 5:
            return resolve(cls, acc.target, depth + 1)
        if isinstance(acc, D.DeprecatedAccessor) and depth < 5:
            return resolve(cls, acc.alternative, depth + 1)
        return acc if isinstance(acc, D.Accessor) else None

    rows = []
    classes = sorted(set(handlers.values()), key=lambda c: c.__name__)
    names = [c.__name__ for c in classes]
    assert len(set(names)) == len(names), "class names are not unique"
    for cls in classes:
        for attr in sorted(a for a in dir(cls) if not a.startswith("_")):
            acc = resolve(cls, attr)
            if acc is None or getattr(acc, "aslist", None) is None:
                continue
            if not isinstance(acc, D.WritableAccessor):
                rows.append((cls.__name__, attr, ("uncoupled",)))
                continue
            create = type(acc).create
            if create is D.WritableAccessor.create:
                creator = ("cannot",)
            elif create is D.DirectProxyAccessor.create:
                if getattr(acc, "rootelem", None):
                    creator = ("cannot",)
                else:
                    try:
                        creator = ("xtype", acc._guess_xtype()[0].__name__)
                    except (ValueError, TypeError):
                        creator = ("xtype", None)
            else:
                creator = ("other", type(acc).__name__)
            fixed = int((getattr(acc, "list_extra_args", None) or {}).get("fixed_length", 0) or 0)
            rows.append((cls.__name__, attr, ("coupled", creator, getattr(acc, "single_attr", None), fixed)))
    return rows, hint_rows


def chars(s: str) -> str:
    """a `List Char` literal (`"…".toList` has to decode UTF-8 inside the kernel, which is slow)"""
    def ch(c):
        if c == "'":
            return "'\\''"
        if c == "\\":
            return "'\\\\'"
        assert 32 <= ord(c) < 127, c
        return f"'{c}'"
    return "[" + ",".join(ch(c) for c in s) + "]"


def opt(s):
    return "none" if s is None else f"(some {chars(s)})"


def kind_lean(k) -> str:
    if k[0] == "uncoupled":
        return ".uncoupled"
    _, creator, single, fixed = k
    if creator[0] == "cannot":
        c = ".cannot"
    elif creator[0] == "xtype":
        c = f"(.xtype {opt(creator[1])})"
    else:
        c = f"(.other {chars(creator[1])})"
    return f"(.coupled {c} {opt(single)} {fixed})"


def generate():
    rows, hints = collect()
    out = []
    files = []
    nfiles = 0
    # rows in files of <= 5 chunks each (Lake builds them in parallel)
    chunks = [rows[i:i + CHUNK] for i in range(0, len(rows), CHUNK)]
    hchunks = [hints[i:i + CHUNK] for i in range(0, len(hints), CHUNK)]
    per_file = 4
    for fi in range(0, len(chunks), per_file):
        name = f"DeclMeta{nfiles}"
        nfiles += 1
        lines = ["-- GENERATED by harness/gen_declmeta.py from the live classes in /repo. Do not edit.",
                 "import Capella.Model.Decl", f"namespace Capella.Gen.{name}", "open Capella.Decl", ""]
        for ci, ch in enumerate(chunks[fi:fi + per_file]):
            lines.append(f"def rows{ci} : List ((Str × Str) × AttrKind) := [")
            lines += [f"  (({chars(c)}, {chars(a)}), {kind_lean(k)})," for c, a, k in ch]
            lines[-1] = lines[-1].rstrip(",")
            lines.append("]")
            lines.append("")
        n = len(chunks[fi:fi + per_file])
        lines.append("def rows : List ((Str × Str) × AttrKind) := " + " ++ ".join(f"rows{i}" for i in range(n)))
        lines += ["", f"end Capella.Gen.{name}", ""]
        files.append((f"{name}.lean", "\n".join(lines), {"rows": sum(len(c) for c in chunks[fi:fi + per_file])}))
    # hints + the assembled metamodel + obligations
    lines = ["-- GENERATED by harness/gen_declmeta.py from the live classes in /repo. Do not edit.",
             "import Capella.Model.Decl"] + [f"import Capella.Gen.DeclMeta{i}" for i in range(nfiles)] + [
             "namespace Capella.Gen.DeclMeta", "open Capella.Decl", ""]
    for ci, ch in enumerate(hchunks):
        lines.append(f"def hints{ci} : List (Str × Option Str) := [")
        lines += [f"  ({chars(h)}, {opt(c)})," for h, c in ch]
        lines[-1] = lines[-1].rstrip(",")
        lines += ["]", ""]
    lines.append("def hints : List (Str × Option Str) := " + (" ++ ".join(f"hints{i}" for i in range(len(hchunks))) or "[]"))
    lines.append("def attrs : List ((Str × Str) × AttrKind) := " +
                 (" ++ ".join(f"Capella.Gen.DeclMeta{i}.rows" for i in range(nfiles)) or "[]"))
    lines += ["",
              "/-- the metamodel `decl` runs against, as the live classes define it -/",
              "def mm : MM := MM.ofTable attrs hints", "",
              "/-- a hint that selects a class: the class name is itself a hint and selects the same class",
              "(`i` = where the generator says that hint stands in `hints`) -/",
              "def hintOK (h : (Str × Option Str) × Nat) : Bool :=",
              "  match h.1.2 with",
              "  | none => true",
              "  | some c => hints[h.2]? == some (c, some c)", "",
              "/-- a list that creates without a hint creates a class that can also be asked for by name -/",
              "def rowOK (r : ((Str × Str) × AttrKind) × Nat) : Bool :=",
              "  match r.1.2 with",
              "  | .coupled (.xtype (some d)) _ _ => hints[r.2]? == some (d, some d)",
              "  | _ => true", ""]
    pos = {h: i for i, (h, _) in enumerate(hints)}
    for ci, ch in enumerate(hchunks):
        idx = ", ".join(str(pos.get(c, 0) if c is not None else 0) for _, c in ch)
        lines.append(f"theorem hints{ci}_ok : (hints{ci}.zip [{idx}]).all hintOK = true := by decide +kernel")
    for fi in range(nfiles):
        for ci, ch in enumerate(chunks[fi * per_file:(fi + 1) * per_file]):
            idx = ", ".join(str(pos.get(k[1][1], 0)) if (k[0] == "coupled" and k[1][0] == "xtype" and k[1][1]) else "0"
                            for _, _, k in ch)
            lines.append(f"theorem rows{fi}_{ci}_ok : (Capella.Gen.DeclMeta{fi}.rows{ci}.zip [{idx}]).all rowOK = true := by decide +kernel")
    lines += ["", "end Capella.Gen.DeclMeta", ""]
    kinds: dict[str, int] = {}
    for _, _, k in rows:
        key = k[0] if k[0] == "uncoupled" else "coupled:" + k[1][0] + (":" + str(k[1][1]) if k[1][0] == "other" else "")
        kinds[key] = kinds.get(key, 0) + 1
    files.append(("DeclMeta.lean", "\n".join(lines),
                  {"rows": len(rows), "hints": len(hints), "ambiguous_hints": sum(1 for _, c in hints if c is None),
                   "kinds": kinds, "obligations": len(hchunks) + len(chunks)}))
    del out
    return files


if __name__ == "__main__":
    for name, content, info in generate():
        print(name, info, len(content))
