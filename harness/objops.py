"""Seeded generator of API-level edit operations on a loaded model (used by C03/C04/C08/C09)."""

from __future__ import annotations

import random
import typing as t

import objlayer as ol

CONTAIN = ("DirectProxyAccessor", "RoleTagAccessor", "AttributeMatcherAccessor")
LINKS = ("LinkAccessor", "AttrProxyAccessor", "PhysicalLinkEndsAccessor", "TypecastAccessor",
         "RequirementsRelationAccessor", "ElementRelationAccessor")

STRINGS = ["x", "", "a b", "<&>\"'", "é ü", "tab\there", "line\nbreak", "\U0001F600", "]]>", "&amp;", " lead", "trail "]


class Relation(t.NamedTuple):
    owner: t.Any
    attr: str
    kind: str
    acc: t.Any

    def get(self):
        return getattr(self.owner, self.attr)

    def key(self) -> str:
        return f"{type(self.owner).__name__}.{self.attr}[{self.kind}]"


def discover(model, rng: random.Random, max_objs: int = 400) -> list[Relation]:
    objs = ol.all_objects(model)
    if len(objs) > max_objs:
        objs = rng.sample(objs, max_objs)
    rels = []
    for obj, attr, acc, _lst in ol.coupled_relations(model, objs):
        rels.append(Relation(obj, attr, ol.accessor_kind(acc), acc))
    return rels


def candidates_for(model, rel: Relation, rng: random.Random, n: int = 8) -> list:
    """existing objects that could be put into the relation (by the accessor's declared class)"""
    cls = getattr(rel.acc, "class_", None)
    try:
        pool = list(model.search(cls)) if cls is not None and cls.__name__ not in ("ModelElement", "GenericElement") else []
    except Exception:
        pool = []
    if not pool:
        pool = ol.all_objects(model)
    if len(pool) > n:
        pool = rng.sample(pool, n)
    return pool


class Step(t.NamedTuple):
    op: str
    rel: Relation | None
    args: dict
    run: t.Callable[[], t.Any]


def gen_step(model, rels: list[Relation], rng: random.Random, weights: dict[str, int] | None = None) -> Step:
    """Pick one operation. `run` performs it on the implementation (may raise)."""
    w = {"create": 4, "delitem": 3, "insert": 3, "setitem": 1, "append": 2, "remove": 2, "setattr": 2, "clear": 1}
    if weights:
        w.update(weights)
    for _ in range(50):
        rel = rng.choice(rels)
        try:
            lst = rel.get()
        except Exception:
            continue
        n = len(lst)
        op = rng.choices(list(w), list(w.values()))[0]
        if op == "create" and rel.kind in CONTAIN:
            name = rng.choice(STRINGS)
            kw = {"name": name}
            want = None
            if rng.random() < 0.2:
                want = "%08x-%04x-%04x-%04x-%012x" % (rng.getrandbits(32), rng.getrandbits(16), rng.getrandbits(16), rng.getrandbits(16), rng.getrandbits(48))
                kw["uuid"] = want
            bad = rng.random() < 0.15
            if bad:
                kw["no_such_attribute_xyz"] = 1
            return Step("create", rel, {"kw": {k: v for k, v in kw.items()}, "bad": bad},
                        lambda lst=lst, kw=kw: lst.create(**kw))
        if op == "delitem" and n > 0:
            i = rng.randrange(-n, n)
            return Step("delitem", rel, {"i": i, "uuid": lst[i].uuid if hasattr(lst[i], "uuid") else None},
                        lambda lst=lst, i=i: lst.__delitem__(i))
        if op == "remove" and n > 0:
            x = lst[rng.randrange(n)]
            return Step("remove", rel, {"uuid": getattr(x, "uuid", None)}, lambda lst=lst, x=x: lst.remove(x))
        if op in ("insert", "append", "setitem"):
            if rel.kind in CONTAIN:
                # move an existing object from a sibling relation of the same accessor
                others = [r for r in rels if r.acc is rel.acc and r.owner is not rel.owner]
                src = None
                for r in rng.sample(others, min(len(others), 5)):
                    try:
                        ol_ = r.get()
                    except Exception:
                        continue
                    if len(ol_):
                        src = ol_[rng.randrange(len(ol_))]
                        break
                if src is None:
                    continue
                # never move an ancestor of the new owner into its own subtree
                anc = set()
                e = rel.owner._element
                while e is not None:
                    anc.add(id(e))
                    e = e.getparent()
                if id(src._element) in anc:
                    continue
                x = src
            else:
                cands = candidates_for(model, rel, rng)
                if not cands:
                    continue
                x = rng.choice(cands)
            if op == "append":
                return Step("append", rel, {"uuid": getattr(x, "uuid", None)}, lambda lst=lst, x=x: lst.append(x))
            if op == "insert":
                i = rng.randrange(-n - 1, n + 2)
                return Step("insert", rel, {"i": i, "uuid": getattr(x, "uuid", None)}, lambda lst=lst, i=i, x=x: lst.insert(i, x))
            if n > 0:
                i = rng.randrange(-n, n)
                return Step("setitem", rel, {"i": i, "uuid": getattr(x, "uuid", None)}, lambda lst=lst, i=i, x=x: lst.__setitem__(i, x))
        if op == "setattr":
            objs = [x for x in lst] if n else [rel.owner]
            o = rng.choice(objs)
            attr = rng.choice(["name", "description"])
            v = rng.choice(STRINGS)
            return Step("setattr", None, {"uuid": getattr(o, "uuid", None), "attr": attr, "value": v},
                        lambda o=o, attr=attr, v=v: setattr(o, attr, v))
        if op == "clear" and 0 < n <= 4 and rel.kind in LINKS:
            return Step("clear", rel, {}, lambda rel=rel: setattr(rel.owner, rel.attr, []))
    return Step("noop", None, {}, lambda: None)
