"""Seeded generator of API-level edit operations on a loaded model (used by C03/C04/C08/C09)."""

from __future__ import annotations

import random
import typing as t

import objlayer as ol

CONTAIN = ("DirectProxyAccessor", "RoleTagAccessor", "AttributeMatcherAccessor")
LINKS = ("LinkAccessor", "AttrProxyAccessor", "PhysicalLinkEndsAccessor", "TypecastAccessor",
         "RequirementsRelationAccessor", "ElementRelationAccessor")

STRINGS = ["x", "", "a b", "<&>\"'", "é ü", "tab\there", "line\nbreak", "\U0001F600", "]]>", "&amp;", " lead", "trail "]


SAME_RESOURCE_MOVES = False  # set by checks whose domain excludes moves between resources
MEMBER_AGAIN = 0.0           # probability of offering a current member again to a (non-unique) attribute-link list
PREFER_INTERLEAVED = 0.0     # probability of picking an owner whose list members are interleaved with other child kinds


class Relation(t.NamedTuple):
    owner: t.Any
    attr: str
    kind: str
    acc: t.Any

    def get(self):
        return getattr(self.owner, self.attr)

    def key(self) -> str:
        return f"{type(self.owner).__name__}.{self.attr}[{self.kind}]"

    @property
    def contain(self) -> bool:
        """members are child elements of the owner (DirectProxy and subclasses, RoleTag)"""
        from capellambse.model import _descriptors as D

        return isinstance(self.acc, (D.DirectProxyAccessor, D.RoleTagAccessor))


def discover(model, rng: random.Random, max_objs: int = 400) -> list[Relation]:
    objs = ol.all_objects(model)
    if len(objs) > max_objs:
        objs = rng.sample(objs, max_objs)
    rels = []
    for obj, attr, acc, _lst in ol.coupled_relations(model, objs):
        rels.append(Relation(obj, attr, ol.accessor_kind(acc), acc))
    return rels


def candidates_for(model, rel: Relation, rng: random.Random, n: int = 8) -> list:
    """existing objects that could be put into the relation (by the accessor's declared class)"""
    cls = getattr(rel.acc, "class_", None)
    try:
        pool = list(model.search(cls)) if cls is not None and cls.__name__ not in ("ModelElement", "GenericElement") else []
    except Exception:
        pool = []
    if not pool:
        pool = ol.all_objects(model)
    if len(pool) > n:
        pool = rng.sample(pool, n)
    return pool


_NESTED_CACHE: dict = {}


_INTER_CACHE: dict = {}
_HANDLES: dict = {}


def is_interleaved(rel: Relation) -> bool:
    """members of the list do not form one block at the end of the owner's children"""
    try:
        members = {id(x._element) for x in rel.get()}
    except Exception:
        return False
    kids = [id(c) for c in rel.owner._element]
    pos = [i for i, k in enumerate(kids) if k in members]
    if len(pos) < 2:
        return False
    return (max(pos) - min(pos) + 1 != len(pos)) or max(pos) != len(kids) - 1


def nested_slots(rel: Relation) -> list[tuple[str, str]]:
    """(attribute, type hint) pairs of single-valued containment attributes of the relation's element class"""
    from capellambse.model import _descriptors as D

    cls = getattr(rel.acc, "class_", None)
    if cls in _NESTED_CACHE:
        return _NESTED_CACHE[cls]
    out: list = []
    _NESTED_CACHE[cls] = out
    if cls is None:
        return out
    for attr in dir(cls):
        if attr.startswith("_"):
            continue
        try:
            acc = getattr(cls, attr)
        except Exception:
            continue
        if isinstance(acc, D.RoleTagAccessor) and acc.aslist is None:
            if acc.classes:
                out.append((attr, acc.classes[0].__name__))
            elif attr in ("min_card", "max_card", "default_value", "min_value", "max_value", "null_value", "min_length", "max_length"):
                out.append((attr, "LiteralNumericValue"))
    return out


def discover_for(model, obj) -> list[Relation]:
    return [Relation(o, a, ol.accessor_kind(acc), acc) for o, a, acc, _ in ol.coupled_relations(model, [obj])]


def referenced_target(model, rng: random.Random):
    """an object that some link element or link attribute points at (raw scan of '#<id>' tokens)"""
    import re

    from capellambse.model import _obj as O

    targets: dict[str, int] = {}
    for tree in model._loader.trees.values():
        if tree.fragment_type.name != "SEMANTIC":
            continue
        for e in tree.root.iter():
            if not isinstance(e.tag, str):
                continue
            for k, v in e.attrib.items():
                if k == "id" or "#" not in v:
                    continue
                for m in re.finditer(r"#([0-9a-f-]{36})", v):
                    targets[m.group(1)] = targets.get(m.group(1), 0) + 1
    if not targets:
        return None
    ids = sorted(targets)
    for _ in range(10):
        k = rng.choice(ids)
        try:
            e = model._loader[k]
        except Exception:
            continue
        if e.getparent() is None or e.get("id") is None:
            continue
        try:
            obj = O.ModelElement.from_model(model, e)
            if obj.parent is None:
                continue
            return obj
        except Exception:
            continue
    return None


class Step(t.NamedTuple):
    op: str
    rel: Relation | None
    args: dict
    run: t.Callable[[], t.Any]


def gen_step(model, rels: list[Relation], rng: random.Random, weights: dict[str, int] | None = None) -> Step:
    """Pick one operation. `run` performs it on the implementation (may raise)."""
    w = {"create": 4, "delitem": 3, "insert": 3, "setitem": 1, "append": 2, "remove": 2, "setattr": 2, "clear": 1,
         "create_clash": 1, "create_nested": 2, "delete_referenced": 2, "role_set": 2, "move_over_placeholder": 2, "assign": 0}
    if weights:
        w.update(weights)
    for _ in range(50):
        rel = rng.choice(rels)
        if PREFER_INTERLEAVED and rng.random() < PREFER_INTERLEAVED:
            key = id(rels)
            if key not in _INTER_CACHE:
                _INTER_CACHE.clear()
                _INTER_CACHE[key] = [r for r in rels if r.contain and is_interleaved(r)]
            inter = [r for r in _INTER_CACHE[key] if is_interleaved(r)] if len(_INTER_CACHE[key]) < 30 else _INTER_CACHE[key]
            if inter:
                rel = rng.choice(inter)
        try:
            lst = rel.get()
        except Exception:
            continue
        n = len(lst)
        op = rng.choices(list(w), list(w.values()))[0]
        if op == "create" and rel.contain:
            name = rng.choice(STRINGS)
            kw = {"name": name}
            want = None
            if rng.random() < 0.2:
                want = "%08x-%04x-%04x-%04x-%012x" % (rng.getrandbits(32), rng.getrandbits(16), rng.getrandbits(16), rng.getrandbits(16), rng.getrandbits(48))
                kw["uuid"] = want
            bad = rng.random() < 0.15
            if bad:
                kw["no_such_attribute_xyz"] = 1
            hint = ()
            if rng.random() < 0.1:   # a type hint that matches no class
                hint = ("NoSuchClassXyz",)
                bad = True
            return Step("create", rel, {"kw": {k: v for k, v in kw.items()}, "bad": bad, "hint": list(hint)},
                        lambda lst=lst, kw=kw, hint=hint: lst.create(*hint, **kw))
        if op == "create_clash" and rel.contain:
            objs = ol.all_objects(model)
            clash = rng.choice(objs).uuid
            return Step("create_clash", rel, {"kw": {"name": "clash", "uuid": clash}, "bad": True},
                        lambda lst=lst, clash=clash: lst.create(name="clash", uuid=clash))
        if op == "create_nested":
            cands = [r for r in rels if r.contain and nested_slots(r)]
            if not cands:
                continue
            rel = rng.choice(cands)
            try:
                lst = rel.get()
            except Exception:
                continue
            nested = nested_slots(rel)
            attr, hint = rng.choice(nested)
            from capellambse.model import NewObject
            inner = "%08x-%04x-%04x-%04x-%012x" % (rng.getrandbits(32), rng.getrandbits(16), rng.getrandbits(16), rng.getrandbits(16), rng.getrandbits(48))
            fail = rng.random() < 0.6
            kw = {"name": "outer", attr: NewObject(hint, uuid=inner)}
            if fail:
                kw["no_such_attribute_xyz"] = 1
            return Step("create_nested", rel, {"kw": {"name": "outer", attr: f"NewObject({hint})"}, "uuid": inner, "bad": fail},
                        lambda lst=lst, kw=kw: lst.create(**kw))
        if op == "assign" and n >= 1 and type(rel.acc).__name__ == "LinkAccessor" and getattr(rel.acc, "tag", None):
            # whole-relation assignment on a link-element relation: a sub-sequence in random order, or (rejected)
            # the members plus a duplicate when the relation enforces uniqueness
            members = list(lst)
            if getattr(rel.acc, "unique", False) and rng.random() < 0.4:
                new = [*members, members[0]]
                return Step("assign_dup", rel, {"new_uuids": [m.uuid for m in new]},
                            lambda rel=rel, new=new: setattr(rel.owner, rel.attr, new))
            keep = rng.sample(members, rng.randrange(1, n + 1))
            rng.shuffle(keep)
            return Step("assign", rel, {"new_uuids": [m.uuid for m in keep]},
                        lambda rel=rel, keep=keep: setattr(rel.owner, rel.attr, keep))
        if op == "assign" and rel.contain and n >= 2 and type(rel.acc).__name__ != "RoleTagAccessor":
            # whole-list assignment: a random sub-sequence of the members in random order, sometimes with one moved-in object
            members = list(lst)
            keep = rng.sample(members, rng.randrange(1, n + 1))
            rng.shuffle(keep)
            return Step("assign", rel, {"new_uuids": [m.uuid for m in keep]},
                        lambda rel=rel, keep=keep: setattr(rel.owner, rel.attr, keep))
        if op == "move_over_placeholder":
            # fragmented layouts only: move an element that has a fragment placeholder somewhere below it
            from capellambse.model import _obj as O
            phs = [e for tr in model._loader.trees.values() if tr.fragment_type.name == "SEMANTIC"
                   for e in tr.root.iter() if isinstance(e.tag, str) and e.get("href") is not None and e.get("id") is None]
            if not phs:
                continue
            ph = rng.choice(phs)
            ancs = [a for a in ph.iterancestors() if a.get("id") and a.getparent() is not None and a.getparent().getparent() is not None]
            if not ancs:
                continue
            a = rng.choice(ancs[:3])
            try:
                obj = O.ModelElement.from_model(model, a)
                par = obj.parent
            except Exception:
                continue
            src_rel = None
            for r in discover_for(model, par):
                if r.contain:
                    try:
                        if obj in r.get():
                            src_rel = r
                            break
                    except Exception:
                        continue
            if src_rel is None:
                continue
            inside = {id(x) for x in a.iter()}
            dests = [r for r in rels if r.acc is src_rel.acc and id(r.owner._element) not in inside and r.owner is not par]
            if not dests:
                continue
            d = rng.choice(dests)
            if SAME_RESOURCE_MOVES:
                ff = model._loader.find_fragment
                try:
                    if ff(a).parts[0] != ff(d.owner._element).parts[0]:
                        continue
                except ValueError:
                    continue  # a stale relation: its owner was deleted by an earlier step (same rule as for plain moves)
            try:
                dl = d.get()
            except Exception:
                continue
            i = rng.randrange(0, len(dl) + 1)
            return Step("insert", d, {"i": i, "uuid": getattr(obj, "uuid", None), "over_placeholder": True},
                        lambda dl=dl, i=i, obj=obj: dl.insert(i, obj))
        if op == "role_set":
            # (re)assign a single-valued role attribute with a NewObject, possibly of another class than the current one
            cands = [r for r in rels if r.contain and nested_slots(r)]
            if not cands:
                continue
            r2 = rng.choice(cands)
            try:
                l2 = r2.get()
            except Exception:
                continue
            if not len(l2):
                continue
            o = l2[rng.randrange(len(l2))]
            attr, hint = rng.choice(nested_slots(r2))
            # prefer a slot that is already filled, and a class different from the current one (role replacement)
            filled = []
            for cand in list(l2)[:12]:
                for a, h in nested_slots(r2):
                    try:
                        cur = getattr(cand, a)
                    except Exception:
                        continue
                    if cur is not None:
                        filled.append((cand, a, h, type(cur).__name__))
            cur_cls = None
            if filled and rng.random() < 0.7:
                o, attr, hint, cur_cls = rng.choice(filled)
            if hint == "LiteralNumericValue":
                hint = rng.choice([h for h in ("LiteralNumericValue", "LiteralStringValue", "LiteralBooleanValue") if h != cur_cls])
            from capellambse.model import NewObject
            return Step("role_set", None, {"uuid": getattr(o, "uuid", None), "attr": attr, "hint": hint},
                        lambda o=o, attr=attr, hint=hint: setattr(o, attr, NewObject(hint)))
        if op == "delete_referenced":
            tgt = referenced_target(model, rng)
            if tgt is None:
                continue
            parent = tgt.parent
            for r in discover_for(model, parent):
                if not r.contain:
                    continue
                try:
                    l2 = r.get()
                except Exception:
                    continue
                if tgt in l2:
                    return Step("delete_referenced", r, {"uuid": tgt.uuid}, lambda l2=l2, tgt=tgt: l2.remove(tgt))
            continue
        if op == "delitem" and n > 0:
            i = rng.randrange(-n, n)
            return Step("delitem", rel, {"i": i, "uuid": lst[i].uuid if hasattr(lst[i], "uuid") else None},
                        lambda lst=lst, i=i: lst.__delitem__(i))
        if op == "remove" and n > 0:
            x = lst[rng.randrange(n)]
            return Step("remove", rel, {"uuid": getattr(x, "uuid", None)}, lambda lst=lst, x=x: lst.remove(x))
        if op in ("insert", "append", "setitem"):
            if rel.contain:
                # move an existing object from a sibling relation of the same accessor
                others = [r for r in rels if r.acc is rel.acc and r.owner is not rel.owner]
                src = None
                for r in rng.sample(others, min(len(others), 5)):
                    try:
                        ol_ = r.get()
                    except Exception:
                        continue
                    if len(ol_):
                        src = ol_[rng.randrange(len(ol_))]
                        break
                if src is None:
                    continue
                # never move an ancestor of the new owner into its own subtree
                anc = set()
                e = rel.owner._element
                while e is not None:
                    anc.add(id(e))
                    e = e.getparent()
                if id(src._element) in anc:
                    continue
                if SAME_RESOURCE_MOVES:
                    ff = model._loader.find_fragment
                    try:
                        if ff(src._element).parts[0] != ff(rel.owner._element).parts[0]:
                            continue  # library resources are not written by save(): such a move cannot persist
                    except ValueError:
                        continue  # a stale relation: its owner was deleted by an earlier step
                x = src
            else:
                cands = candidates_for(model, rel, rng)
                if not cands:
                    continue
                x = rng.choice(cands)
                if MEMBER_AGAIN and n and rel.kind == "AttrProxyAccessor" and op in ("insert", "append") and rng.random() < MEMBER_AGAIN:
                    x = lst[rng.randrange(n)]   # a plain Python list holds the same object twice; so does an attribute-link list
            # sometimes operate through a list object fetched earlier (a second, outdated handle)
            hkey = (id(rel.owner._element), rel.attr)
            stale = _HANDLES.get(hkey)
            _HANDLES[hkey] = lst
            use_stale = stale is not None and not rel.contain and rng.random() < 0.35
            if use_stale and op in ("append", "insert"):
                x2 = None
                fresh_members = [m for m in lst if m not in stale]
                if fresh_members and rng.random() < 0.7:
                    x2 = rng.choice(fresh_members)   # added through another handle meanwhile
                if x2 is not None:
                    x = x2
                return Step("append", rel, {"uuid": getattr(x, "uuid", None), "stale_handle": True},
                            lambda stale=stale, x=x: stale.append(x))
            if op == "append":
                return Step("append", rel, {"uuid": getattr(x, "uuid", None)}, lambda lst=lst, x=x: lst.append(x))
            if op == "insert":
                i = rng.randrange(-n - 1, n + 2)
                return Step("insert", rel, {"i": i, "uuid": getattr(x, "uuid", None)}, lambda lst=lst, i=i, x=x: lst.insert(i, x))
            if n > 0:
                i = rng.randrange(-n, n)
                return Step("setitem", rel, {"i": i, "uuid": getattr(x, "uuid", None)}, lambda lst=lst, i=i, x=x: lst.__setitem__(i, x))
        if op == "setattr":
            objs = [x for x in lst] if n else [rel.owner]
            o = rng.choice(objs)
            attr = rng.choice(["name", "description"])
            v = rng.choice(STRINGS)
            return Step("setattr", None, {"uuid": getattr(o, "uuid", None), "attr": attr, "value": v},
                        lambda o=o, attr=attr, v=v: setattr(o, attr, v))
        if op == "clear" and 0 < n <= 4 and rel.kind in LINKS:
            return Step("clear", rel, {}, lambda rel=rel: setattr(rel.owner, rel.attr, []))
    return Step("noop", None, {}, lambda: None)
