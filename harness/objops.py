"""Seeded generator of API-level edit operations on a loaded model (used by C03/C04/C08/C09)."""

from __future__ import annotations

import random
import typing as t

import objlayer as ol

CONTAIN = ("DirectProxyAccessor", "RoleTagAccessor", "AttributeMatcherAccessor")
LINKS = ("LinkAccessor", "AttrProxyAccessor", "PhysicalLinkEndsAccessor", "TypecastAccessor",
         "RequirementsRelationAccessor", "ElementRelationAccessor")

STRINGS = ["x", "", "a b", "<&>\"'", "é ü", "tab\there", "line\nbreak", "\U0001F600", "]]>", "&amp;", " lead", "trail "]


SAME_RESOURCE_MOVES = False  # set by checks whose domain excludes moves between resources
MEMBER_AGAIN = 0.0           # probability of offering a current member again to a (non-unique) attribute-link list
PREFER_INTERLEAVED = 0.0     # probability of picking an owner whose list members are interleaved with other child kinds
EQ_OVERRIDE = 0.0            # probability of steering a step to a list whose member class overrides equality (see eq_step)
SCRIPT: list | None = None   # [(owner element, attribute, operation)]: a scripted history over such lists (see eq_script)


class Relation(t.NamedTuple):
    owner: t.Any
    attr: str
    kind: str
    acc: t.Any

    def get(self):
        return getattr(self.owner, self.attr)

    def key(self) -> str:
        return f"{type(self.owner).__name__}.{self.attr}[{self.kind}]"

    @property
    def contain(self) -> bool:
        """members are child elements of the owner (DirectProxy and subclasses, RoleTag)"""
        from capellambse.model import _descriptors as D

        return isinstance(self.acc, (D.DirectProxyAccessor, D.RoleTagAccessor))


def discover(model, rng: random.Random, max_objs: int = 400) -> list[Relation]:
    objs = ol.all_objects(model)
    if len(objs) > max_objs:
        objs = rng.sample(objs, max_objs)
    rels = []
    for obj, attr, acc, _lst in ol.coupled_relations(model, objs):
        rels.append(Relation(obj, attr, ol.accessor_kind(acc), acc))
    return rels


def candidates_for(model, rel: Relation, rng: random.Random, n: int = 8) -> list:
    """existing objects that could be put into the relation (by the accessor's declared class)"""
    cls = getattr(rel.acc, "class_", None)
    try:
        pool = list(model.search(cls)) if cls is not None and cls.__name__ not in ("ModelElement", "GenericElement") else []
    except Exception:
        pool = []
    if not pool:
        pool = ol.all_objects(model)
    if len(pool) > n:
        pool = rng.sample(pool, n)
    return pool


_NESTED_CACHE: dict = {}


_INTER_CACHE: dict = {}
_HANDLES: dict = {}


def is_interleaved(rel: Relation) -> bool:
    """members of the list do not form one block at the end of the owner's children"""
    try:
        members = {id(x._element) for x in rel.get()}
    except Exception:
        return False
    kids = [id(c) for c in rel.owner._element]
    pos = [i for i, k in enumerate(kids) if k in members]
    if len(pos) < 2:
        return False
    return (max(pos) - min(pos) + 1 != len(pos)) or max(pos) != len(kids) - 1


def nested_slots(rel: Relation) -> list[tuple[str, str]]:
    """(attribute, type hint) pairs of single-valued containment attributes of the relation's element class"""
    from capellambse.model import _descriptors as D

    cls = getattr(rel.acc, "class_", None)
    if cls in _NESTED_CACHE:
        return _NESTED_CACHE[cls]
    out: list = []
    _NESTED_CACHE[cls] = out
    if cls is None:
        return out
    for attr in dir(cls):
        if attr.startswith("_"):
            continue
        try:
            acc = getattr(cls, attr)
        except Exception:
            continue
        if isinstance(acc, D.RoleTagAccessor) and acc.aslist is None:
            if acc.classes:
                out.append((attr, acc.classes[0].__name__))
            elif attr in ("min_card", "max_card", "default_value", "min_value", "max_value", "null_value", "min_length", "max_length"):
                out.append((attr, "LiteralNumericValue"))
    return out


def discover_for(model, obj) -> list[Relation]:
    return [Relation(o, a, ol.accessor_kind(acc), acc) for o, a, acc, _ in ol.coupled_relations(model, [obj])]


def referenced_target(model, rng: random.Random):
    """an object that some link element or link attribute points at (raw scan of '#<id>' tokens)"""
    import re

    from capellambse.model import _obj as O

    targets: dict[str, int] = {}
    for tree in model._loader.trees.values():
        if tree.fragment_type.name != "SEMANTIC":
            continue
        for e in tree.root.iter():
            if not isinstance(e.tag, str):
                continue
            for k, v in e.attrib.items():
                if k == "id" or "#" not in v:
                    continue
                for m in re.finditer(r"#([0-9a-f-]{36})", v):
                    targets[m.group(1)] = targets.get(m.group(1), 0) + 1
    if not targets:
        return None
    ids = sorted(targets)
    for _ in range(10):
        k = rng.choice(ids)
        try:
            e = model._loader[k]
        except Exception:
            continue
        if e.getparent() is None or e.get("id") is None:
            continue
        try:
            obj = O.ModelElement.from_model(model, e)
            if obj.parent is None:
                continue
            return obj
        except Exception:
            continue
    return None


class Step(t.NamedTuple):
    op: str
    rel: Relation | None
    args: dict
    run: t.Callable[[], t.Any]


def gen_step(model, rels: list[Relation], rng: random.Random, weights: dict[str, int] | None = None) -> Step:
    """Pick one operation. `run` performs it on the implementation (may raise)."""
    w = {"create": 4, "delitem": 3, "insert": 3, "setitem": 1, "append": 2, "remove": 2, "setattr": 2, "clear": 1,
         "create_clash": 1, "create_nested": 2, "delete_referenced": 2, "role_set": 2, "move_over_placeholder": 2, "assign": 0}
    if weights:
        w.update(weights)
    if SCRIPT is not None:
        # a scripted history (equality-overriding lists: every operation in turn on every such relation)
        while SCRIPT:
            el, attr, op = SCRIPT.pop(0)
            rel = next((r for r in eq_relations_of(model, el) if r.attr == attr), None)
            st = eq_step(model, rng, w, rel=rel, op=op) if rel is not None else None
            if st is not None:
                return st
        model._verif_stop = True
        return Step("noop", None, {}, lambda: None)
    if EQ_OVERRIDE and rng.random() < EQ_OVERRIDE:
        st = eq_step(model, rng, w)
        if st is not None:
            return st
    for _ in range(50):
        rel = rng.choice(rels)
        if PREFER_INTERLEAVED and rng.random() < PREFER_INTERLEAVED:
            key = id(rels)
            if key not in _INTER_CACHE:
                _INTER_CACHE.clear()
                _INTER_CACHE[key] = [r for r in rels if r.contain and is_interleaved(r)]
            inter = [r for r in _INTER_CACHE[key] if is_interleaved(r)] if len(_INTER_CACHE[key]) < 30 else _INTER_CACHE[key]
            if inter:
                rel = rng.choice(inter)
        try:
            lst = rel.get()
        except Exception:
            continue
        n = len(lst)
        op = rng.choices(list(w), list(w.values()))[0]
        if op == "create" and rel.contain:
            name = rng.choice(STRINGS)
            kw = {"name": name}
            want = None
            if rng.random() < 0.2:
                want = "%08x-%04x-%04x-%04x-%012x" % (rng.getrandbits(32), rng.getrandbits(16), rng.getrandbits(16), rng.getrandbits(16), rng.getrandbits(48))
                kw["uuid"] = want
            bad = rng.random() < 0.15
            if bad:
                kw["no_such_attribute_xyz"] = 1
            hint = ()
            if rng.random() < 0.1:   # a type hint that matches no class
                hint = ("NoSuchClassXyz",)
                bad = True
            return Step("create", rel, {"kw": {k: v for k, v in kw.items()}, "bad": bad, "hint": list(hint)},
                        lambda lst=lst, kw=kw, hint=hint: lst.create(*hint, **kw))
        if op == "create_clash" and rel.contain:
            objs = ol.all_objects(model)
            clash = rng.choice(objs).uuid
            return Step("create_clash", rel, {"kw": {"name": "clash", "uuid": clash}, "bad": True},
                        lambda lst=lst, clash=clash: lst.create(name="clash", uuid=clash))
        if op == "create_nested":
            cands = [r for r in rels if r.contain and nested_slots(r)]
            if not cands:
                continue
            rel = rng.choice(cands)
            try:
                lst = rel.get()
            except Exception:
                continue
            nested = nested_slots(rel)
            attr, hint = rng.choice(nested)
            from capellambse.model import NewObject
            inner = "%08x-%04x-%04x-%04x-%012x" % (rng.getrandbits(32), rng.getrandbits(16), rng.getrandbits(16), rng.getrandbits(16), rng.getrandbits(48))
            fail = rng.random() < 0.6
            kw = {"name": "outer", attr: NewObject(hint, uuid=inner)}
            if fail:
                kw["no_such_attribute_xyz"] = 1
            return Step("create_nested", rel, {"kw": {"name": "outer", attr: f"NewObject({hint})"}, "uuid": inner, "bad": fail},
                        lambda lst=lst, kw=kw: lst.create(**kw))
        if op == "assign" and n >= 1 and type(rel.acc).__name__ == "LinkAccessor" and getattr(rel.acc, "tag", None):
            # whole-relation assignment on a link-element relation: a sub-sequence in random order, or (rejected)
            # the members plus a duplicate when the relation enforces uniqueness
            members = list(lst)
            if getattr(rel.acc, "unique", False) and rng.random() < 0.4:
                new = [*members, members[0]]
                return Step("assign_dup", rel, {"new_uuids": [m.uuid for m in new]},
                            lambda rel=rel, new=new: setattr(rel.owner, rel.attr, new))
            keep = rng.sample(members, rng.randrange(1, n + 1))
            rng.shuffle(keep)
            return Step("assign", rel, {"new_uuids": [m.uuid for m in keep]},
                        lambda rel=rel, keep=keep: setattr(rel.owner, rel.attr, keep))
        if op == "assign" and rel.contain and n >= 2 and type(rel.acc).__name__ != "RoleTagAccessor":
            # whole-list assignment: a random sub-sequence of the members in random order, sometimes with one moved-in object
            members = list(lst)
            keep = rng.sample(members, rng.randrange(1, n + 1))
            rng.shuffle(keep)
            return Step("assign", rel, {"new_uuids": [m.uuid for m in keep]},
                        lambda rel=rel, keep=keep: setattr(rel.owner, rel.attr, keep))
        if op == "move_over_placeholder":
            # fragmented layouts only: move an element that has a fragment placeholder somewhere below it
            from capellambse.model import _obj as O
            phs = [e for tr in model._loader.trees.values() if tr.fragment_type.name == "SEMANTIC"
                   for e in tr.root.iter() if isinstance(e.tag, str) and e.get("href") is not None and e.get("id") is None]
            if not phs:
                continue
            ph = rng.choice(phs)
            ancs = [a for a in ph.iterancestors() if a.get("id") and a.getparent() is not None and a.getparent().getparent() is not None]
            if not ancs:
                continue
            a = rng.choice(ancs[:3])
            try:
                obj = O.ModelElement.from_model(model, a)
                par = obj.parent
            except Exception:
                continue
            src_rel = None
            for r in discover_for(model, par):
                if r.contain:
                    try:
                        if obj in r.get():
                            src_rel = r
                            break
                    except Exception:
                        continue
            if src_rel is None:
                continue
            inside = {id(x) for x in a.iter()}
            dests = [r for r in rels if r.acc is src_rel.acc and id(r.owner._element) not in inside and r.owner is not par]
            if not dests:
                continue
            d = rng.choice(dests)
            if SAME_RESOURCE_MOVES:
                ff = model._loader.find_fragment
                try:
                    if ff(a).parts[0] != ff(d.owner._element).parts[0]:
                        continue
                except ValueError:
                    continue  # a stale relation: its owner was deleted by an earlier step (same rule as for plain moves)
            try:
                dl = d.get()
            except Exception:
                continue
            i = rng.randrange(0, len(dl) + 1)
            return Step("insert", d, {"i": i, "uuid": getattr(obj, "uuid", None), "over_placeholder": True},
                        lambda dl=dl, i=i, obj=obj: dl.insert(i, obj))
        if op == "role_set":
            # (re)assign a single-valued role attribute with a NewObject, possibly of another class than the current one
            cands = [r for r in rels if r.contain and nested_slots(r)]
            if not cands:
                continue
            r2 = rng.choice(cands)
            try:
                l2 = r2.get()
            except Exception:
                continue
            if not len(l2):
                continue
            o = l2[rng.randrange(len(l2))]
            attr, hint = rng.choice(nested_slots(r2))
            # prefer a slot that is already filled, and a class different from the current one (role replacement)
            filled = []
            for cand in list(l2)[:12]:
                for a, h in nested_slots(r2):
                    try:
                        cur = getattr(cand, a)
                    except Exception:
                        continue
                    if cur is not None:
                        filled.append((cand, a, h, type(cur).__name__))
            cur_cls = None
            if filled and rng.random() < 0.7:
                o, attr, hint, cur_cls = rng.choice(filled)
            if hint == "LiteralNumericValue":
                hint = rng.choice([h for h in ("LiteralNumericValue", "LiteralStringValue", "LiteralBooleanValue") if h != cur_cls])
            from capellambse.model import NewObject
            return Step("role_set", None, {"uuid": getattr(o, "uuid", None), "attr": attr, "hint": hint},
                        lambda o=o, attr=attr, hint=hint: setattr(o, attr, NewObject(hint)))
        if op == "delete_referenced":
            tgt = referenced_target(model, rng)
            if tgt is None:
                continue
            parent = tgt.parent
            for r in discover_for(model, parent):
                if not r.contain:
                    continue
                try:
                    l2 = r.get()
                except Exception:
                    continue
                if tgt in l2:
                    return Step("delete_referenced", r, {"uuid": tgt.uuid}, lambda l2=l2, tgt=tgt: l2.remove(tgt))
            continue
        if op == "delitem" and n > 0:
            i = rng.randrange(-n, n)
            return Step("delitem", rel, {"i": i, "uuid": lst[i].uuid if hasattr(lst[i], "uuid") else None},
                        lambda lst=lst, i=i: lst.__delitem__(i))
        if op == "remove" and n > 0:
            x = lst[rng.randrange(n)]
            return Step("remove", rel, {"uuid": getattr(x, "uuid", None)}, lambda lst=lst, x=x: lst.remove(x))
        if op in ("insert", "append", "setitem"):
            if rel.contain:
                # move an existing object from a sibling relation of the same accessor
                others = [r for r in rels if r.acc is rel.acc and r.owner is not rel.owner]
                src = None
                for r in rng.sample(others, min(len(others), 5)):
                    try:
                        ol_ = r.get()
                    except Exception:
                        continue
                    if len(ol_):
                        src = ol_[rng.randrange(len(ol_))]
                        break
                if src is None:
                    continue
                # never move an ancestor of the new owner into its own subtree
                anc = set()
                e = rel.owner._element
                while e is not None:
                    anc.add(id(e))
                    e = e.getparent()
                if id(src._element) in anc:
                    continue
                if SAME_RESOURCE_MOVES:
                    ff = model._loader.find_fragment
                    try:
                        if ff(src._element).parts[0] != ff(rel.owner._element).parts[0]:
                            continue  # library resources are not written by save(): such a move cannot persist
                    except ValueError:
                        continue  # a stale relation: its owner was deleted by an earlier step
                x = src
            else:
                cands = candidates_for(model, rel, rng)
                if not cands:
                    continue
                x = rng.choice(cands)
                if MEMBER_AGAIN and n and rel.kind == "AttrProxyAccessor" and op in ("insert", "append") and rng.random() < MEMBER_AGAIN:
                    x = lst[rng.randrange(n)]   # a plain Python list holds the same object twice; so does an attribute-link list
            # sometimes operate through a list object fetched earlier (a second, outdated handle)
            hkey = (id(rel.owner._element), rel.attr)
            stale = _HANDLES.get(hkey)
            _HANDLES[hkey] = lst
            use_stale = stale is not None and not rel.contain and rng.random() < 0.35
            if use_stale and op in ("append", "insert"):
                x2 = None
                fresh_members = [m for m in lst if m not in stale]
                if fresh_members and rng.random() < 0.7:
                    x2 = rng.choice(fresh_members)   # added through another handle meanwhile
                if x2 is not None:
                    x = x2
                return Step("append", rel, {"uuid": getattr(x, "uuid", None), "stale_handle": True},
                            lambda stale=stale, x=x: stale.append(x))
            if op == "append":
                return Step("append", rel, {"uuid": getattr(x, "uuid", None)}, lambda lst=lst, x=x: lst.append(x))
            if op == "insert":
                i = rng.randrange(-n - 1, n + 2)
                return Step("insert", rel, {"i": i, "uuid": getattr(x, "uuid", None)}, lambda lst=lst, i=i, x=x: lst.insert(i, x))
            if n > 0:
                i = rng.randrange(-n, n)
                return Step("setitem", rel, {"i": i, "uuid": getattr(x, "uuid", None)}, lambda lst=lst, i=i, x=x: lst.__setitem__(i, x))
        if op == "setattr":
            objs = [x for x in lst] if n else [rel.owner]
            o = rng.choice(objs)
            attr = rng.choice(["name", "description"])
            v = rng.choice(STRINGS)
            return Step("setattr", None, {"uuid": getattr(o, "uuid", None), "attr": attr, "value": v},
                        lambda o=o, attr=attr, v=v: setattr(o, attr, v))
        if op == "clear" and 0 < n <= 4 and rel.kind in LINKS:
            return Step("clear", rel, {}, lambda rel=rel: setattr(rel.owner, rel.attr, []))
    return Step("noop", None, {}, lambda: None)


# ------------------------------------------------------------------ lists whose members override equality
#
# `ModelElement.__eq__` is element identity, but a class may override it (`@attr_equal`: EnumerationLiteral by name, the
# ReqIF enum values / types by long_name - found here by REFLECTION, not by name): two DIFFERENT elements then compare
# equal. A model-coupled list must still hold exactly the elements a plain Python list of the same objects would hold;
# code that decides by `==` / `in` which member to keep, drop or skip confuses one member with the other. The steps
# below steer histories to such lists, make two distinct members (or a member and a moved-in object) compare equal, and
# then run the ordinary list operations on them.

_EQ_OWNERS: dict = {}


def overrides_eq(cls) -> bool:
    from capellambse.model import _obj as O

    return isinstance(cls, type) and issubclass(cls, O.ModelElement) and cls.__eq__ is not O.ModelElement.__eq__


def eq_key(cls) -> str | None:
    """the attribute an equality-overriding class compares by: read off the closure of the wrapper that replaced
    `__eq__` (and of what it wraps); a guess among the usual naming attributes otherwise"""
    f = vars(cls).get("__eq__") or cls.__eq__
    for _ in range(6):
        if f is None:
            break
        for c in getattr(f, "__closure__", None) or ():
            try:
                v = c.cell_contents
            except ValueError:
                continue
            if isinstance(v, str) and v.isidentifier() and hasattr(cls, v):
                return v
        f = getattr(f, "__wrapped__", None)
    for a in ("name", "long_name", "identifier"):
        if hasattr(cls, a):
            return a
    return None


def _declared_eq(acc) -> bool:
    cs = [getattr(acc, "class_", None), *(getattr(acc, "classes", None) or ())]
    return any(overrides_eq(c) for c in cs)


def eq_owner_elements(model) -> list:
    """XML elements that own (or may own) a list of equality-overriding objects: parents of such objects, elements
    (and parents of link elements) that refer to them, and objects whose class declares such a list. Raw scan."""
    import re

    key = id(model)
    if key in _EQ_OWNERS and _EQ_OWNERS[key][0] is model:
        return _EQ_OWNERS[key][1]
    from capellambse.model import _descriptors as D

    objs = ol.all_objects(model)
    eqids = {o.uuid for o in objs if overrides_eq(type(o))}
    out: dict = {}
    decl: dict = {}
    for o in objs:
        cls = type(o)
        if cls not in decl:
            decl[cls] = False
            for a in dir(cls):
                if a.startswith("_"):
                    continue
                try:
                    acc = getattr(cls, a)
                except Exception:
                    continue
                if isinstance(acc, D.WritableAccessor) and getattr(acc, "aslist", None) is not None and _declared_eq(acc):
                    decl[cls] = True
                    break
        e = o._element
        if decl[cls]:
            out[id(e)] = e
        if o.uuid in eqids and e.getparent() is not None:
            out[id(e.getparent())] = e.getparent()
    for tree in model._loader.trees.values():
        if tree.fragment_type.name != "SEMANTIC":
            continue
        for e in tree.root.iter():
            if not isinstance(e.tag, str):
                continue
            for k, v in e.attrib.items():
                if k != "id" and "#" in v and any(m in eqids for m in re.findall(r"#([0-9a-f-]{36})", v)):
                    out[id(e)] = e
                    if e.getparent() is not None:
                        out[id(e.getparent())] = e.getparent()
    els = [e for e in out.values() if e.get("id")]
    _EQ_OWNERS.clear()
    _EQ_OWNERS[key] = (model, els)
    return els


def eq_relations_of(model, el) -> list[Relation]:
    """the coupled list relations of the object at `el` that hold, or are declared to hold, equality-overriding objects"""
    from capellambse.model import _obj as O

    try:
        model._loader.find_fragment(el)   # still part of the model?
        owner = O.ModelElement.from_model(model, el)
    except Exception:
        return []
    out = []
    for r in discover_for(model, owner):
        try:
            mem = list(r.get())
        except Exception:
            continue
        if _declared_eq(r.acc) or any(overrides_eq(type(m)) for m in mem):
            out.append(r)
    return out


def equal_pair(members: list):
    """positions (i, j), i < j, of two DIFFERENT members that compare equal (None when there are none)"""
    for i, a in enumerate(members):
        for j in range(i + 1, len(members)):
            b = members[j]
            if a._element is not b._element and a == b:
                return i, j
    return None


EQ_SCRIPT_OPS = ("pair", "query", "setitem", "pair", "setitem", "pair", "assign", "pair", "setslice", "pair", "insert", "remove",
                 "pair", "delitem", "pair", "setslice", "append", "query", "pair", "remove", "delitem")


def eq_script(model, rng: random.Random, limit: int, kinds: tuple | None = None) -> list:
    """the scripted history: for (up to `limit`) relations that hold equality-overriding objects – one per accessor
    first – every list operation in turn, each preceded by making two distinct members compare equal"""
    owners = eq_owner_elements(model)
    rels = [r for el in owners for r in eq_relations_of(model, el) if kinds is None or r.kind in kinds]
    rng.shuffle(rels)
    rels.sort(key=lambda r: -min(len(r.get()), 2))   # lists that have two members to begin with first
    seen: set = set()
    first = [r for r in rels if not (id(r.acc) in seen or seen.add(id(r.acc)))]
    rest = [r for r in rels if all(r is not f for f in first)]
    out = []
    for r in (first + rest)[:limit]:
        out += [(r.owner._element, r.attr, op) for op in EQ_SCRIPT_OPS]
    return out


def eq_step(model, rng: random.Random, w: dict, rel: Relation | None = None, op: str | None = None) -> Step | None:
    """one operation on a list whose members override equality, preferably with equal-but-distinct objects involved
    (`rel` / `op` given: that operation on that relation – None when it is not possible in the current state)"""
    owners = eq_owner_elements(model)
    if not owners:
        return None
    forced_rel, forced_op = rel, op
    for _ in range(12 if forced_rel is None else 1):
        if forced_rel is None:
            el = rng.choice(owners)
            rs = eq_relations_of(model, el)
            if not rs:
                continue
            rel = rng.choice(rs)
        try:
            lst = rel.get()
        except Exception:
            continue
        members = list(lst)
        n = len(members)
        pair = equal_pair(members)
        plain_contain = rel.contain and type(rel.acc).__name__ != "RoleTagAccessor"
        eqm = [m for m in members if overrides_eq(type(m)) and eq_key(type(m))]
        # (1) no equal-but-distinct members yet: make some (a new member with the key of an existing one; or one
        #     member takes over the key of another one)
        if forced_op == "pair" and (pair is not None or not eqm):
            return None
        if forced_op == "query":
            if not members:
                return None
            donor = _eq_donor(model, rel, members, owners, rng)
            probes = [members[0], members[-1]] + ([members[pair[1]]] if pair else []) + ([donor] if donor is not None else [])
            return Step("query", rel, {"uuids": [getattr(p_, "uuid", None) for p_ in probes], "eq": "pair" if pair else "-"},
                        lambda lst=lst, probes=probes, res=[]: res.extend(_query(lst, probes)))
        if forced_op == "pair" or (forced_op is None and pair is None and eqm and rng.random() < 0.65):
            a = rng.choice(eqm)
            key = eq_key(type(a))
            try:
                val = getattr(a, key)
            except Exception:
                continue
            if not isinstance(val, str):
                continue
            if plain_contain and (n < 2 or rng.random() < 0.5) and not getattr(lst, "fixed_length", 0):
                kw = {key: val}
                return Step("create", rel, {"kw": dict(kw), "bad": False, "hint": [], "eq": "create-equal"},
                            lambda lst=lst, kw=kw, hint=(): lst.create(*hint, **kw))
            others_ = [m for m in eqm if m._element is not a._element and type(m) is type(a)]
            if others_:
                b = rng.choice(others_)
                return Step("setattr", None, {"uuid": getattr(b, "uuid", None), "attr": key, "value": val, "eq": "equalize"},
                            lambda o=b, attr=key, v=val: setattr(o, attr, v))
            if forced_op == "pair":
                # a reference list with one member: bring in another object that equals it (made equal first if need be)
                x = _eq_donor(model, rel, members, owners, rng, want_equal=True)
                if x is None:
                    return None
                if not any(m == x for m in members):
                    if type(x) is not type(a):
                        return None
                    SCRIPT.insert(0, (rel.owner._element, rel.attr, "append-equal")) if SCRIPT is not None else None
                    return Step("setattr", None, {"uuid": getattr(x, "uuid", None), "attr": key, "value": val, "eq": "equalize-donor"},
                                lambda o=x, attr=key, v=val: setattr(o, attr, v))
                return Step("append", rel, {"uuid": getattr(x, "uuid", None), "eq": "donor"}, lambda lst=lst, x=x: lst.append(x))
        if forced_op == "append-equal":
            x = _eq_donor(model, rel, members, owners, rng, want_equal=True)
            if x is None or not any(m == x for m in members):
                return None
            return Step("append", rel, {"uuid": getattr(x, "uuid", None), "eq": "donor"}, lambda lst=lst, x=x: lst.append(x))
        if forced_op == "pair":
            return None
        # (2) an ordinary list operation, the object brought in preferably EQUAL to (but not the same as) a member
        ops = {k: w.get(k, 0) for k in ("setitem", "assign", "insert", "append", "remove", "delitem")}
        ops["setslice"] = w.get("setslice", 0)
        ops["setitem"] *= 2   # item assignment goes through the accessor's whole-list `__set__`: the richest path
        if not any(ops.values()):
            return None
        op = rng.choices(list(ops), list(ops.values()))[0] if forced_op is None else forced_op
        sure = forced_op is not None   # scripted: the equal-but-distinct members are involved whenever there are any
        x = None
        if op in ("setitem", "insert", "append", "setslice"):
            x = _eq_donor(model, rel, members, owners, rng)
            if x is None and op != "setslice":
                if forced_op is not None:
                    return None
                op = rng.choice(["remove", "delitem", "assign"])
        if op == "setitem" and n > 0:
            i = rng.randrange(-n, n)
            if pair is not None and (sure or rng.random() < 0.5):
                i = rng.choice(pair) - (n if rng.random() < 0.3 else 0)
            else:
                eqpos = [k for k, m in enumerate(members) if m == x]
                if eqpos and rng.random() < 0.6:
                    i = rng.choice(eqpos)   # the replaced member itself equals the object that replaces it
            return Step("setitem", rel, {"i": i, "uuid": getattr(x, "uuid", None), "eq": "pair" if pair else "donor"},
                        lambda lst=lst, i=i, x=x: lst.__setitem__(i, x))
        if op == "insert":
            i = rng.randrange(-n - 1, n + 2)
            return Step("insert", rel, {"i": i, "uuid": getattr(x, "uuid", None), "eq": "donor"}, lambda lst=lst, i=i, x=x: lst.insert(i, x))
        if op == "append":
            return Step("append", rel, {"uuid": getattr(x, "uuid", None), "eq": "donor"}, lambda lst=lst, x=x: lst.append(x))
        if op == "setslice" and (plain_contain or rel.kind == "AttrProxyAccessor") and not getattr(lst, "fixed_length", 0):
            a = rng.randrange(0, n + 1)
            b = rng.randrange(a, min(n, a + 2) + 1)
            if pair is not None and (sure or rng.random() < 0.5):
                a = rng.choice(pair)
                b = a + 1
            xs = [x] if x is not None and rng.random() < 0.8 else []
            if a == b and not xs:
                continue
            return Step("setslice", rel, {"a": a, "b": b, "new_uuids": [getattr(v, "uuid", None) for v in xs], "uuid": getattr(xs[0], "uuid", None) if xs else None,
                                          "eq": "pair" if pair else "donor"},
                        lambda lst=lst, sl=slice(a, b), xs=xs: lst.__setitem__(sl, xs))
        if op == "assign" and n >= 2 and (plain_contain or (type(rel.acc).__name__ == "LinkAccessor" and getattr(rel.acc, "tag", None))):
            keep = rng.sample(members, rng.randrange(1, n + 1))
            if pair is not None and (sure or rng.random() < 0.7):
                # exactly one of the two equal members stays
                gone = members[rng.choice(pair)]
                stay = members[pair[0]] if gone is members[pair[1]] else members[pair[1]]
                keep = [m for m in keep if m is not gone]
                if not any(m is stay for m in keep):
                    keep.append(stay)
            rng.shuffle(keep)
            return Step("assign", rel, {"new_uuids": [m.uuid for m in keep], "eq": "pair" if pair else "-"},
                        lambda rel=rel, keep=keep: setattr(rel.owner, rel.attr, keep))
        if op == "delitem" and n > 0:
            i = rng.randrange(-n, n)
            if pair is not None and (sure or rng.random() < 0.6):
                i = rng.choice(pair) - (n if rng.random() < 0.3 else 0)
            return Step("delitem", rel, {"i": i, "uuid": getattr(members[i], "uuid", None), "eq": "pair" if pair else "-"},
                        lambda lst=lst, i=i: lst.__delitem__(i))
        if op == "remove" and n > 0:
            x = members[rng.randrange(n)]
            if pair is not None and (sure or rng.random() < 0.6):
                x = members[pair[1]]   # the LATER one of two equal members: a Python list removes the first that is equal
            return Step("remove", rel, {"uuid": getattr(x, "uuid", None), "eq": "pair" if pair else "-"}, lambda lst=lst, x=x: lst.remove(x))
    return None


def _query(lst, probes: list) -> list:
    """`x in lst` and `lst.index(x)` for every probe object (the answers; ValueError as a string)"""
    res = []
    for x in probes:
        c = x in lst
        try:
            k = lst.index(x)
        except ValueError:
            k = "ValueError"
        res.append((c, k))
    return res


def _eq_donor(model, rel: Relation, members: list, owners: list, rng: random.Random, want_equal: bool = False):
    """an object that is NOT a member of the list and can be put into it; preferably one that compares equal to a member"""
    mem_ids = {id(m._element) for m in members}
    pool: list = []
    if rel.contain:
        anc = set()
        e = rel.owner._element
        while e is not None:
            anc.add(id(e))
            e = e.getparent()
        for el in rng.sample(owners, min(len(owners), 8)):
            if el is rel.owner._element:
                continue
            for r in eq_relations_of(model, el):
                if r.acc is not rel.acc:
                    continue
                if SAME_RESOURCE_MOVES:
                    ff = model._loader.find_fragment
                    try:
                        if ff(r.owner._element).parts[0] != ff(rel.owner._element).parts[0]:
                            continue
                    except ValueError:
                        continue
                try:
                    pool += [m for m in r.get() if id(m._element) not in anc and id(m._element) not in mem_ids]
                except Exception:
                    continue
    else:
        classes = {type(m) for m in members if overrides_eq(type(m))}
        for c in classes:
            try:
                pool += [o for o in model.search(c) if id(o._element) not in mem_ids]
            except Exception:
                continue
        if not pool:
            pool = [o for o in candidates_for(model, rel, rng) if id(o._element) not in mem_ids]
    if not pool:
        return None
    equal = [d for d in pool if any(m == d for m in members)]
    if equal and (want_equal or rng.random() < 0.7):
        return rng.choice(equal)
    if want_equal:
        same = [d for d in pool if any(type(d) is type(m) for m in members)]
        return rng.choice(same) if same else None
    return rng.choice(pool)
