"""Run the quick tier of the relevant checks against every kept behaviour-preserving refactoring (refactors/<id>/patch.diff).
usage: judge_refactors.py [group ...]; results under /tmp/refj (scratch), one summary line per (patch, check)."""
import json, subprocess, sys, pathlib, concurrent.futures as cf
pathlib.Path("/tmp/refj").mkdir(exist_ok=True)
NODEMO = pathlib.Path("/tmp/refj/nodemo.py"); NODEMO.write_text("")
MAP = {
 "decl": {"r1":["C12","C13"],"r2":["C12","C13"],"r3":["C12","C13"],"r4":["C13"],"r5":["C07"]},
 "objmodel": {"r1":["C05","C08","C09","C07"],"r2":["C10","C08"],"r3":["C07","C02"],"r4":["C10","C09"],"r5":["C03","C08","C09"]},
 "diagram": {"r1":["C17"],"r2":["C17"],"r3":["C11","C17"],"r4":["C11","C17"],"r5":["C17","C11"]},
 "files": {"r1":["C15","C14"],"r2":["C16","C14"],"r3":["C14","C19"],"r4":["C14","C19"],"r5":["C19"]},
 "svgreqif": {"r1":["C18"],"r2":["C20"],"r3":["C18"],"r4":["C18"],"r5":["C18"]},
 "loader": {"r1":["C03","C04","C10"],"r2":["C01","C02"],"r3":["C14","C18"],"r4":["C01","C02"],"r5":["C04","C03"]},
}
groups = sys.argv[1:] or list(MAP)
jobs=[]
for g in groups:
    for r, props in MAP[g].items():
        patch = pathlib.Path(f"/verif/refactors/{g}-{r}/patch.diff")
        if not patch.exists(): print("missing", patch); continue
        for p in props:
            jobs.append((g,r,p,patch))
def run(j):
    g,r,p,patch=j
    out=pathlib.Path(f"/tmp/refj/{g}-{r}.{p}.json")
    if out.exists():
        return j, json.loads(out.read_text())
    pr=subprocess.run(["/venv/bin/python","/verif/harness/seedtest.py",p,str(patch),str(NODEMO),"--skip-suite"],capture_output=True,text=True,cwd="/verif")
    try: d=json.loads(pr.stdout)
    except Exception: d={"error":(pr.stdout+pr.stderr)[-500:]}
    out.write_text(json.dumps(d))
    return j,d
with cf.ThreadPoolExecutor(8) as ex:
    for (g,r,p,_),d in ex.map(run,jobs):
        c=d.get("checks",{}).get(f"{p}:quick",{})
        print(f"{g}-{r} {p}: rc={c.get('rc')} {d.get('error') or ''} {[ (x.get('signature'), x.get('broken_correspondence_streams'), x.get('broken_proof_obligations')) for x in c.get('replays',[])][:2]} {c.get('tail','')[-300:]}")
