"""Translator for the representation loops of the object layer (C11, round 4: introspection totality).

Syntactic part: for `ModelElement.__repr__ / __html__ / _short_html_` and `ElementList.__repr__ / __html__` of the
capellambse under `common.REPO`, every place where the loop hands an attribute VALUE (a name bound from
`getattr(self, …)` or the loop variable of `for … in self`) to code that can raise — a method of the value
(`value._short_html_()`), `repr(value)`, `str(value)`, `escape(value)`, an f-string — together with the chain of
`hasattr(value, "…")` / `isinstance(value, str)` tests that leads to it and whether it sits inside a
`try: … except Exception`.  A use of the value the analyser does not know is emitted as `.other` (fails closed).

Reflective part: the value classes that are not model elements or element lists but define their own `__html__`,
`__str__`, `_short_html_`, `_short_repr_` or `__repr__` in `capellambse.model` / `.extensions` / `.metamodel`, with
the methods they resolve, and — where the class can be instantiated over an EMPTY element by its own `(model, element)`
constructor — which of these methods raise on that empty state.  Generic rows stand for model elements, element lists
and builtin values (their totality on unusual states is what the monitor of `harness/c11_states.py` checks).

Output: `lean/Capella/Gen/Introspect.lean` with the kernel-checked obligation that no unguarded site can select a
value class for which the method it invokes is partial.
"""

from __future__ import annotations

import ast
import importlib
import inspect
import pkgutil
import sys
import textwrap

import common
from gen_formats import chars

LOOPS = [("ModelElement", "__repr__"), ("ModelElement", "__html__"), ("ModelElement", "_short_html_"),
         ("ElementList", "__repr__"), ("ElementList", "__html__")]
REPR_METHODS = ["__html__", "__str__", "__repr__", "_short_html_", "_short_repr_", "__format__"]
PURE_TESTS = {"hasattr", "isinstance", "ismethod", "callable", "type", "id", "len", "bool"}
PACKAGES = ["capellambse.model", "capellambse.extensions", "capellambse.metamodel"]


def _imp():
    if str(common.REPO) not in sys.path:
        sys.path.insert(0, str(common.REPO))
    import capellambse  # noqa: F401
    from capellambse import model

    return model


# ------------------------------------------------------------------ sites (syntactic)


def _catches_exception(tr: ast.Try) -> bool:
    for h in tr.handlers:
        if h.type is None:
            return True
        names = [h.type] if not isinstance(h.type, ast.Tuple) else list(h.type.elts)
        if any(isinstance(n, ast.Name) and n.id in ("Exception", "BaseException") for n in names):
            return True
    return False


def _test(node: ast.expr, vals: set[str]):
    """('has', name) / ('isStr',) for the two recognised tests on a value variable, ('or'|'and', a, b), ('not', a);
    None = opaque."""
    if isinstance(node, ast.BoolOp) and len(node.values) >= 2:
        parts = [_test(v, vals) for v in node.values]
        acc = parts[0]
        for p_ in parts[1:]:
            acc = ("or" if isinstance(node.op, ast.Or) else "and", acc, p_)
        return acc
    if isinstance(node, ast.UnaryOp) and isinstance(node.op, ast.Not):
        return ("not", _test(node.operand, vals))
    if isinstance(node, ast.Call) and isinstance(node.func, ast.Name) and node.args \
            and isinstance(node.args[0], ast.Name) and node.args[0].id in vals:
        if node.func.id == "hasattr" and len(node.args) == 2 and isinstance(node.args[1], ast.Constant):
            return ("has", str(node.args[1].value))
        if node.func.id == "isinstance" and len(node.args) == 2 and isinstance(node.args[1], ast.Name) \
                and node.args[1].id == "str":
            return ("isStr",)
    return None


def _mentions(node: ast.AST, vals: set[str]) -> bool:
    return any(isinstance(n, ast.Name) and n.id in vals for n in ast.walk(node))


def _helper_escapes(fname: str, call: ast.Call, vals: set[str]) -> bool:
    """Is `fname` a function of `capellambse.helpers` that does nothing with the parameter the value is passed as but
    `param = e(param)` / `escape(param)` (markupsafe)? Decided from the helper's own source."""
    try:
        from capellambse import helpers

        fn = getattr(helpers, fname)
        fdef = ast.parse(textwrap.dedent(inspect.getsource(fn))).body[0]
        params = [a.arg for a in fdef.args.args]
        esc = {n.args[0].id for n in ast.walk(fdef) if isinstance(n, ast.Call) and isinstance(n.func, ast.Name)
               and n.func.id in ("e", "escape") and n.args and isinstance(n.args[0], ast.Name)}
        for i, a in enumerate(call.args):
            if isinstance(a, ast.Name) and a.id in vals and (i >= len(params) or params[i] not in esc):
                return False
        return True
    except Exception:  # noqa: BLE001
        return False


class SiteFinder:
    def __init__(self, fn_name: str):
        self.fn = fn_name
        self.vals: set[str] = set()
        self.attr_of: dict[str, str] = {}     # value variable -> the one attribute it is read from ("" = any)
        self.sites: list[dict] = []

    def bind(self, fdef: ast.FunctionDef) -> None:
        for n in ast.walk(fdef):
            if isinstance(n, ast.Assign) and isinstance(n.value, ast.Call) and isinstance(n.value.func, ast.Name) \
                    and n.value.func.id == "getattr" and n.value.args and isinstance(n.value.args[0], ast.Name) \
                    and n.value.args[0].id == "self":
                for t_ in n.targets:
                    if isinstance(t_, ast.Name):
                        self.vals.add(t_.id)
                        a1 = n.value.args[1] if len(n.value.args) > 1 else None
                        self.attr_of[t_.id] = str(a1.value) if isinstance(a1, ast.Constant) else ""
            if isinstance(n, ast.For):
                it = n.iter
                if isinstance(it, ast.Call) and isinstance(it.func, ast.Name) and it.func.id == "enumerate" and it.args:
                    it = it.args[0]
                if isinstance(it, ast.Name) and it.id == "self":
                    tg = n.target
                    names = [tg] if isinstance(tg, ast.Name) else [e for e in getattr(tg, "elts", []) if isinstance(e, ast.Name)]
                    if names:
                        self.vals.add(names[-1].id)
        attrs = set(self.attr_of.values())
        loopvars = self.vals - set(self.attr_of)
        self._cur_attr = next(iter(attrs)) if len(attrs) == 1 and not loopvars and "" not in attrs else ""
        if loopvars and not attrs:
            self._cur_attr = "<member>"       # the values are the members of an element list

    def emit(self, kind: str, name: str, guarded: bool, conds: list, line: int, var: str = "") -> None:
        self.sites.append({"fn": self.fn, "kind": kind, "name": name, "guarded": guarded, "conds": list(conds), "line": line,
                           "attr": self._cur_attr})

    _cur_attr = ""

    def expr(self, node: ast.AST, guarded: bool, conds: list) -> None:
        """Every use of a value variable inside an expression."""
        if isinstance(node, ast.Call):
            f = node.func
            if isinstance(f, ast.Attribute) and isinstance(f.value, ast.Name) and f.value.id in self.vals:
                self.emit("method", f.attr, guarded, conds, node.lineno)
                for a in node.args:
                    self.expr(a, guarded, conds)
                return
            direct = [a for a in node.args if isinstance(a, ast.Name) and a.id in self.vals]
            if direct:
                fname = f.id if isinstance(f, ast.Name) else (f.attr if isinstance(f, ast.Attribute) else "?")
                if fname in PURE_TESTS:
                    pass
                elif fname in ("repr", "str", "escape", "format"):
                    self.emit(fname, "", guarded, conds, node.lineno)
                elif _helper_escapes(fname, node, self.vals):
                    self.emit("escape", "", guarded, conds, node.lineno)
                else:
                    self.emit("other", fname, guarded, conds, node.lineno)
            for a in list(node.args) + [k.value for k in node.keywords]:
                if not (isinstance(a, ast.Name) and a.id in self.vals):
                    self.expr(a, guarded, conds)
            if not isinstance(f, ast.Name):
                self.expr(f, guarded, conds)
            return
        if isinstance(node, ast.FormattedValue):
            if isinstance(node.value, ast.Name) and node.value.id in self.vals:
                self.emit("repr" if node.conversion == ord("r") else "format", "", guarded, conds, node.lineno)
                return
        if isinstance(node, ast.IfExp):
            self.expr(node.test, guarded, conds)
            t_ = _test(node.test, self.vals)
            self.expr(node.body, guarded, conds + [(t_, True)])
            self.expr(node.orelse, guarded, conds + [(t_, False)])
            return
        for ch in ast.iter_child_nodes(node):
            self.expr(ch, guarded, conds)

    def _rebinds(self, st: ast.AST) -> set[str]:
        """value variables that `st` re-binds to the result of a formatter applied to themselves (a str / Markup)"""
        out = set()
        for n in ast.walk(st):
            if isinstance(n, ast.Assign) and len(n.targets) == 1 and isinstance(n.targets[0], ast.Name) \
                    and n.targets[0].id in self.vals and isinstance(n.value, ast.Call) \
                    and not (isinstance(n.value.func, ast.Name) and n.value.func.id == "getattr"):
                out.add(n.targets[0].id)
        return out

    def stmts(self, body: list, guarded: bool, conds: list) -> None:
        conds = list(conds)
        saved = set(self.vals)
        try:
            self._stmts(body, guarded, conds)
        finally:
            self.vals = saved

    def _stmts(self, body: list, guarded: bool, conds: list) -> None:
        for st in body:
            rb = self._rebinds(st)
            self._one(st, guarded, conds)
            if rb:
                if isinstance(st, ast.If) and not st.orelse:
                    # re-bound only when the test held: afterwards the variable is the original value only if it did not
                    conds.append((_test(st.test, self.vals), False))
                elif isinstance(st, ast.Assign):
                    self.vals = self.vals - rb   # from here on it is the formatter's result, not the attribute value
                # any other compound statement: the variable may still hold the attribute value -> keep tracking it

    def _one(self, st, guarded: bool, conds: list) -> None:
        if True:
            if isinstance(st, ast.Try):
                g = guarded or _catches_exception(st)
                self.stmts(st.body, g, conds)
                for h in st.handlers:
                    self.stmts(h.body, guarded, conds)
                self.stmts(st.orelse, guarded, conds)
                self.stmts(st.finalbody, guarded, conds)
            elif isinstance(st, ast.If):
                self.expr(st.test, guarded, conds)
                t_ = _test(st.test, self.vals)
                self.stmts(st.body, guarded, conds + [(t_, True)])
                self.stmts(st.orelse, guarded, conds + [(t_, False)])
            elif isinstance(st, (ast.For, ast.While)):
                self.expr(st.iter if isinstance(st, ast.For) else st.test, guarded, conds)
                self.stmts(st.body, guarded, conds)
                self.stmts(st.orelse, guarded, conds)
            elif isinstance(st, ast.With):
                for it in st.items:
                    self.expr(it.context_expr, guarded, conds)
                self.stmts(st.body, guarded, conds)
            elif isinstance(st, (ast.FunctionDef, ast.AsyncFunctionDef)):
                self.stmts(st.body, guarded, conds)
            else:
                self.expr(st, guarded, conds)


def collect_sites(model) -> tuple[list[dict], list[str]]:
    sites: list[dict] = []
    missing: list[str] = []
    for cname, meth in LOOPS:
        cls = getattr(model, cname, None)
        fn = inspect.getattr_static(cls, meth, None) if cls is not None else None
        try:
            src = textwrap.dedent(inspect.getsource(fn))
            fdef = ast.parse(src).body[0]
        except Exception:  # noqa: BLE001
            missing.append(f"{cname}.{meth}")
            continue
        sf = SiteFinder(f"{cname}.{meth}")
        sf.bind(fdef)
        sf.stmts(fdef.body, False, [])
        sites += sf.sites
    return sites, missing


# ------------------------------------------------------------------ value classes (reflective)


def _walk_modules():
    for pk in PACKAGES:
        try:
            root = importlib.import_module(pk)
        except Exception:  # noqa: BLE001
            continue
        yield root
        if hasattr(root, "__path__"):
            for mi in pkgutil.walk_packages(root.__path__, pk + "."):
                try:
                    yield importlib.import_module(mi.name)
                except Exception:  # noqa: BLE001
                    continue


def _own(cls, meth: str) -> bool:
    """Does `cls` resolve `meth` to something defined inside capellambse (not object's / a builtin's default)?"""
    for k in cls.__mro__:
        if meth in k.__dict__:
            return (k.__module__ or "").startswith("capellambse")
    return False


def _probe_empty(cls) -> tuple[bool, list[str]]:
    """Instantiate over an empty element by the class' own (model, element) constructor; which methods raise."""
    from lxml import etree

    try:
        ps = list(inspect.signature(cls.__init__).parameters.values())[1:]
    except (TypeError, ValueError):
        return False, []
    req = [p for p in ps if p.default is inspect.Parameter.empty and p.kind in (p.POSITIONAL_ONLY, p.POSITIONAL_OR_KEYWORD)]
    if len(req) != 2:
        return False, []
    try:
        inst = cls(None, etree.Element("empty"))
    except Exception:  # noqa: BLE001
        return False, []
    bad = []
    for m in REPR_METHODS:
        if not _own(cls, m):
            continue
        try:
            if m == "__format__":
                format(inst)
            else:
                getattr(inst, m)()
        except Exception:  # noqa: BLE001
            bad.append(m)
    return True, bad


def _attr_domain(cls, model_classes: list) -> list[str]:
    """Names of the attributes of registered model classes through which a `cls` instance is returned: the attributes
    held by an accessor class declared as `Accessor[cls]`. ["*"] = unknown (any attribute)."""
    import typing

    from capellambse.model import _descriptors

    accs = []
    for _n, a in sorted(vars(_descriptors).items()):
        if inspect.isclass(a):
            for b in getattr(a, "__orig_bases__", ()):
                if cls in typing.get_args(b):
                    accs.append(a)
    if not accs:
        return ["*"]
    names = set()
    for mc in model_classes:
        for n, v in vars(mc).items():
            if isinstance(v, tuple(accs)):
                names.add(n)
    return sorted(names) or ["*"]


def collect_classes(model) -> list[dict]:
    import enum

    from capellambse.model import _descriptors, _pods

    skip = (model.ModelElement, model.ElementList, enum.Enum, BaseException, _descriptors.Accessor, _pods.BasePOD)
    diagram_base = getattr(importlib.import_module("capellambse.model.diagram"), "AbstractDiagram", ())
    rows = [
        {"name": "<model element>", "isStr": False, "defines": ["__html__", "__repr__", "_short_html_", "_short_repr_"],
         "probed": False, "partial": [], "generic": True},
        {"name": "<element list>", "isStr": False, "defines": ["__html__", "__repr__", "_short_html_", "_short_repr_"],
         "probed": False, "partial": [], "generic": True},
        {"name": "<str>", "isStr": True, "defines": [], "probed": False, "partial": [], "generic": True},
        {"name": "<builtin / enum value>", "isStr": False, "defines": [], "probed": False, "partial": [], "generic": True},
    ]
    for r in rows:
        r["attrs"] = ["*"]
    rows[0]["attrs"] = ["*", "<member>"]      # only model elements are members of element lists
    seen: set = set()
    mods = list(_walk_modules())
    model_classes = [c for mod in mods for c in vars(mod).values()
                     if inspect.isclass(c) and issubclass(c, model.ModelElement)]
    for mod in mods:
        for _n, cls in sorted(vars(mod).items()):
            if not inspect.isclass(cls) or cls in seen or not (cls.__module__ or "").startswith("capellambse"):
                continue
            seen.add(cls)
            try:
                if issubclass(cls, skip) or (diagram_base and issubclass(cls, diagram_base)):
                    continue
            except TypeError:
                continue
            defines = [m for m in REPR_METHODS if _own(cls, m)]
            if not defines:
                continue
            probed, bad = _probe_empty(cls)
            rows.append({"name": f"{cls.__module__.removeprefix('capellambse.')}.{cls.__qualname__}",
                         "isStr": issubclass(cls, str), "defines": defines, "probed": probed, "partial": bad,
                         "generic": False, "attrs": _attr_domain(cls, model_classes)})
    fixed = rows[:4]
    rest = sorted(rows[4:], key=lambda r: r["name"])
    return fixed + rest


def collect() -> dict:
    model = _imp()
    sites, missing = collect_sites(model)
    return {"sites": sites, "missing": missing, "classes": collect_classes(model)}


# ------------------------------------------------------------------ Lean output


def _tst(t_) -> str:
    if t_ is None:
        return ".unknown"
    if t_[0] == "has":
        return f"(.has {chars(t_[1])})"
    if t_[0] == "isStr":
        return ".isStr"
    if t_[0] == "not":
        return f"(.not {_tst(t_[1])})"
    return f"(.{t_[0]} {_tst(t_[1])} {_tst(t_[2])})"


def _cond(c) -> str:
    t_, pos = c
    return f"⟨{_tst(t_)}, {'true' if pos else 'false'}⟩"


def _fmt(s: dict) -> str:
    k = s["kind"]
    if k == "method":
        return f"(.method {chars(s['name'])})"
    if k in ("repr", "str", "escape", "format"):
        return f".{k}Call"
    return f"(.other {chars(s['name'])})"


def _strs(xs: list[str]) -> str:
    return "[" + ", ".join(chars(x) for x in xs) + "]"


def generate():
    d = collect()
    L = [
        "-- GENERATED by harness/gen_introspect.py from the source of the live representation loops and the live classes. Do not edit.",
        "import Capella.Model.Introspect",
        "namespace Capella.Gen.Introspect",
        "open Capella.Introspect",
        "",
        "/-- every place where a representation loop hands an attribute value to code that can raise -/",
        "def sites : List Site := [",
        ",\n".join(f"  ⟨{chars(s['fn'])}, {chars(s['attr'])}, {'true' if s['guarded'] else 'false'}, [{', '.join(_cond(c) for c in s['conds'])}], {_fmt(s)}⟩"
                   f" /- line {s['line']} -/" for s in d["sites"]) + "]",
        "",
        "/-- loops whose source could not be read (must be empty) -/",
        "def loopsMissing : List (List Char) := " + _strs(d["missing"]),
        "",
        "/-- value classes: generic rows first, then every non-element class of the object layer with representation methods of its own;",
        "`partialOn` = methods that raise on the instance over an EMPTY element (only where the class could be so instantiated) -/",
        "def classes : List VClass := [",
        ",\n".join(f"  ⟨{chars(c['name'])}, {'true' if c['isStr'] else 'false'}, {_strs(c['attrs'])}, {_strs(c['defines'])}, {_strs(c['partial'])}⟩"
                   for c in d["classes"]) + "]",
        "",
        "theorem loops_present : loopsMissing = [] := by decide +kernel",
        "theorem loops_have_sites : (sites.isEmpty = false) := by decide +kernel",
        "/-- no unguarded site selects a value class for which the method it invokes is partial -/",
        "theorem sites_total : tableOk sites classes = true := by decide +kernel",
        "",
        "end Capella.Gen.Introspect",
        "",
    ]
    info = {"sites": len(d["sites"]), "unguarded": sum(1 for s in d["sites"] if not s["guarded"]),
            "classes": len(d["classes"]), "probed": sum(1 for c in d["classes"] if c["probed"]),
            "partial_classes": [c["name"] for c in d["classes"] if c["partial"]], "obligations": 3}
    return [("Introspect.lean", "\n".join(L), info)]


if __name__ == "__main__":
    import json

    d = collect()
    print(json.dumps(d, indent=1, default=str))
