"""C10 — streams that run the Lean model over the *generated* tables (helper of harness/props/c10.py).

  * `tables`   : the driver's reading of Gen/Hier*.lean against the live classes (round trip of the translator), and the
                 model's `candidates` of every back-reference row against the accessor's own `__candidate_types()`.
  * `findrefsT`: find_references over every relation of the table that stores links (list-valued, single-valued,
                 PhysicalLinkEnds, Typecast, Index) — the model is given the elements with their type only and takes
                 the relations from the generated table; compared tuple by tuple *in order*.
  * `backrefT` : the value of back-reference accessors (lists and single-valued ones through `no_list`) — candidates
                 from the generated hierarchy, relation values from the generated relation table.
"""

from __future__ import annotations

import sys

import common

EVALUABLE = ("attr", "child")


def live():
    import gen_hierarchy

    return gen_hierarchy.collect()


def check_tables(out, dump: dict) -> dict:
    """Compare the driver's dump with the live classes. Returns {type name: {relation name: (kind, evaluable, aslist)}}."""
    from capellambse.model import _descriptors as D
    from capellambse.model import _model, _xtype
    from capellambse.model import _obj as O

    order, handlers, backrefs, rows, crels, tnames = live()
    H = _xtype.XTYPE_HANDLERS[None]
    cid = {c: i for i, c in enumerate(order)}
    if not dump.get("type_names_ok"):
        out.disagree("tables.type-names", {}, "every registered / built type name contains ':'", "a name without ':'")
    if any(":" not in x for x in tnames):
        out.find("tables|type-name-without-colon", "a registered or built xsi:type has no ':' — search() would read it as a short name",
                 {"kind": "tables"})
    # handlers: order, class, hierarchy
    want_h = [[xt, cid[c], [cid[b] for b in c.__mro__[1:] if b in cid],
               (lambda c=c: _try_build(c))()] for xt, c in H.items()]
    if dump["handlers"] != want_h:
        bad = next((i for i, (a, b) in enumerate(zip(dump["handlers"], want_h)) if a != b), None)
        out.disagree("tables.handlers", {"first": bad}, want_h[bad] if bad is not None else len(want_h),
                     dump["handlers"][bad] if bad is not None and bad < len(dump["handlers"]) else len(dump["handlers"]))
    out.hit("tables:handlers", len(want_h))
    # back-references: the model's candidates against the accessor's own private method
    seen = {}
    for cls in order:
        for n in dir(cls):
            acc = getattr(cls, n, None)
            if isinstance(acc, D.ReferenceSearchingAccessor) and id(acc) not in seen:
                owner = next((k for k in cls.__mro__ if vars(k).get(n) is acc), cls)
                seen[id(acc)] = (f"{owner.__module__}.{owner.__qualname__}", n, acc)
    byname = {(b["owner"], b["name"]): b for b in dump["backrefs"]}
    for owner, n, acc in seen.values():
        b = byname.get((owner, n))
        if b is None:
            out.disagree("tables.backrefs", {"owner": owner, "name": n}, "present", "missing row")
            continue
        types = common.get_private(acc, "_ReferenceSearchingAccessor__candidate_types", callable, ("candidate",))()
        want = []
        for t_ in types:
            if isinstance(t_, str):
                want.append(t_)
            else:  # what search() turns a class argument into: its registered types, else the derived one
                want += [k for k, c in H.items() if c is t_] or [_try_build(t_)]
        out.hit("tables:backref-candidates")
        if b["candidates"] != want:
            out.disagree("tables.candidates", {"owner": owner, "name": n}, want[:12], b["candidates"][:12])
        if b["attrs"] != [g.__reduce__()[1][0] for g in acc.attrs] or b["aslist"] != (acc.aslist is not None):
            out.disagree("tables.backrefs", {"owner": owner, "name": n}, "attrs/aslist of the live accessor", [b["attrs"], b["aslist"]])
        # independent statement of the obligation (the monitor side): every registered class that is an instance of a
        # target class is searched
        if acc.target_classes:
            miss = [xt for xt, c in H.items() if issubclass(c, acc.target_classes) and xt not in want]
            if miss:
                out.find("backref|candidates|not-closed-under-subclassing",
                         f"{owner}.{n} does not search {miss[:3]} although their classes are instances of its target classes",
                         {"kind": "tables", "owner": owner, "name": n})
    if len(seen) != len(dump["backrefs"]):
        out.disagree("tables.backrefs", {}, len(seen), len(dump["backrefs"]))
    # relation rows per registered type
    info: dict = {}
    classes = {c["xt"]: c for c in dump["classes"]}
    for xt, c in [*H.items(), ("", O.ModelElement)]:
        ent = classes.get(xt)
        names = list(_model._reference_attributes(c))
        if ent is None or [r[0] for r in ent["rels"]] != names:
            out.disagree("tables.relations", {"xt": xt}, names[:10], [r[0] for r in ent["rels"]][:10] if ent else None)
            continue
        d = {}
        for (name, kind, aslist, tgt), a in zip(ent["rels"], names):
            acc = getattr(c, a)
            tn = type(acc).__name__
            want_kind = {"AttrProxyAccessor": "attr", "PhysicalLinkEndsAccessor": "attr", "LinkAccessor": "child",
                         "TypecastAccessor": "typecast", "IndexAccessor": "index", "Alias": "alias"}.get(tn, "acc")
            if kind[0] != want_kind or (want_kind == "acc" and kind[1] != tn) or aslist != (getattr(acc, "aslist", None) is not None):
                out.disagree("tables.relations", {"xt": xt, "attr": a}, [want_kind, tn], kind)
            if want_kind == "attr" and kind[1] != acc.attr:
                out.disagree("tables.relations", {"xt": xt, "attr": a}, acc.attr, kind)
            if want_kind == "child" and kind[1:] != [acc.tag or "", sorted(acc.xtypes)[0], acc.follow]:
                out.disagree("tables.relations", {"xt": xt, "attr": a}, [acc.tag, sorted(acc.xtypes), acc.follow], kind)
            tk = next((r[1] for r in ent["rels"] if r[0] == tgt), None)
            d[a] = (kind[0], tk is not None and tk[0] in EVALUABLE, aslist)
        info[xt] = d
        out.hit("tables:class-entries", len(names))
    return info


def _try_build(c):
    from capellambse.model import _xtype

    try:
        return _xtype.build_xtype(c)
    except TypeError:
        return None


def qname(k: str) -> str:
    """attribute name as the XPath's name() sees it, up to the prefix: a namespaced attribute never collides with a plain one"""
    return "ns:" + k.split("}")[-1] if k.startswith("{") else k


def export_nodes(model, keep: list):
    """All non-visual elements (tree after tree, document order) as the table driver wants them."""
    from capellambse import helpers

    elems = []
    sem = []
    for f in model._loader.trees.values():
        if f.fragment_type.name == "VISUAL":
            continue
        es = [e for e in f.root.iter() if isinstance(e.tag, str)]
        elems += es
        sem += [f.fragment_type.name == "SEMANTIC"] * len(es)
    keep.append(elems)
    pos = {id(e): i for i, e in enumerate(elems)}
    nodes = []
    for e, s in zip(elems, sem):
        par = e.getparent()
        nodes.append({"id": e.get("id") or "", "tag": e.tag, "xt": helpers.xtype_of(e) or "",
                      "attrs": [[qname(k), v] for k, v in e.attrib.items()],
                      "p": pos.get(id(par)) if par is not None else None, "sem": s, "ph": "href" in e.attrib})
    return elems, pos, nodes


def findrefs_request(ctx, model, info: dict, keep: list):
    from capellambse import helpers
    from capellambse.model import _obj

    rng = ctx.rng
    elems, pos, nodes = export_nodes(model, keep)
    ids = [e.get("id") for e in elems if e.get("id")]
    ys = rng.sample(ids, min(len(ids), ctx.pick(40, 300)))
    impl = []
    for u in ys:
        try:
            y = model.by_uuid(u)
            got = []
            for (o, a, i) in model.find_references(y):
                p = pos.get(id(o._element))
                if p is None:
                    continue
                d = info.get(helpers.xtype_of(o._element) or "", info.get("", {}))
                if helpers.xtype_of(o._element) not in info:
                    d = info.get("", {})
                if a in d and d[a][1]:
                    got.append([p, a, -1 if i is None else i])
        except Exception as e:  # noqa: BLE001
            got = {"err": type(e).__name__}
        impl.append(got)
    return {"op": "findrefsT", "nodes": nodes, "targets": ys}, impl, ys


def export_index(model, pos: dict) -> list:
    ORPHAN = 10**9
    index = []
    for f in model._loader.trees.values():
        if f.fragment_type.name != "SEMANTIC":
            continue
        cache = __import__("objlayer").private_state(f).xtypecache
        for xt, d in cache.items():
            index.append([xt, [pos.get(id(e), ORPHAN) for e in d.values()]])
    return index


def backref_request(ctx, model, info: dict, keep: list):
    """Back-reference accessors whose named attributes are table relations the model evaluates on every candidate class."""
    from capellambse import helpers
    from capellambse.model import _descriptors as D
    from capellambse.model import _obj, _xtype

    rng = ctx.rng
    elems, pos, nodes = export_nodes(model, keep)
    index = export_index(model, pos)
    H = _xtype.XTYPE_HANDLERS[None]
    evaluable: dict = {}

    def ok(acc) -> bool:
        if id(acc) in evaluable:
            return evaluable[id(acc)]
        names = [g.__reduce__()[1][0] for g in acc.attrs]
        good = all("." not in n for n in names)
        if good:
            cands = [(xt, c) for xt, c in H.items() if not acc.target_classes or issubclass(c, acc.target_classes)]
            for xt, c in cands:
                for n in names:
                    a2 = getattr(c, n, None)
                    if a2 is None and not hasattr(c, n):
                        continue
                    d = info.get(xt, {})
                    if not (isinstance(a2, D.Accessor) and n in d and d[n][1]):
                        good = False
        evaluable[id(acc)] = good
        return good

    cand_y = [e for e in elems if e.get("id") and helpers.xtype_of(e) in H]
    ysel = rng.sample(cand_y, min(len(cand_y), ctx.pick(150, 800)))
    queries, impl = [], []
    for ye in ysel:
        cls = H[helpers.xtype_of(ye)]
        try:
            y = _obj.ModelElement.from_model(model, ye)
        except Exception:  # noqa: BLE001
            continue
        for bname in dir(cls):
            acc = getattr(cls, bname, None)
            if not isinstance(acc, D.ReferenceSearchingAccessor):
                continue
            if not ok(acc):
                continue
            owner = next((k for k in cls.__mro__ if vars(k).get(bname) is acc), cls)
            try:
                v = getattr(y, bname)
                if isinstance(v, _obj.ElementList):
                    iv = {"list": [pos.get(id(e), -1) for e in v._elements]}
                elif v is None:
                    iv = {"one": None}
                else:
                    iv = {"one": pos.get(id(v._element), -1)}
            except Exception:  # noqa: BLE001
                iv = "raises"
            queries.append({"y": pos[id(ye)], "owner": f"{owner.__module__}.{owner.__qualname__}", "name": bname})
            impl.append(iv)
    return {"op": "backrefT", "nodes": nodes, "index": index, "queries": queries}, impl


def compare(out, kind: str, label: str, state: str, rq: dict, impl, ans) -> None:
    if "ok" not in ans:
        out.disagree(kind, {"model": label, "state": state}, "n/a", ans)
        return
    a = ans["ok"]
    if kind == "findrefsT":
        impl_l, ys = impl
        out.extra.setdefault("table_relations_evaluated", 0)
        out.extra["table_relations_evaluated"] += a.get("nrels", 0)
        for u, iv, mv, bf in zip(ys, impl_l, a["results"], a["brute"]):
            out.hit("corr.findrefsT")
            if isinstance(iv, dict):
                continue
            mv = [list(x) for x in mv]
            if mv != iv:  # order included
                out.disagree("findrefsT" if sorted(mv) != sorted(iv) else "findrefsT.order", {"model": label, "state": state, "y": u}, iv[:10], mv[:10])
            if any(x[2] == -1 for x in iv):
                out.hit("corr.findrefsT:single-valued")
            if [list(x) for x in bf] != mv:
                out.disagree("findrefsT.brute", {"model": label, "state": state, "y": u}, [list(x) for x in bf][:10], mv[:10])
        out.traces_validated += 1
    else:
        for q, iv, mv in zip(rq["queries"], impl, a):
            out.hit("corr.backrefT")
            if isinstance(iv, dict) and "one" in iv:
                out.hit("corr.backrefT:single-valued:" + ("none" if iv["one"] is None else "one"))
            if iv == "raises":
                out.hit("corr.backrefT:raises")
            if iv != mv:
                out.disagree("backrefT", {"model": label, "state": state, "q": q}, iv if not isinstance(iv, dict) else {k: (v[:10] if isinstance(v, list) else v) for k, v in iv.items()},
                             mv if not isinstance(mv, dict) else {k: (v[:10] if isinstance(v, list) else v) for k, v in mv.items()})
        out.traces_validated += 1
