"""Translator for the READ side of the object layer (C06): every relation descriptor instance reachable from a
registered model class with all parameters its `__get__` reads, and per registered `xsi:type` the attribute
slots as Python's MRO resolves them.  -> lean/Capella/Gen/ReadDescr*.lean, ReadSlots*.lean, Reads.lean

Purely reflective (reads attributes of live objects, `issubclass`, `vars`); vocabulary: Capella/Model/ReadTable.lean.
A kind the read model does not know is emitted as `.other "<ClassName>"`; nothing is dropped.
"""

from __future__ import annotations

import sys

import common
from gen_tables import lean_str

KIND = {
    "DirectProxyAccessor": ".direct", "DeepProxyAccessor": ".deep", "LinkAccessor": ".link",
    "AttrProxyAccessor": ".attrProxy", "PhysicalLinkEndsAccessor": ".attrProxy", "RoleTagAccessor": ".roleTag",
    "ParentAccessor": ".parent", "ReferenceSearchingAccessor": ".refSearch", "SpecificationAccessor": ".specification",
    "AttributeMatcherAccessor": ".attrMatcher", "IndexAccessor": ".index", "TypecastAccessor": ".typecast",
    "AlternateAccessor": ".alternate", "Alias": ".alias", "DeprecatedAccessor": ".deprecated",
}
ROWS_PER_DEF = 40
DEFS_PER_FILE = 4
SLOTS_PER_DEF = 90

_CACHE = None


def collect():
    """(rows, classes): rows = list of dicts (unique descriptor instances, sorted by (cls, attr)),
    classes = list of (xtype, [(attr, row index)])  incl. ("", slots of plain ModelElement)"""
    global _CACHE
    if _CACHE is not None:
        return _CACHE
    if str(common.REPO) not in sys.path:
        sys.path.insert(0, str(common.REPO))
    import capellambse  # noqa: F401
    import capellambse.extensions.filtering  # noqa: F401
    import capellambse.extensions.pvmt  # noqa: F401
    import capellambse.extensions.reqif  # noqa: F401
    import capellambse.extensions.validation  # noqa: F401

    capellambse.load_model_extensions()  # what every loaded model has seen (`MelodyModel.__init__` calls it)
    from capellambse.model import _descriptors as D
    from capellambse.model import _obj as O
    from capellambse.model import _pods, _xtype

    handlers = _xtype.XTYPE_HANDLERS[None]

    def qual(c) -> str:
        return f"{c.__module__}.{c.__qualname__}"

    def resolve(cls, name):
        for k in cls.__mro__:
            if name in vars(k):
                return k, vars(k)[name]
        return None, None

    found: dict[int, dict] = {}
    path_names: set[str] = set()
    for cls in list(handlers.values()) + [O.ModelElement]:
        for k in cls.__mro__:
            for acc in vars(k).values():
                if isinstance(acc, D.ReferenceSearchingAccessor):
                    for a in acc.attrs:
                        path_names.update(repr(a).split("'")[1].split("."))
    per_class: list[tuple[str, type]] = sorted(handlers.items()) + [("", O.ModelElement)]
    raw_slots: list[tuple[str, list[tuple[str, int]]]] = []
    for xt, cls in per_class:
        sl = []
        for name in sorted(dir(cls)):
            if name.startswith("_"):
                continue
            owner, acc = resolve(cls, name)
            if not isinstance(acc, D.Accessor):
                if name in path_names and owner is not None:
                    # a property / POD that a ReferenceSearchingAccessor may read through `attrgetter`: not modelled,
                    # but it must not be mistaken for a missing attribute (`AttributeError`)
                    if id(acc) not in found:
                        found[id(acc)] = dict(describe(None, owner, name, D, O, _pods, _xtype, handlers, qual), _id=id(acc),
                                              kind=f".other {lean_str('attr:' + type(acc).__name__)}", pykind="attr:" + type(acc).__name__)
                    sl.append((name, id(acc)))
                continue
            if id(acc) not in found:
                found[id(acc)] = describe(acc, owner, name, D, O, _pods, _xtype, handlers, qual)
            sl.append((name, id(acc)))
        raw_slots.append((xt, sl))
    rows = sorted(found.values(), key=lambda r: (r["cls"], r["attr"], r["kind"]))
    index = {r["_id"]: i for i, r in enumerate(rows)}
    classes = [(xt, [(n, index[i]) for n, i in sl]) for xt, sl in raw_slots]
    _CACHE = (rows, classes)
    return _CACHE


def describe(acc, owner, name, D, O, _pods, _xtype, handlers, qual) -> dict:
    kname = type(acc).__name__
    kind = KIND.get(kname) or f".other {lean_str(kname)}"
    r = {"_id": id(acc), "cls": qual(owner), "attr": name, "kind": kind, "pykind": kname,
         "aslist": getattr(acc, "aslist", None) is not None,
         "xtypes": sorted(getattr(acc, "xtypes", ()) or ()),
         "rootelem": [str(x) for x in (getattr(acc, "rootelem", ()) or ())],
         "follow_abstract": bool(getattr(acc, "follow_abstract", False)),
         "tag": None, "follow": None, "index": 0, "has_classes": False, "accept": [], "accept_unknown": False,
         "matcher": [], "targets": [], "paths": []}
    if kname == "LinkAccessor":
        r["tag"] = acc.tag if isinstance(acc.tag, str) else None
        r["follow"] = acc.follow
    elif kname in ("AttrProxyAccessor", "PhysicalLinkEndsAccessor", "TypecastAccessor"):
        r["follow"] = acc.attr
    elif kname == "RoleTagAccessor":
        r["tag"] = acc.role_tag
        r["has_classes"] = bool(acc.classes)
        if acc.classes:
            r["accept"] = [xt for xt, c in sorted(handlers.items()) if issubclass(c, tuple(acc.classes))]
            r["accept_unknown"] = issubclass(O.ModelElement, tuple(acc.classes))
    elif kname == "IndexAccessor":
        r["follow"] = acc.wrapped
        r["index"] = int(acc.index)
    elif kname == "Alias":
        r["follow"] = acc.target
    elif kname == "DeprecatedAccessor":
        r["follow"] = acc.alternative
    elif kname == "AttributeMatcherAccessor":
        r["aslist"] = acc._AttributeMatcherAccessor__aslist is not None
        ms = []
        for k, v in acc.attributes.items():
            pod = None
            for c in acc.class_.__mro__:
                if k in vars(c):
                    pod = vars(c)[k]
                    break
            if isinstance(pod, _pods.BoolPOD) and isinstance(v, bool):
                ms.append((pod.attribute, v))
            else:
                r["kind"] = f".other {lean_str(kname + ':non-bool-matcher')}"
        r["matcher"] = ms
    elif kname == "ReferenceSearchingAccessor":
        tcs = tuple(acc.target_classes)
        # `__candidate_types()`: the target classes, then the registered types of their proper subclasses
        r["targets"] = [_xtype.build_xtype(c) for c in tcs]
        if tcs:
            r["targets"] += [xt for xt, c in handlers.items() if issubclass(c, tcs) and c not in tcs]
        r["search_all"] = not tcs
        r["paths"] = [repr(a).split("'")[1].split(".") for a in acc.attrs]
    return r


def b(x) -> str:
    return "true" if x else "false"


def lopt(x) -> str:
    return "none" if x is None else f"(some {lean_str(x)})"


def llist(xs) -> str:
    return "[" + ", ".join(lean_str(x) for x in xs) + "]"


def row_lean(r: dict) -> str:
    m = "[" + ", ".join(f"({lean_str(a)}, {b(v)})" for a, v in r["matcher"]) + "]"
    p = "[" + ", ".join(llist(x) for x in r["paths"]) + "]"
    return (f"⟨{lean_str(r['cls'])}, {lean_str(r['attr'])}, {r['kind']}, {b(r['aslist'])}, {llist(r['xtypes'])}, "
            f"{llist(r['rootelem'])}, {b(r['follow_abstract'])}, {lopt(r['tag'])}, {lopt(r['follow'])}, {r['index']}, "
            f"{b(r['has_classes'])}, {llist(r['accept'])}, {b(r['accept_unknown'])}, {m}, {llist(r['targets'])}, {p}⟩")


HEAD = "-- GENERATED by harness/gen_reads.py from the live classes in /repo. Do not edit."


def generate():
    rows, classes = collect()
    files = []
    # ---- rows
    chunks = [rows[i:i + ROWS_PER_DEF] for i in range(0, len(rows), ROWS_PER_DEF)]
    rnames: list[tuple[str, str]] = []
    for fi in range(0, len(chunks), DEFS_PER_FILE):
        part = chunks[fi:fi + DEFS_PER_FILE]
        mod = f"ReadDescr{fi // DEFS_PER_FILE}"
        lines = [HEAD, "import Capella.Model.ReadTable", "namespace Capella.Gen.Reads", "open Capella.ReadTable", ""]
        for ci, chunk in enumerate(part):
            name = f"rows{fi + ci}"
            rnames.append((mod, name))
            lines.append(f"def {name} : List RRow := [")
            lines += ["  " + row_lean(r) + ("," if k < len(chunk) - 1 else "") for k, r in enumerate(chunk)]
            lines.append("]")
            lines.append(f"theorem {name}_ok : {name}.all RRow.ok = true := by decide +kernel")
            lines.append("")
        lines.append("end Capella.Gen.Reads")
        files.append((mod + ".lean", "\n".join(lines) + "\n", {"rows": sum(len(c) for c in part), "obligations": len(part)}))
    # ---- slots
    sdefs: list[list[tuple[str, list[tuple[str, int]]]]] = [[]]
    n = 0
    for xt, sl in classes:
        if n + len(sl) > SLOTS_PER_DEF and sdefs[-1]:
            sdefs.append([])
            n = 0
        sdefs[-1].append((xt, sl))
        n += len(sl)
    snames: list[tuple[str, str]] = []
    per_file = 6
    for fi in range(0, len(sdefs), per_file):
        part = sdefs[fi:fi + per_file]
        mod = f"ReadSlots{fi // per_file}"
        lines = [HEAD, "import Capella.Model.ReadTable", "namespace Capella.Gen.Reads", "open Capella.ReadTable", ""]
        for ci, chunk in enumerate(part):
            name = f"slots{fi + ci}"
            snames.append((mod, name))
            lines.append(f"def {name} : List Slots := [")
            for k, (xt, sl) in enumerate(chunk):
                body = ", ".join(f"({lean_str(a)}, {i})" for a, i in sl)
                lines.append(f"  ⟨{lean_str(xt)}, [{body}]⟩" + ("," if k < len(chunk) - 1 else ""))
            lines.append("]")
            lines.append(f"theorem {name}_bound : {name}.all (fun c => c.slots.all (fun p => p.2 < {len(rows)})) = true := by decide +kernel")
            lines.append("")
        lines.append("end Capella.Gen.Reads")
        files.append((mod + ".lean", "\n".join(lines) + "\n", {"classes": sum(len(c) for c in part),
                                                                 "slots": sum(len(sl) for c in part for _, sl in c), "obligations": len(part)}))
    # ---- index
    kinds: dict[str, int] = {}
    for r in rows:
        kinds[r["pykind"]] = kinds.get(r["pykind"], 0) + 1
    slot_kinds: dict[str, int] = {}
    for _, sl in classes:
        for _, i in sl:
            slot_kinds[rows[i]["pykind"]] = slot_kinds.get(rows[i]["pykind"], 0) + 1
    idx = [HEAD.replace(" from the live classes in /repo", ""),
           *[f"import Capella.Gen.{m}" for m in sorted({m for m, _ in rnames} | {m for m, _ in snames})],
           "namespace Capella.Gen.Reads", "open Capella.ReadTable", "",
           "def rowChunks : List (List RRow) := [" + ", ".join(n for _, n in rnames) + "]",
           "def slotChunks : List (List Slots) := [" + ", ".join(n for _, n in snames) + "]",
           "def table : Table := ⟨rowChunks.flatten, slotChunks.flatten⟩", "",
           f"theorem rows_length : table.rows.length = {len(rows)} := by decide +kernel",
           f"theorem classes_length : table.classes.length = {len(classes)} := by decide +kernel", "",
           "/-- every relation descriptor of every registered class is of a kind the read model classifies (fragment-aware,",
           "raw child iteration, delegating, searching, or a listed extension kind) and carries the parameters it needs -/",
           "theorem rows_ok : ∀ r ∈ table.rows, r.ok = true := by",
           "  intro r hr",
           "  simp only [table, rowChunks, List.mem_flatten, List.mem_cons, List.not_mem_nil, or_false] at hr",
           "  obtain ⟨c, hc, hrc⟩ := hr",
           "  rcases hc with " + " | ".join("rfl" for _ in rnames),
           *[f"  · exact List.all_eq_true.mp {n}_ok r hrc" for _, n in rnames],
           "", "end Capella.Gen.Reads", ""]
    files.append(("Reads.lean", "\n".join(idx), {"rows": len(rows), "classes": len(classes),
                                                     "slots": sum(len(sl) for _, sl in classes), "kinds": kinds,
                                                     "slot_kinds": slot_kinds,
                                                     "other_kinds": sorted({r["pykind"] for r in rows if r["kind"].startswith(".other")}),
                                                     "obligations": len(rnames) + len(snames) + 3}))
    return files


if __name__ == "__main__":
    import json

    print(json.dumps({f: i for f, _, i in generate()}, indent=1))
