"""Translator for the diagram-parser dispatch tables and the effect signature of every function behind them (C11).

Reflective part: dumps `aird._semantic.STYLECLASS_LOOKUP` (+ the generic fallback), `aird._visual.VISUAL_TYPES`,
`aird._filters.COMPOSITE_FILTERS` / `GLOBAL_FILTERS` of the capellambse under `common.REPO`: which function(s)
a key dispatches to.

Syntactic part (no model logic is evaluated): for every function of the `capellambse.aird` package the list of
*access sites* in its source — attribute/child/link reads, stores, deletes, mutator calls — each classified by the
kind of the receiver (`xml` element of a model tree, its `attrib`, the loader, a diagram object under
construction, the element builder, a local container, ...), inferred from the type annotations of the code and
the obvious data flow (`next(x.iterchildren(..))` is an element, `seb.melodyobjs[0]` is an element, ...), plus
the call edges between these functions.  Anything the analyser cannot classify is emitted as `unknown` /
`.other`, never dropped; the kernel-checked obligations in the generated Lean file fail closed on those.

Output: `lean/Capella/Gen/Effects.lean` (+ `EffectsRows<k>.lean` chunks).
"""

from __future__ import annotations

import ast
import functools
import importlib
import inspect
import sys
import textwrap

import common
from gen_formats import chars

ROWS_PER_CHUNK = 80
PKG = "capellambse.aird"
MODULES = ["", "._common", "._semantic", "._visual", "._box_factories", "._edge_factories", "._styling",
           "._filters", "._filters.composite", "._filters.global"]

# read-only entry points of the package (everything reachable from them, and from every registered table
# entry, must be free of writes to the model trees)
ENTRY_POINTS = [
    "aird:parse_diagram", "aird:parse_diagrams", "aird:enumerate_descriptors", "aird:iter_visible",
    "aird:find_target", "aird:get_styleclass", "aird:viewpoint_of", "aird:is_representation_descriptor",
    "_filters:ActiveFilters.__init__", "_filters:ActiveFilters.__iter__", "_filters:ActiveFilters.__contains__",
    "_filters:ActiveFilters.__len__", "_filters:ActiveFilters.__repr__",
]

XML_TO_XML = {"getparent", "getnext", "getprevious", "find", "getroottree", "getroot"}
XML_TO_LIST = {"iterchildren", "iterdescendants", "iter", "iterancestors", "itersiblings", "findall", "xpath",
               "getchildren", "iterfind"}
XML_TO_PURE = {"get", "findtext", "keys", "items", "values", "index"}
XML_FIELDS = {"tag", "text", "tail", "nsmap", "prefix", "sourceline", "base"}
ATTRIB_READ = {"get", "keys", "items", "values", "has_key", "iterkeys", "itervalues", "iteritems", "copy"}
LOADER_TO_XML = {"follow_link"}
LOADER_TO_LIST = {"follow_links", "xpath", "xpath2", "iterall", "iterdescendants", "iterchildren_xt", "iterall_xt"}
LOADER_TO_PURE = {"find_fragment", "get_model_info", "referenced_viewpoints"}
WRITE_METHODS = {
    "set": "setm", "append": "append", "insert": "insert", "remove": "remove", "extend": "extend", "clear": "clear",
    "pop": "pop", "update": "update", "setdefault": "setdefault", "popitem": "pop", "addnext": "insert",
    "addprevious": "insert", "replace": "insert", "add": "append", "discard": "remove", "sort": "update",
    "reverse": "update", "__setitem__": "store", "__delitem__": "del", "strip_attributes": "del",
}
MODEL_KINDS = {"xml", "attrib", "loader", "modelobj"}       # receivers that are (part of) the model
HANDLE_KINDS = MODEL_KINDS | {"xmllist", "builder", "args"}  # values through which the model can be reached
BUILTIN_PURE = {"len", "isinstance", "hasattr", "str", "int", "float", "bool", "repr", "print", "min", "max", "abs",
                "sum", "any", "all", "range", "type", "id", "callable", "issubclass", "round", "format", "ord", "chr"}
BUILTIN_SEQ = {"list", "tuple", "iter", "reversed", "sorted", "set", "frozenset"}


def ann_kind(text: str | None) -> object:
    if not text:
        return "unknown"
    seq = any(w in text for w in ("Sequence[", "list[", "Iterator[", "Iterable[", "tuple[", "MutableSet["))
    if "_Element" in text or "DRepresentationDescriptor" in text:
        if "tuple[" in text:
            return "unknown"
        return "xmllist" if seq else "xml"
    if "ElementBuilder" in text:
        return "builder"
    if "FilterArguments" in text:
        return "args"
    if "MelodyLoader" in text:
        return "loader"
    if "MelodyModel" in text or "model.diagram.Diagram" in text:
        return "modelobj"
    if "diagram." in text or text in ("_T", "_TDiagramElement") or "StackingBox" in text or "CenterAnchoredBox" in text:
        return "diag"
    return "localv"


ATT: dict[str, str] = {}   # the ATT_* constants of aird._common, resolved reflectively in Analysis.load()

SELF_CLASSES = {"_filters:ActiveFilters", "_semantic:FactorySelector"}   # other classes of the package are diagram-side objects
EXT_RETURNS = {"helpers.xpath_fetch_unique": "xml", "helpers.xtype_of": "localv", "helpers.unescape_linked_text": "localv",
               "t.cast": "arg1"}


class Fn:
    def __init__(self, fid, node, mod, cls, parent):
        self.fid, self.node, self.mod, self.cls, self.parent = fid, node, mod, cls, parent
        self.effects: list[tuple] = []
        self.calls: set[str] = set()
        self.ret = ann_kind(ast.unparse(node.returns)) if node.returns is not None else "unknown"


class Analysis:
    def __init__(self):
        self.fns: dict[str, Fn] = {}
        self.mod_alias: dict[str, dict[str, str]] = {}    # module short name -> {local alias: module short name}
        self.class_fields: dict[str, dict[str, object]] = {}
        self.classes: set[str] = set()

    # ------------------------------------------------------------ collection
    def load(self):
        if str(common.REPO) not in sys.path:
            sys.path.insert(0, str(common.REPO))
        common_mod = importlib.import_module(PKG + "._common")
        for name in dir(common_mod):
            if name.startswith("ATT_") and isinstance(getattr(common_mod, name), str):
                ATT[name] = getattr(common_mod, name)
        for suffix in MODULES:
            m = importlib.import_module(PKG + suffix)
            short = "aird" if suffix == "" else suffix.split(".")[-1]
            if suffix in ("._filters.composite", "._filters.global"):
                short = "_filters." + suffix.split(".")[-1]
            src = inspect.getsource(m)
            tree = ast.parse(src)
            alias: dict[str, str] = {}
            for n in ast.walk(tree):
                if isinstance(n, ast.ImportFrom):
                    for a in n.names:
                        tgt = a.name
                        if tgt in ("_common", "_semantic", "_visual", "_box_factories", "_edge_factories", "_styling",
                                   "_filters"):
                            alias[a.asname or a.name] = tgt
                        elif tgt in ("composite",):
                            alias[a.asname or a.name] = "_filters.composite"
                        elif tgt == "aird":
                            alias[a.asname or a.name] = "aird"
            self.mod_alias[short] = alias
            self._collect(tree, short, None, None)

    def _collect(self, node, mod, cls, parent):
        for ch in ast.iter_child_nodes(node):
            if isinstance(ch, (ast.FunctionDef, ast.AsyncFunctionDef)):
                if any(isinstance(d, ast.Attribute) and d.attr == "overload" for d in ch.decorator_list):
                    continue
                q = ch.name if parent is None else f"{parent}.{ch.name}"
                if cls and parent is None:
                    q = f"{cls}.{ch.name}"
                if any(isinstance(d, ast.Attribute) and d.attr == "setter" for d in ch.decorator_list):
                    q += ".setter"
                fid = f"{mod}:{q}"
                self.fns[fid] = Fn(fid, ch, mod, cls, parent)
                self._collect(ch, mod, cls, q)
            elif isinstance(ch, ast.ClassDef):
                self.classes.add(f"{mod}:{ch.name if cls is None else cls + '.' + ch.name}")
                self._collect(ch, mod, ch.name if cls is None else f"{cls}.{ch.name}", None)
            elif isinstance(ch, (ast.If, ast.Try, ast.With, ast.For, ast.While)):
                self._collect(ch, mod, cls, parent)

    # ------------------------------------------------------------ per function
    def analyse(self):
        # class fields from __init__ (two rounds so that properties see them)
        for _ in range(2):
            for fn in self.fns.values():
                fn.effects, fn.calls = [], set()
                FnWalker(self, fn).run()


class FnWalker:
    def __init__(self, an: Analysis, fn: Fn):
        self.an, self.fn = an, fn
        self.env: dict[str, object] = {}

    def eff(self, recv, op, key, node):
        if isinstance(recv, tuple):
            recv = "localv"
        self.fn.effects.append((recv, op, str(key), getattr(node, "lineno", 0) - self.fn.node.lineno))

    def run(self):
        a = self.fn.node.args
        for arg in a.posonlyargs + a.args + a.kwonlyargs + ([a.vararg] if a.vararg else []) + ([a.kwarg] if a.kwarg else []):
            k = ann_kind(ast.unparse(arg.annotation)) if arg.annotation is not None else "unknown"
            if arg.arg in ("self", "cls"):
                k = "self" if f"{self.fn.mod}:{self.fn.cls}" in SELF_CLASSES else "diag"
            if arg is a.vararg and arg.annotation is not None and ann_kind(ast.unparse(arg.annotation)) == "localv":
                k = "localv"
            self.env[arg.arg] = k
        # closures see the enclosing function's parameters
        if self.fn.parent:
            outer = self.an.fns.get(f"{self.fn.mod}:{self.fn.parent}")
            if outer is not None:
                oa = outer.node.args
                for arg in oa.posonlyargs + oa.args + oa.kwonlyargs:
                    if arg.arg not in self.env:
                        self.env[arg.arg] = ann_kind(ast.unparse(arg.annotation)) if arg.annotation is not None else "unknown"
        for _ in range(2):  # second pass: loop-carried / later-defined names
            self.fn.effects.clear()
            self.fn.calls.clear()
            self.block(self.fn.node.body)
        # dedupe
        seen, out = set(), []
        for e in self.fn.effects:
            if e[:3] not in seen:
                seen.add(e[:3])
                out.append(e)
        self.fn.effects = out

    # ---- statements
    def block(self, stmts):
        for s in stmts:
            self.stmt(s)

    def stmt(self, s):
        if isinstance(s, (ast.FunctionDef, ast.AsyncFunctionDef, ast.ClassDef)):
            if isinstance(s, ast.FunctionDef):
                self.env[s.name] = self._nested_id(s.name)
            return
        if isinstance(s, ast.Assign):
            k = self.expr(s.value)
            for t_ in s.targets:
                self.assign(t_, k, s)
        elif isinstance(s, ast.AnnAssign):
            k = self.expr(s.value) if s.value is not None else ann_kind(ast.unparse(s.annotation))
            if k in ("unknown", "localv") and s.annotation is not None:
                ak = ann_kind(ast.unparse(s.annotation))
                k = ak if ak != "unknown" else k
            self.assign(s.target, k, s)
        elif isinstance(s, ast.AugAssign):
            k = self.expr(s.value)
            tk = self.expr(s.target)
            self.assign(s.target, tk if tk != "unknown" else k, s)
        elif isinstance(s, ast.Delete):
            for t_ in s.targets:
                if isinstance(t_, ast.Subscript):
                    self.eff(self.expr(t_.value), "del", self.const(t_.slice), s)
                elif isinstance(t_, ast.Attribute):
                    self.eff(self.expr(t_.value), "del", t_.attr, s)
        elif isinstance(s, ast.For):
            it = self.expr(s.iter)
            self.bind(s.target, self.elem(it))
            self.block(s.body)
            self.block(s.orelse)
        elif isinstance(s, ast.While):
            self.expr(s.test)
            self.block(s.body)
            self.block(s.orelse)
        elif isinstance(s, ast.If):
            self.expr(s.test)
            self.block(s.body)
            self.block(s.orelse)
        elif isinstance(s, ast.With):
            for it in s.items:
                k = self.expr(it.context_expr)
                if it.optional_vars is not None:
                    self.bind(it.optional_vars, k)
            self.block(s.body)
        elif isinstance(s, ast.Try):
            self.block(s.body)
            for h in s.handlers:
                if h.name:
                    self.env[h.name] = "localv"
                self.block(h.body)
            self.block(s.orelse)
            self.block(s.finalbody)
        elif isinstance(s, ast.Return):
            if s.value is not None:
                k = self.expr(s.value)
                if self.fn.ret == "unknown" and k != "unknown":
                    self.fn.ret = k
        elif isinstance(s, ast.Expr):
            self.expr(s.value)
        elif isinstance(s, ast.Raise):
            if s.exc is not None:
                self.expr(s.exc)
        elif isinstance(s, ast.Assert):
            self.expr(s.test)
        elif isinstance(s, (ast.Pass, ast.Break, ast.Continue, ast.Import, ast.ImportFrom, ast.Global, ast.Nonlocal)):
            pass
        elif isinstance(s, ast.Match):
            self.expr(s.subject)
            for c in s.cases:
                self.block(c.body)
        else:
            self.eff("unknown", "other", "stmt:" + type(s).__name__, s)

    def _nested_id(self, name):
        base = self.fn.fid.split(":", 1)[1]
        return ("fn", f"{self.fn.mod}:{base}.{name}")

    def assign(self, target, k, node):
        if isinstance(target, ast.Name):
            self.env[target.id] = k
        elif isinstance(target, (ast.Tuple, ast.List)):
            self.bind(target, k)
        elif isinstance(target, ast.Subscript):
            rk = self.expr(target.value)
            self.expr(target.slice)
            self.eff(rk, "store", self.const(target.slice), node)
        elif isinstance(target, ast.Attribute):
            rk = self.expr(target.value)
            if rk == "self":
                cf = self.an.class_fields.setdefault(f"{self.fn.mod}:{self.fn.cls}", {})
                if cf.get(target.attr, "unknown") == "unknown":
                    cf[target.attr] = k
                self.eff("localv", "fieldStore", target.attr, node)
            else:
                self.eff(rk, "fieldStore", target.attr, node)
        elif isinstance(target, ast.Starred):
            self.assign(target.value, "localv", node)

    def bind(self, target, k):
        if isinstance(target, ast.Name):
            self.env[target.id] = k
        elif isinstance(target, (ast.Tuple, ast.List)):
            parts = k[1] if isinstance(k, tuple) and k[0] == "tuple" else None
            if k == "xml":
                self.eff("xml", "iter", "*", target)
            for i, e in enumerate(target.elts):
                if parts is not None and i < len(parts):
                    self.bind(e, parts[i])
                else:
                    # unpacking an element yields its children; unpacking anything else unknown yields unknowns
                    self.bind(e, k if k in ("xml", "diag", "localv") else "unknown")
        elif isinstance(target, ast.Starred):
            self.bind(target.value, "localv")

    @staticmethod
    def const(node):
        if isinstance(node, ast.Constant):
            return node.value
        name = node.attr if isinstance(node, ast.Attribute) else (node.id if isinstance(node, ast.Name) else "")
        if name.startswith("ATT_"):
            return ATT.get(name, name)
        return "*"

    def elem(self, k):
        if k == "self":
            fid = f"{self.fn.mod}:{self.fn.cls}.__iter__"
            if fid in self.an.fns:
                self.fn.calls.add(fid)
            return "localv"
        if k == "xmllist":
            return "xml"
        if k == "xml":
            return "xml"          # iterating an element yields its children
        if k == "attrib":
            return "localv"
        if k == "diag":
            return "diag"
        if isinstance(k, tuple) and k[0] == "seq":
            return k[1]
        if k == "localv":
            return "localv"
        return "unknown"

    @staticmethod
    def join(a, b):
        if a == b:
            return a
        for x, y in ((a, b), (b, a)):
            if x in ("localv", "unknown") and y not in ("localv", "unknown"):
                return y
        if "unknown" in (a, b):
            return "unknown"
        return a

    # ---- expressions
    def expr(self, e) -> object:
        if e is None:
            return "localv"
        m = getattr(self, "e_" + type(e).__name__, None)
        if m is None:
            for ch in ast.iter_child_nodes(e):
                if isinstance(ch, ast.expr):
                    self.expr(ch)
            return "localv"
        k = m(e)
        if isinstance(k, tuple) and k[0] == "fn" and k[1] in self.an.fns:
            self.fn.calls.add(k[1])
        return k

    def e_Constant(self, e):
        return "localv"

    def e_JoinedStr(self, e):
        for v in e.values:
            self.expr(v)
        return "localv"

    def e_FormattedValue(self, e):
        self.expr(e.value)
        return "localv"

    def e_Name(self, e):
        if e.id in self.env:
            return self.env[e.id]
        alias = self.an.mod_alias.get(self.fn.mod, {})
        if e.id in alias:
            return ("mod", alias[e.id])
        fid = f"{self.fn.mod}:{e.id}"
        if fid in self.an.fns:
            return ("fn", fid)
        return "global"

    def e_Attribute(self, e):
        rk = self.expr(e.value)
        a = e.attr
        if rk == "builder":
            return {"data_element": "xml", "diag_element": "xml", "diagram_tree": "xml", "melodyobjs": "xmllist",
                    "melodyloader": "loader", "target_diagram": "diag"}.get(a, "localv")
        if rk == "args":
            return {"diagram_root": "xml", "melodyloader": "loader", "target_diagram": "diag"}.get(a, "localv")
        if rk == "xml":
            if a == "attrib":
                return "attrib"
            if a in XML_FIELDS:
                self.eff("xml", "field", a, e)
                return "localv"
            return ("meth", "xml", a)
        if rk in ("attrib", "loader", "xmllist"):
            if rk == "loader" and a == "trees":
                self.eff("loader", "field", a, e)
                return "loadertrees"
            return ("meth", rk, a)
        if rk == "loadertrees":
            return ("meth", "loadertrees", a)
        if rk == "loaderfrag":
            if a == "root":
                return "xml"
            self.eff("loader", "field", a, e)
            return "localv"
        if rk == "modelobj":
            if a == "_loader":
                return "loader"
            if a == "_element":
                return "xml"
            return ("meth", "modelobj", a)
        if rk == "self":
            cf = self.an.class_fields.get(f"{self.fn.mod}:{self.fn.cls}", {})
            if a in cf:
                return cf[a]
            fid = f"{self.fn.mod}:{self.fn.cls}.{a}"
            if fid in self.an.fns:
                f = self.an.fns[fid]
                if any(isinstance(d, ast.Name) and d.id == "property" for d in f.node.decorator_list):
                    self.fn.calls.add(fid)
                    return f.ret
                return ("fn", fid)
            return "unknown"
        if rk == "diag":
            return "diag"
        if isinstance(rk, tuple) and rk[0] == "mod":
            fid = f"{rk[1]}:{a}"
            if fid in self.an.fns:
                return ("fn", fid)
            return ("ext", f"{rk[1]}.{a}")
        if isinstance(rk, tuple) and rk[0] == "ext":
            fid = f"{rk[1].replace('.', ':', 1)}.{a}" if ":" not in rk[1] else f"{rk[1]}.{a}"
            if fid in self.an.fns:
                return ("fn", fid)
            return ("ext", f"{rk[1]}.{a}")
        if rk == "global":
            return ("ext", f"{ast.unparse(e.value)}.{a}")
        if rk == "localv":
            return ("meth", "localv", a)
        if isinstance(rk, tuple) and rk[0] in ("seq", "tuple"):
            return ("meth", "localv", a)
        return ("meth", "unknown", a)

    def e_Subscript(self, e):
        rk = self.expr(e.value)
        self.expr(e.slice)
        key = self.const(e.slice)
        if isinstance(rk, tuple) and rk[0] == "meth":   # e.g. collections.defaultdict[str, list]
            return rk
        if rk == "xmllist":
            return "xmllist" if isinstance(e.slice, ast.Slice) else "xml"
        if rk == "xml":
            self.eff("xml", "index", key, e)
            return "xml"
        if rk == "attrib":
            self.eff("attrib", "index", key, e)
            return "localv"
        if rk == "loader":
            self.eff("loader", "follow", "[]", e)
            return "xml"
        if rk == "loadertrees":
            return "loaderfrag"
        if rk == "diag":
            return "diag"
        if isinstance(rk, tuple) and rk[0] == "seq":
            return rk if isinstance(e.slice, ast.Slice) else rk[1]
        if isinstance(rk, tuple) and rk[0] == "tuple":
            if isinstance(e.slice, ast.Constant) and isinstance(e.slice.value, int) and e.slice.value < len(rk[1]):
                return rk[1][e.slice.value]
            return "unknown"
        if rk in ("localv", "global") or isinstance(rk, tuple):
            return "localv"
        return "unknown"

    def e_Call(self, e):
        argk = [self.expr(a.value if isinstance(a, ast.Starred) else a) for a in e.args]
        kwk = [self.expr(k.value) for k in e.keywords]
        f = e.func
        # builtins and well-known constructors by bare name
        if isinstance(f, ast.Name) and f.id not in self.env:
            n = f.id
            if n == "next":
                return self.elem(argk[0]) if argk else "unknown"
            if n in BUILTIN_SEQ:
                if not argk:
                    return "localv"
                k0 = argk[0]
                if k0 == "self":
                    self.elem("self")
                    return "localv"
                if k0 in ("xmllist",):
                    return "xmllist"
                if k0 == "xml" and n in ("list", "tuple", "iter", "reversed"):
                    self.eff("xml", "iter", "*", e)
                    return "xmllist"
                if k0 == "attrib":
                    self.eff("attrib", "iter", "*", e)
                    return "localv"
                if isinstance(k0, tuple) and k0[0] == "seq":
                    return k0
                if k0 == "diag":
                    return ("seq", "diag")
                return "localv"
            if n == "enumerate":
                return ("seq", ("tuple", ("localv", self.elem(argk[0]) if argk else "unknown")))
            if n == "zip":
                return ("seq", ("tuple", tuple(self.elem(k) for k in argk)))
            if n in ("map", "filter"):
                return ("seq", self.elem(argk[-1])) if argk else "localv"
            if n in ("dict",):
                if argk and argk[0] == "attrib":
                    self.eff("attrib", "iter", "*", e)
                return "localv"
            if n == "getattr":
                if argk and argk[0] in MODEL_KINDS | {"unknown"}:
                    self.eff(argk[0], "other", "getattr", e)
                return "diag" if argk and argk[0] == "diag" else "unknown"
            if n in ("setattr", "delattr"):
                self.eff(argk[0] if argk else "unknown", "fieldStore", n, e)
                return "localv"
            if n == "super":
                return "self"
            if n in BUILTIN_PURE:
                if n == "len" and argk and argk[0] == "xml":
                    self.eff("xml", "iter", "*", e)
                if n == "len" and argk and argk[0] == "attrib":
                    self.eff("attrib", "iter", "*", e)
                return "localv"
        fk = self.expr(f)
        if isinstance(f, ast.Name) and f.id in self.env and not (isinstance(fk, tuple) and fk[0] == "fn"):
            handed = [k for k in argk + kwk if k in HANDLE_KINDS]
            if handed:
                self.eff(handed[0], "dyncall", f.id, e)
            return "diag" if handed or fk == "diag" else "unknown"
        if isinstance(fk, tuple) and fk[0] == "meth":
            return self.method_call(fk[1], fk[2], e, argk)
        if isinstance(fk, tuple) and fk[0] == "fn":
            self.fn.calls.add(fk[1])
            callee = self.an.fns[fk[1]]
            if callee.node.name == "__init__" or False:
                return "localv"
            return callee.ret
        if isinstance(fk, tuple) and fk[0] == "ext":
            name = fk[1]
            last = name.split(".")[-1]
            # constructors of well-known kinds
            cid = None
            for mod in self.an.mod_alias:
                if f"{mod}:{last}.__init__" in self.an.fns and name.split(".")[0] in (mod, *[a for a, m_ in self.an.mod_alias.get(self.fn.mod, {}).items() if m_ == mod]):
                    cid = f"{mod}:{last}.__init__"
            if last.endswith("ElementBuilder"):
                return "builder"
            if last == "FilterArguments":
                return "args"
            if cid is not None:
                self.fn.calls.add(cid)
            if name.startswith("diagram.") or last in ("StackingBox", "CenterAnchoredBox"):
                return "diag"
            if name == "dataclasses.replace":
                return argk[0] if argk else "unknown"
            if name == "t.cast":
                return argk[1] if len(argk) > 1 else "unknown"
            if name.startswith(("collections.", "itertools.", "functools.", "math.", "re.", "urllib.", "struct.",
                                "contextlib.", "markupsafe.", "operator.", "t.", "cabc.", "importlib.", "etree.XPath",
                                "builder.", "LOGGER.", "C.LOGGER.", "c.LOGGER.", "_common.LOGGER.")) or name.split(".")[0] in ("LOGGER",):
                handed = [k for k in argk + kwk if k in MODEL_KINDS]
                if handed and not name.split(".")[-2:-1] == ["LOGGER"] and "LOGGER" not in name:
                    self.eff(handed[0], "escape", name, e)
                if name.startswith("itertools.chain"):
                    return ("seq", "localv")
                return "localv"
            if name == "t.cast":
                return argk[1] if len(argk) > 1 else "unknown"
            handed = [k for k in argk + kwk if k in HANDLE_KINDS]
            if handed:
                self.eff(handed[0], "escape", name, e)
            if name in EXT_RETURNS:
                return EXT_RETURNS[name]
            return "localv" if not handed else "unknown"
        if fk == "global" or (isinstance(f, ast.Name) and f.id not in self.env):
            name = ast.unparse(f)
            if name.endswith("ElementBuilder"):
                return "builder"
            if name == "FilterArguments":
                return "args"
            cid = f"{self.fn.mod}:{name}.__init__"
            if cid in self.an.fns:
                self.fn.calls.add(cid)
                return "localv"
            if f"{self.fn.mod}:{name}" in self.an.classes:
                return "localv"
            handed = [k for k in argk + kwk if k in HANDLE_KINDS]
            if handed:
                self.eff(handed[0], "escape", name, e)
            return "localv" if not handed else "unknown"
        # call through a variable (factory picked from a table, a converter, a partial)
        name = ast.unparse(f)
        handed = [k for k in argk + kwk if k in HANDLE_KINDS]
        if handed:
            self.eff(handed[0], "dyncall", name, e)
            return "diag"
        if fk == "diag":
            return "diag"
        return "localv" if fk in ("localv",) else "unknown"

    def method_call(self, rk, meth, e, argk):
        if rk == "xml":
            if meth in XML_TO_XML:
                self.eff("xml", "parent", meth, e)
                return "xml"
            if meth in XML_TO_LIST:
                key = self.const(e.args[0]) if e.args else "*"
                self.eff("xml", "xpath" if meth in ("xpath", "find", "findall", "iterfind") else "iter", key, e)
                return "xmllist"
            if meth in XML_TO_PURE:
                self.eff("xml", "get", self.const(e.args[0]) if e.args else "*", e)
                return "localv"
            self.eff("xml", WRITE_METHODS.get(meth, "other"), meth, e)
            return "unknown"
        if rk == "attrib":
            if meth in ATTRIB_READ:
                self.eff("attrib", "get", self.const(e.args[0]) if e.args else "*", e)
                return "localv"
            self.eff("attrib", WRITE_METHODS.get(meth, "other"), meth, e)
            return "unknown"
        if rk == "loader":
            if meth in LOADER_TO_XML:
                self.eff("loader", "follow", meth, e)
                return "xml"
            if meth in LOADER_TO_LIST:
                self.eff("loader", "follow", meth, e)
                return "xmllist"
            if meth in LOADER_TO_PURE:
                self.eff("loader", "follow", meth, e)
                return "localv"
            self.eff("loader", "other", meth, e)
            return "unknown"
        if rk == "loadertrees":
            self.eff("loader", "field" if meth in ("items", "values", "keys", "get") else "other", "trees." + meth, e)
            return "localv"
        if rk == "xmllist":
            if meth == "copy":
                return "xmllist"
            # a Python list of elements: list methods change the list, not a tree
            self.eff("localv", "call", meth, e)
            return "localv"
        if rk == "modelobj":
            self.eff("modelobj", "call" if meth in ("by_uuid", "invalidate_cache") else "other", meth, e)
            return "unknown"
        if rk == "localv":
            self.eff("localv", "call", meth, e)
            handed = [k for k in argk if k in MODEL_KINDS]
            if meth in ("get", "pop", "copy", "values", "items"):
                return "localv"
            return "localv"
        # unknown receiver: reads are harmless, mutator names fail closed
        if meth in WRITE_METHODS:
            self.eff("unknown", WRITE_METHODS[meth], meth, e)
        else:
            self.eff("unknown", "call", meth, e)
        return "unknown"

    def e_IfExp(self, e):
        self.expr(e.test)
        return self.join(self.expr(e.body), self.expr(e.orelse))

    def e_BoolOp(self, e):
        ks = [self.expr(v) for v in e.values]
        return functools.reduce(self.join, ks)

    def e_NamedExpr(self, e):
        k = self.expr(e.value)
        self.assign(e.target, k, e)
        return k

    def e_Tuple(self, e):
        return ("tuple", tuple(self.expr(x) for x in e.elts))

    def e_List(self, e):
        ks = [self.expr(x.value if isinstance(x, ast.Starred) else x) for x in e.elts]
        if ks and all(k == "xml" for k in ks):
            return "xmllist"
        if ks and any(k == "xml" for k in ks):
            return "xmllist"
        return "localv"

    e_Set = e_List

    def e_Dict(self, e):
        for k in e.keys:
            if k is not None:
                self.expr(k)
        for v in e.values:
            self.expr(v)
        return "localv"

    def _comp(self, e, elt):
        for g in e.generators:
            self.bind(g.target, self.elem(self.expr(g.iter)))
            for c in g.ifs:
                self.expr(c)
        k = self.expr(elt)
        return "xmllist" if k == "xml" else ("seq", k) if k == "diag" else "localv"

    def e_ListComp(self, e):
        return self._comp(e, e.elt)

    e_SetComp = e_ListComp
    e_GeneratorExp = e_ListComp

    def e_DictComp(self, e):
        for g in e.generators:
            self.bind(g.target, self.elem(self.expr(g.iter)))
            for c in g.ifs:
                self.expr(c)
        self.expr(e.key)
        self.expr(e.value)
        return "localv"

    def e_Lambda(self, e):
        self.expr(e.body)
        return "localv"

    def e_Compare(self, e):
        self.expr(e.left)
        for op, c in zip(e.ops, e.comparators):
            k = self.expr(c)
            if isinstance(op, (ast.In, ast.NotIn)) and k == "attrib":
                self.eff("attrib", "get", self.const(e.left), e)
            elif isinstance(op, (ast.In, ast.NotIn)) and k == "xml":
                self.eff("xml", "iter", "*", e)
        return "localv"

    def e_BinOp(self, e):
        a, b = self.expr(e.left), self.expr(e.right)
        if "xmllist" in (a, b):
            return "xmllist"
        return "diag" if "diag" in (a, b) else "localv"

    def e_UnaryOp(self, e):
        self.expr(e.operand)
        return "localv"

    def e_Starred(self, e):
        return self.expr(e.value)

    def e_Await(self, e):
        return self.expr(e.value)

    def e_Yield(self, e):
        return self.expr(e.value) if e.value is not None else "localv"

    def e_YieldFrom(self, e):
        return self.expr(e.value)

    def e_Slice(self, e):
        for x in (e.lower, e.upper, e.step):
            if x is not None:
                self.expr(x)
        return "localv"


# ------------------------------------------------------------------ dispatch tables (reflective)


def fid_of(obj, an: Analysis) -> list[tuple[str, str]]:
    """[(role, function id)] a table value dispatches to; unknown objects become ('other', repr)."""
    import capellambse.aird._semantic as sem

    if isinstance(obj, sem.FactorySelector):
        return [("box", fid_of(obj.box, an)[0][1]), ("edge", fid_of(obj.edge, an)[0][1])]
    if isinstance(obj, functools.partial):
        return fid_of(obj.func, an)
    f = getattr(obj, "__func__", obj)
    mod = getattr(f, "__module__", "") or ""
    qn = getattr(f, "__qualname__", None)
    if qn is None or not mod.startswith(PKG):
        return [("any", "?" + repr(obj)[:60])]
    if qn.endswith("phase1dummy") and getattr(f, "__closure__", None):
        for name, cell in zip(f.__code__.co_freevars, f.__closure__):
            if name == "func":
                return fid_of(cell.cell_contents, an)
    short = "aird" if mod == PKG else mod[len(PKG) + 1:]
    qn = qn.replace(".<locals>", "")
    fid = f"{short}:{qn}"
    return [("any", fid if fid in an.fns else "?" + fid)]


def collect() -> dict:
    an = Analysis()
    an.load()
    an.analyse()
    import capellambse.aird._filters as flt
    import capellambse.aird._semantic as sem
    import capellambse.aird._visual as vis

    tables = []
    for key, (sc, fac) in sem.STYLECLASS_LOOKUP.items():
        tables.append({"table": "semantic", "key": key, "styleclass": sc, "targets": fid_of(fac, an)})
    tables.append({"table": "semantic", "key": "<fallback>", "styleclass": None, "targets": fid_of(sem._GENERIC_FACTORIES, an)})
    for key, fac in vis.VISUAL_TYPES.items():
        tables.append({"table": "visual", "key": key, "styleclass": None,
                       "targets": fid_of(fac, an) if fac is not None else [("any", "_common:SkipObject.raise_")]})
    for key, fac in flt.COMPOSITE_FILTERS.items():
        tables.append({"table": "composite", "key": key, "styleclass": None, "targets": fid_of(fac, an)})
    for key, fac in flt.GLOBAL_FILTERS.items():
        tables.append({"table": "global", "key": key, "styleclass": None, "targets": fid_of(fac, an)})
    fns = sorted(an.fns)
    return {
        "functions": fns,
        "effects": {f: an.fns[f].effects for f in fns},
        "calls": {f: sorted(c for c in an.fns[f].calls if c in an.fns) for f in fns},
        "tables": tables,
        "entry_points": [e for e in ENTRY_POINTS],
    }


# ------------------------------------------------------------------ Lean emission

WRITE_OPS = {"store", "del", "setm", "append", "insert", "remove", "extend", "clear", "pop", "update", "setdefault", "fieldStore"}
RECVS = ["xml", "attrib", "xmllist", "loader", "diag", "builder", "args", "localv", "modelobj", "self", "global", "unknown"]
OPS = ["get", "index", "iter", "parent", "xpath", "follow", "field", "call", "store", "del", "setm", "append", "insert",
       "remove", "extend", "clear", "pop", "update", "setdefault", "fieldStore", "escape", "dyncall", "other"]


def generate():
    d = collect()
    fns = d["functions"]
    idx = {f: i for i, f in enumerate(fns)}
    rows = []
    for f in fns:
        for recv, op, key, _ln in d["effects"][f]:
            if isinstance(recv, tuple) or recv not in RECVS:
                recv = "unknown" if recv in ("unknown",) else ("localv" if recv in ("loadertrees", "loaderfrag") else "unknown")
            rows.append((idx[f], recv, op if op in OPS else "other", key, f))
    chunks = [rows[i:i + ROWS_PER_CHUNK] for i in range(0, len(rows), ROWS_PER_CHUNK)] or [[]]
    files = []
    for k, ch in enumerate(chunks):
        L = [
            "-- GENERATED by harness/gen_effects.py from the source of the live `capellambse.aird` package. Do not edit.",
            "import Capella.Model.Effects",
            f"namespace Capella.Gen.EffectsRows{k}",
            "open Capella.Effects",
            "",
            "def rows : List EffRow := [",
            "\n".join(f"  ⟨{fn}, .{recv}, .{'del_' if op == 'del' else op}, {chars(key)}⟩{',' if i < len(ch) - 1 else ']'} -- {name}: {recv}.{op} {key!r}"
                      for i, (fn, recv, op, key, name) in enumerate(ch)) if ch else "  ]",
            "",
            f"end Capella.Gen.EffectsRows{k}",
            "",
        ]
        # a trailing comment after the last row would swallow the bracket: the last row carries none
        files.append((f"EffectsRows{k}.lean", "\n".join(L), {"rows": len(ch)}))
    roots = [idx[e] for e in d["entry_points"] if e in idx]
    for t_ in d["tables"]:
        roots += [idx[fid] for _r, fid in t_["targets"] if fid in idx]
    reach, todo = [], list(dict.fromkeys(roots))
    while todo:
        n = todo.pop(0)
        if n in reach:
            continue
        reach.append(n)
        todo += [idx[c] for c in d["calls"][fns[n]]]
    reach.sort()
    tgt_rows = []
    unknown_targets = []
    for t_ in d["tables"]:
        for role, fid in t_["targets"]:
            if fid.startswith("?"):
                unknown_targets.append(f"{t_['table']}[{t_['key']}] -> {fid[1:]}")
            tgt_rows.append((t_["table"], t_["key"], t_["styleclass"], role, fid))
    L = [
        "-- GENERATED by harness/gen_effects.py from the live dispatch tables and the source of `capellambse.aird`. Do not edit.",
        "import Capella.Model.Effects",
    ] + [f"import Capella.Gen.EffectsRows{k}" for k in range(len(chunks))] + [
        "namespace Capella.Gen.Effects",
        "open Capella.Effects",
        "",
        "/-- every function of the package, by index (the index is what `EffRow.fn`, `calls`, `roots` refer to) -/",
        "def fnNames : List String := [",
        ",\n".join(f"  \"{f}\"" for f in fns) + "]",
        "",
        "/-- static call edges `caller ↦ callees` inside the package -/",
        "def calls : List (Nat × List Nat) := [",
        ",\n".join(f"  ({idx[f]}, [{', '.join(str(idx[c]) for c in d['calls'][f])}])" for f in fns if d["calls"][f]) + "]",
        "",
        "/-- one row per (table, key, role): the function the live table dispatches to; `none` = not a function of the\npackage the analyser knows (`.other`) -/",
        "def dispatch : List DispatchRow := [",
        ",\n".join(
            f"  ⟨.{tb}, {chars(key)}, {('some ' + chars(sc)) if sc is not None else 'none'}, .{role}, "
            f"{('some ' + str(idx[fid])) if fid in idx else 'none'}, {chars(fid.lstrip('?'))}⟩"
            for tb, key, sc, role, fid in tgt_rows) + "]",
        "",
        "/-- read-only entry points of the package -/",
        "def entryPoints : List Nat := [" + ", ".join(str(idx[e]) for e in d["entry_points"] if e in idx) + "]",
        "def entryPointsMissing : List String := [" + ", ".join(f'"{e}"' for e in d["entry_points"] if e not in idx) + "]",
        "",
        "def rowChunks : List (List EffRow) := [" + ", ".join(f"Capella.Gen.EffectsRows{k}.rows" for k in range(len(chunks))) + "]",
        "",
        "def table : Table := { nfn := " + str(len(fns)) + ", calls := calls, dispatch := dispatch, entry := entryPoints }",
        "",
        "/-- the functions reachable from the entry points and from every registered table entry, as computed by the",
        "generator; `reach_roots` and `reach_closed` check in the kernel that it contains every root and is closed under the\ncall edges (so the call-graph closure `table.reach` lies inside it: `Capella.Effects.reach_subset`) -/",
        "def reachable : List Nat := [" + ", ".join(str(i) for i in reach) + "]",
        "",
        "theorem reach_roots : table.roots.all reachable.contains = true := by decide +kernel",
        "theorem reach_closed : table.closedB reachable = true := by decide +kernel",
        "",
        "theorem entry_points_present : entryPointsMissing = [] := by decide +kernel",
        "theorem dispatch_all_known : table.dispatchKnownB = true := by decide +kernel",
        "theorem dispatch_factories_modelled : table.dispatch.all DispatchRow.modelledB = true := by decide +kernel",
    ]
    for k in range(len(chunks)):
        L.append(f"theorem rows{k}_pure : (Capella.Gen.EffectsRows{k}.rows.all (fun r => r.okIn reachable)) = true := by decide +kernel")
    L += [
        "",
        "theorem rows_pure : ∀ ch ∈ rowChunks, ch.all (fun r => r.okIn reachable) = true := by",
        "  intro ch h",
        "  simp only [rowChunks, List.mem_cons, List.mem_nil_iff, or_false] at h",
        "  rcases h with " + " | ".join("rfl" for _ in chunks),
    ] + [f"  · exact rows{k}_pure" for k in range(len(chunks))] + [
        "",
        "end Capella.Gen.Effects",
        "",
    ]
    info = {
        "functions": len(fns), "effect_rows": len(rows), "call_edges": sum(len(v) for v in d["calls"].values()),
        "dispatch_rows": len(tgt_rows), "other": unknown_targets,
        "unknown_receiver_rows": sum(1 for r in rows if r[1] == "unknown"),
        "obligations": 5 + len(chunks), "reachable": len(reach),
        "unreachable_with_model_writes": sorted({r[4] for r in rows if r[0] not in reach and r[2] in WRITE_OPS and r[1] in ("xml", "attrib", "loader", "modelobj", "unknown")}),
    }
    files.append(("Effects.lean", "\n".join(L), info))
    return files


if __name__ == "__main__":
    import json

    d = collect()
    if len(sys.argv) > 1 and sys.argv[1] == "-v":
        for f in d["functions"]:
            print(f, "->", d["calls"][f])
            for e in d["effects"][f]:
                print("    ", e)
        for t_ in d["tables"]:
            print(t_)
    else:
        print(json.dumps({k: (v if k != "effects" else {f: len(x) for f, x in v.items()}) for k, v in d.items()}, indent=1)[:6000])
    del textwrap
