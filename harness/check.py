"""Entry point: ./check <Cnn> [--tier quick|thorough] [--replay <file>] | ./check --setup"""

from __future__ import annotations

import argparse
import importlib
import json
import os
import pathlib
import sys
import time
import traceback

HERE = pathlib.Path(__file__).resolve().parent
sys.path.insert(0, str(HERE))

import common  # noqa: E402
from common import VERIF, Ctx, InfraError, Outcome  # noqa: E402


def setup() -> int:
    import gen_tables

    gen_tables.main()
    ok, log = common.lake_build([])
    sys.stdout.write(log[-3000:])
    return 0 if ok else 2


def _proofs(prop: str, mod, ctx: Ctx) -> dict:
    """Build + audit. Returns dict(obligations, discharged, broken=[...], detail)."""
    res = {"obligations": 0, "discharged": 0, "broken": [], "axioms": {}, "files": []}
    if getattr(mod, "TABLES", False):
        import gen_tables

        try:
            res["tables"] = gen_tables.main()
        except Exception as e:  # the repo no longer imports / tables unreadable
            raise InfraError(f"gen_tables failed: {e!r}") from e
    ok_drv, log_drv = common.lake_build(["Capella.Driver.Main"])
    if not ok_drv:
        res["broken"] += ["build:Capella.Driver.Main"] + common.failing_theorems(log_drv)
        res["driver_ok"] = False
        res["log"] = log_drv[-4000:]
    else:
        res["driver_ok"] = True
    thms = common.theorems_in(common.props_file(prop))
    extra = int(getattr(mod, "TABLE_OBLIGATIONS", 0))
    res["obligations"] = len(thms)
    ok, log = common.lake_build([f"Capella.Props.{prop}"])
    if not ok:
        res["broken"] += common.failing_theorems(log) or [f"build:Capella.Props.{prop}"]
        res["log"] = log[-4000:]
        return res
    aud = common.audit(prop, ctx.scratch)
    res["axioms"] = {k.split(".")[-1]: v for k, v in aud["axioms"].items()}
    res["files"] = aud["files"]
    for n in aud["missing"]:
        res["broken"].append(f"axioms-missing:{n}")
    for n, ax in aud["bad_axioms"].items():
        res["broken"].append(f"axiom:{n}:{','.join(ax)}")
    for tkn in aud["bad_tokens"]:
        res["broken"].append(f"token:{tkn}")
    bad = {b.split(":")[1] for b in res["broken"] if b.startswith(("axioms-missing:", "axiom:"))}
    res["discharged"] = len([n for n in thms if n not in bad])
    if aud["bad_tokens"]:
        res["discharged"] = 0
    del extra
    return res


def _leanchecker(prop: str) -> str | None:
    p = common._run(["lake", "env", "leanchecker", f"Capella.Props.{prop}"], common.LEAN, timeout=3000)
    if p.returncode != 0:
        return (p.stdout + p.stderr)[-1500:]
    return None


def run_check(prop: str, tier: str, seed: int) -> int:
    t0 = time.time()
    ctx = Ctx(prop, tier, seed)
    evidence_path = VERIF / "evidence" / f"{prop}.json"
    try:
        mod = importlib.import_module(f"props.{prop.lower()}")
        proofs = _proofs(prop, mod, ctx)
        if ctx.thorough and not proofs["broken"]:
            err = _leanchecker(prop)
            proofs["leanchecker"] = "ok" if err is None else err
            if err is not None:
                proofs["broken"].append("leanchecker")
        if not proofs.get("driver_ok", True):
            out = Outcome()
            out.extra["note"] = "model driver does not build; implementation-side monitor only"
            os.environ["VERIF_NO_MODEL"] = "1"
        out = mod.run(ctx)
        broken = list(proofs["broken"])
        corr_broken = [d["stream"] for d in out.disagreements]
        known = [k for k in common.load_known() if k.get("property") == prop and k.get("status", "known") == "known"]
        known_sigs = {k["signature"] for k in known}
        unknown = [f for f in out.findings if f.signature not in known_sigs]

        widened = False
        if not unknown and (broken or corr_broken) and not ctx.thorough and hasattr(mod, "run"):
            # broken proof/correspondence but no failing input yet: widen the search
            widened = True
            ctx2 = Ctx(prop, "thorough", seed)
            try:
                os.environ["VERIF_WIDEN"] = "1"
                out2 = mod.run(ctx2)
                for f in out2.findings:
                    if f.signature not in known_sigs and f.signature not in {u.signature for u in unknown}:
                        unknown.append(f)
                out.extra["widened_evaluations"] = out2.evaluations
            finally:
                ctx2.cleanup()
                os.environ.pop("VERIF_WIDEN", None)

        lines = []
        for f in out.findings:
            if f.signature in known_sigs:
                lines.append(f"KNOWN-FINDING: property={prop} {f.signature}: {f.what}")
        for k in known:
            if k["signature"] not in {f.signature for f in out.findings}:
                lines.append(f"note: known finding not reproduced in this run: property={prop} {k['signature']}")
        rc = 0
        replays = []
        if unknown:
            rc = 1
            for i, f in enumerate(unknown[:5]):
                rp = VERIF / "replays" / f"{prop}-{common.sha(f.replay)}.json"
                common.write_json(rp, {"property": prop, "signature": f.signature, "what": f.what,
                                       "seed": seed, "tier": tier, "case": f.replay})
                replays.append(str(rp))
                lines.append(f"VIOLATION property={prop} replay={rp}")
        elif broken or corr_broken:
            rc = 1
            rp = VERIF / "replays" / f"{prop}-unchecked-{common.sha([broken, out.disagreements[:3]])}.json"
            common.write_json(rp, {
                "property": prop, "seed": seed, "tier": tier,
                "no_failing_input_found": True,
                "broken_proof_obligations": broken,
                "broken_correspondence_streams": sorted(set(corr_broken)),
                "first_disagreements": out.disagreements[:5],
                "build_log_tail": proofs.get("log", ""),
                "search": {"widened_to_thorough": widened, "evaluations": out.evaluations + out.extra.get("widened_evaluations", 0)},
            })
            replays.append(str(rp))
            lines.append(f"VIOLATION property={prop} replay={rp} no-failing-input-found")

        obligations = proofs["obligations"] + out.table_obligations
        discharged = proofs["discharged"] + (out.table_obligations if not broken else 0)
        cov = {
            "obligations": obligations,
            "discharged": discharged,
            "checker_cmd": f"cd lean && lake build Capella.Props.{prop} && lake env lean <#print axioms for each theorem>"
            + (" && lake env leanchecker Capella.Props." + prop if ctx.thorough else ""),
            "trusted_base": common.TRUSTED_BASE + list(getattr(mod, "TRUSTED", [])),
            "theorems": proofs["axioms"],
            "lean_files": proofs["files"],
            "broken_obligations": broken,
            "evaluations": out.evaluations,
            "distinct_nontrivial": len(out.distinct),
            "rule": out.rule or getattr(mod, "RULE", ""),
            "samples": out.samples or [{"note": "no cases"}],
            "traces_validated_against_impl": out.traces_validated,
            "disagreements": len(out.disagreements),
            "branches_hit": out.branches,
            "exhaustive": out.exhaustive,
            "known_findings_reproduced": sorted(f.signature for f in out.findings if f.signature in known_sigs),
            "violations_reported": replays,
        }
        if "leanchecker" in proofs:
            cov["leanchecker"] = proofs["leanchecker"]
        if "tables" in proofs:
            cov["generated_tables"] = proofs["tables"]
        cov.update(out.extra)
        ev = {
            "property_id": prop,
            "tier": tier,
            "seed": seed,
            "level": getattr(mod, "LEVEL", "proof"),
            "coverage": cov,
            "assumptions": list(getattr(mod, "ASSUMPTIONS", [])) + out.assumptions,
            "wall_s": round(time.time() - t0, 2),
            "violations": len(unknown) + (1 if (rc and not unknown) else 0),
        }
        common.write_json(evidence_path, ev)
        for l in lines:
            print(l)
        print(f"{prop} {tier} seed={seed}: obligations {discharged}/{obligations}, "
              f"{out.evaluations} cases ({len(out.distinct)} distinct non-trivial), "
              f"{len(out.disagreements)} disagreements, {len(out.findings)} findings "
              f"({len(unknown)} unlisted), {ev['wall_s']}s -> exit {rc}")
        return rc
    except InfraError as e:
        print(f"INFRA-ERROR {prop}: {e}", file=sys.stderr)
        return 2
    except Exception:
        traceback.print_exc()
        print(f"INFRA-ERROR {prop}: harness crashed", file=sys.stderr)
        return 2
    finally:
        ctx.cleanup()


def replay(prop: str, path: str) -> int:
    ctx = Ctx(prop, "quick", 0)
    try:
        mod = importlib.import_module(f"props.{prop.lower()}")
        data = json.loads(pathlib.Path(path).read_text())
        if data.get("no_failing_input_found"):
            print(f"{path}: no failing input recorded; broken obligations: {data.get('broken_proof_obligations')}, "
                  f"streams: {data.get('broken_correspondence_streams')}")
            return run_check(prop, data.get("tier", "quick"), int(data.get("seed", 0)))
        if not hasattr(mod, "replay"):
            print("module has no single-case replay; re-running the check with the recorded seed")
            return run_check(prop, data.get("tier", "quick"), int(data.get("seed", 0)))
        still = mod.replay(ctx, data["case"])
        if still:
            print(f"VIOLATION property={prop} replay={path}")
            print(f"replayed: still fails: {still}")
            return 1
        print("replayed: the recorded case no longer fails")
        return 0
    finally:
        ctx.cleanup()


def main() -> int:
    ap = argparse.ArgumentParser()
    ap.add_argument("prop", nargs="?")
    ap.add_argument("--tier", default=None)
    ap.add_argument("--replay", default=None)
    ap.add_argument("--setup", action="store_true")
    a = ap.parse_args()
    if a.setup:
        return setup()
    if not a.prop:
        ap.error("property id required")
    tier = a.tier or os.environ.get("VERIF_TIER") or "quick"
    if tier not in ("quick", "thorough"):
        tier = "quick"
    try:
        seed = int(os.environ.get("VERIF_SEED", "0") or 0)
    except ValueError:
        seed = 0
    if a.replay:
        return replay(a.prop, a.replay)
    return run_check(a.prop, tier, seed)


if __name__ == "__main__":
    sys.exit(main())
